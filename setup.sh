#!/bin/bash
# Offline build of the whole Coq development from files on disk (full .vo build).
set -e
cd "$(dirname "$(readlink -f "$0")")"
export VERIF_REPO="${VERIF_REPO:-/repo}"
export PYTHONPATH="$VERIF_REPO/src:/verif" PYTHONHASHSEED=0 PYTHONDONTWRITEBYTECODE=1 PIP_NO_INDEX=1
mkdir -p build evidence replays coq/Gen
/venv/bin/python -W ignore -m harness.common.setup
cd coq
# a failing proof must not fail setup: checks report it per property
timeout 3300 make -k -j16 > ../build/setup.log 2>&1 || { echo "setup: some Coq files failed to build (see build/setup.log); checks will report them"; }
tail -3 ../build/setup.log
echo "setup done"
