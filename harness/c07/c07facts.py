"""Facts extractor for C07 (fail-closed, Python ast).

Value facts emitted into coq/Gen/Facts_C07.v and used by Model/C07.v:
  url_vroot_mode        which of the two recognised forms the `if vroot_path is not None:` block of
                        ResourceURL.__init__ has (string prefix on the quoted path / decoded tuple compare)
  c07_name_default      the literal of `loc.__name__ or <lit>` in _resource_path_list
  c07_root_tuple        the tuple literal of `physical_path_tuple != (<lit>,)`
  c07_trail_elt/_sep    `physical_path_tuple + (<lit>,)` and `physical_path + <lit>`
  c07_vtuple_head       the `('',)` that starts virtual_path_tuple
  c07_script_safe       safe set used to quote SCRIPT_NAME
  c07_script_quoted     whether Request.resource_path passes the quoted script name as app_url
  c07_elements_safe/sep safe set / separator of _join_elements
The facts of C02 (Gen/Facts_C02.v, which Model/C02.v -- imported by Model/C07.v -- uses) are regenerated
here as well, so that the imported model is the model of the tree under test.

Shape pins: pins.json (whole functions) + a skeleton pin of ResourceURL.__init__ with the virtual-root block
blanked (the block is covered by url_vroot_mode) + alternative pins for url.py functions that have two
recognised texts (before/after the C17 repairs; covered by c07_script_quoted and the safe-set facts).
"""
import ast
import copy
import json
import os

from harness.common import facts as F
from harness.c02 import c02facts
from harness.c17.facts17 import Bad, _calls, _is_name, _kwarg, _module_strs, _need, _resolve, _script_flag

HERE = os.path.dirname(os.path.abspath(__file__))

OLD_BLOCK = ("if vroot_path is not None:\n    vroot_path = vroot_path.rstrip('/')\n"
             "    if vroot_path and physical_path.startswith(vroot_path):\n"
             "        vroot_path_tuple = tuple(vroot_path.split('/'))\n"
             "        numels = len(vroot_path_tuple)\n"
             "        virtual_path_tuple = ('',) + physical_path_tuple[numels:]\n"
             "        virtual_path = physical_path[len(vroot_path):]")
NEW_BLOCK = ("if vroot_path is not None:\n    vroot_tuple = split_path_info(decode_path_info(vroot_path))\n"
             "    numels = len(vroot_tuple)\n"
             "    if numels and physical_path_tuple[1:numels + 1] == vroot_tuple:\n"
             "        virtual_path_tuple = ('',) + physical_path_tuple[numels + 1:]\n"
             "        virtual_path = _join_path_tuple(virtual_path_tuple)")

DEFAULTS = {
    'url_vroot_mode': 'UrlTupleCompare', 'c07_name_default': '', 'c07_root_tuple': [''],
    'c07_trail_elt': '', 'c07_trail_sep': '/', 'c07_vtuple_head': [''],
    'c07_script_safe': "~!$&'()*+,;=:@/", 'c07_script_quoted': True,
    'c07_elements_safe': "~!$&'()*+,;=:@", 'c07_elements_sep': '/',
}


def _str_tuple(e):
    if isinstance(e, ast.Tuple) and all(isinstance(x, ast.Constant) and isinstance(x.value, str) for x in e.elts):
        return [x.value for x in e.elts]
    raise Bad('not a tuple of str literals: %s' % ast.unparse(e))


def extract(src, problems):
    vals = dict(DEFAULTS)
    skeleton = None

    def attempt(label, f):
        try:
            f()
        except Bad as e:
            problems.append('fact %s unrecognised: %s' % (label, e))
        except Exception as e:
            problems.append('fact %s: extractor error %r' % (label, e))

    try:
        trav = F.Module(src, 'pyramid/traversal.py')
        url = F.Module(src, 'pyramid/url.py')
    except Exception as e:
        problems.append('cannot parse traversal.py / url.py: %r' % e)
        return vals, None
    tenv = {}

    def consts():
        tenv.update(_module_strs(trav, ['PATH_SEGMENT_SAFE', 'PATH_SAFE']))
    attempt('safe sets', consts)

    def names():
        fn = _need(trav.find('_resource_path_list'), '_resource_path_list')
        hits = [n for n in ast.walk(fn) if isinstance(n, ast.BoolOp) and isinstance(n.op, ast.Or)]
        if len(hits) != 1 or len(hits[0].values) != 2 or ast.unparse(hits[0].values[0]) != 'loc.__name__' \
                or not (isinstance(hits[0].values[1], ast.Constant) and isinstance(hits[0].values[1].value, str)):
            raise Bad('`loc.__name__ or <literal>` not found')
        vals['c07_name_default'] = hits[0].values[1].value
    attempt('c07_name_default', names)

    def adapter():
        nonlocal skeleton
        init = _need(trav.find('ResourceURL.__init__'), 'ResourceURL.__init__')
        init2 = copy.deepcopy(init)
        blocks = [st for st in init2.body if isinstance(st, ast.If) and ast.unparse(st.test) == 'vroot_path is not None']
        if len(blocks) != 1:
            raise Bad('%d `if vroot_path is not None:` blocks' % len(blocks))
        txt = ast.unparse(blocks[0])
        if txt == OLD_BLOCK:
            vals['url_vroot_mode'] = 'UrlStringPrefix'
        elif txt == NEW_BLOCK:
            vals['url_vroot_mode'] = 'UrlTupleCompare'
        else:
            problems.append('fact url_vroot_mode unrecognised: the virtual-root block of ResourceURL.__init__ has neither '
                            'of the two modelled texts')
        # the ('',) that starts the virtual path tuple
        heads = [n for n in ast.walk(blocks[0]) if isinstance(n, ast.Assign) and _is_name(n.targets[0], 'virtual_path_tuple')
                 and isinstance(n.value, ast.BinOp) and isinstance(n.value.op, ast.Add)]
        if len(heads) == 1:
            vals['c07_vtuple_head'] = _str_tuple(heads[0].value.left)
        else:
            problems.append('fact c07_vtuple_head unrecognised')
        blocks[0].body = [ast.Pass()]
        # if physical_path_tuple != (<lit>,): tuple += (<lit>,); path += <lit>
        ifs = [st for st in init2.body if isinstance(st, ast.If) and isinstance(st.test, ast.Compare)
               and _is_name(st.test.left, 'physical_path_tuple') and len(st.test.ops) == 1
               and isinstance(st.test.ops[0], ast.NotEq)]
        if len(ifs) != 1 or len(ifs[0].body) != 2 or ifs[0].orelse:
            raise Bad('`if physical_path_tuple != (...):` block')
        vals['c07_root_tuple'] = _str_tuple(ifs[0].test.comparators[0])
        a, b = ifs[0].body
        if not (isinstance(a, ast.Assign) and ast.unparse(a.targets[0]) == 'physical_path_tuple'
                and isinstance(a.value, ast.BinOp) and isinstance(a.value.op, ast.Add)
                and _is_name(a.value.left, 'physical_path_tuple')):
            raise Bad('physical_path_tuple = physical_path_tuple + (...)')
        t = _str_tuple(a.value.right)
        if len(t) != 1:
            raise Bad('appended tuple has %d elements' % len(t))
        vals['c07_trail_elt'] = t[0]
        if not (isinstance(b, ast.Assign) and ast.unparse(b.targets[0]) == 'physical_path'
                and isinstance(b.value, ast.BinOp) and isinstance(b.value.op, ast.Add)
                and _is_name(b.value.left, 'physical_path') and isinstance(b.value.right, ast.Constant)
                and isinstance(b.value.right.value, str)):
            raise Bad('physical_path = physical_path + <literal>')
        vals['c07_trail_sep'] = b.value.right.value
        ifs[0].test.comparators[0] = ast.Constant(value='<<fact>>')
        a.value.right = ast.Constant(value='<<fact>>')
        b.value.right = ast.Constant(value='<<fact>>')
        skeleton = F.shape(init2)
    attempt('ResourceURL.__init__', adapter)

    def script():
        q = url.find('URLMethodsMixin._quoted_script_name')
        host = q if q is not None else _need(url.find('URLMethodsMixin._partial_application_url'),
                                             '_partial_application_url')
        uq = _calls(host, 'url_quote')
        if len(uq) != 1 or not _is_name(uq[0].args[0], 'bscript_name'):
            raise Bad('url_quote(bscript_name, ...) not found')
        vals['c07_script_safe'] = _resolve(_need(_kwarg(uq[0], 'safe', 1), 'safe'), tenv)
        fn = _need(url.find('URLMethodsMixin.resource_path'), 'resource_path')
        vals['c07_script_quoted'] = _script_flag(fn, 'app_url')
    attempt('script name', script)

    def joins():
        fn = _need(url.find('_join_elements'), '_join_elements')
        target = fn
        if not fn.decorator_list:
            want = ('return _join_quoted_elements(tuple([s if s.__class__ in (str, bytes) else str(s) '
                    'for s in elements]))')
            if len(fn.body) != 1 or ast.unparse(fn.body[0]) != want:
                raise Bad('_join_elements body unrecognised')
            target = _need(url.find('_join_quoted_elements'), '_join_quoted_elements')
        ret = target.body[-1]
        call = getattr(ret, 'value', None)
        if not (isinstance(ret, ast.Return) and isinstance(call, ast.Call) and isinstance(call.func, ast.Attribute)
                and call.func.attr == 'join'):
            raise Bad('_join_elements return')
        vals['c07_elements_sep'] = _resolve(call.func.value, {})
        qc = _calls(call, 'quote_path_segment')
        if len(qc) != 1:
            raise Bad('quote_path_segment call in _join_elements')
        vals['c07_elements_safe'] = _resolve(_need(_kwarg(qc[0], 'safe', 1), 'safe'), tenv)
    attempt('_join_elements', joins)
    return vals, skeleton


def coq(vals):
    out = [F.HEADER, 'Require Import Verif.Lib.C07Types.\n']
    out.append('Definition url_vroot_mode : url_mode := %s.\n' % vals['url_vroot_mode'])
    for k in ('c07_name_default', 'c07_trail_elt', 'c07_trail_sep', 'c07_script_safe', 'c07_elements_safe',
              'c07_elements_sep'):
        out.append('Definition %s : text := %s.\n' % (k, F.coq_text(vals[k])))
    for k in ('c07_root_tuple', 'c07_vtuple_head'):
        out.append('Definition %s : list text := %s.\n' % (k, F.coq_texts(vals[k])))
    out.append('Definition c07_script_quoted : bool := %s.\n' % F.coq_bool(vals['c07_script_quoted']))
    return ''.join(out)


def check_alt(src, problems, summary):
    """functions with more than one recognised text: {"rel": {"qual": [hash, ...]}} (a missing function is
    accepted when the list contains null)"""
    with open(os.path.join(HERE, 'pins_alt.json')) as f:
        alts = json.load(f)
    for rel, quals in alts.items():
        try:
            m = F.Module(src, rel)
        except Exception as e:
            problems.append('cannot parse %s: %s' % (rel, e))
            continue
        for q, want in quals.items():
            node = m.find(q)
            got = F.shape(node) if node is not None else None
            summary['%s:%s' % (rel, q)] = got
            if got not in want:
                problems.append('shape pin %s:%s changed (%s is none of %s): the hand-written model follows '
                                'the previous text of this function' % (rel, q, got, want))


def facts(src):
    from harness.common import build
    problems = []
    summary = F.check_shapes(src, os.path.join(HERE, 'pins.json'), problems)
    check_alt(src, problems, summary)
    vals, skeleton = extract(src, problems)
    with open(os.path.join(HERE, 'skeleton.json')) as f:
        want = json.load(f)['ResourceURL.__init__']
    summary['pyramid/traversal.py:ResourceURL.__init__[skeleton]'] = skeleton
    if skeleton is not None and skeleton != want:
        problems.append('shape pin pyramid/traversal.py:ResourceURL.__init__ (skeleton with the virtual-root block '
                        'and the literals blanked) changed (%s -> %s): the hand-written model follows the previous '
                        'text' % (want, skeleton))
    summary.update(vals)
    # the imported model of C02 must be the model of this tree as well
    try:
        f2 = c02facts.facts(src)
        build.write_if_changed(os.path.join(build.COQ, 'Gen', 'Facts_C02.v'), f2['coq'])
        for p in f2['problems']:
            problems.append('[imported C02 model] ' + p)
        summary['c02_vpath_tuple_mode'] = f2['summary'].get('vpath_tuple_mode')
        summary['c02_path_segment_safe'] = f2['summary'].get('path_segment_safe')
    except Exception as e:
        problems.append('[imported C02 model] facts extractor failed: %r' % e)
    return {'coq': coq(vals), 'summary': summary, 'problems': problems}
