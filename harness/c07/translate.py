"""C07 translator: Python ast of the path / lookup functions of src/pyramid/location.py and
src/pyramid/traversal.py -> Gallina definitions gen_*, re-run on every check (prop.facts) and emitted into
coq/Gen/Code_C07.v (a second generated file: it needs the primitives of Model/C07.v, which itself imports the
constants of Gen/Facts_C07.v).  Proofs/C07_gen.v proves gen_f = model_f once; its scripts never mention the
generated text.

    location.lineage              -> gen_lineage root resource : list pos        (a generator: the yielded values)
    location.inside               -> gen_inside root resource1 resource2 : bool
    traversal._resource_path_list -> gen_resource_path_list root resource elements : list text
    traversal.resource_path_tuple -> gen_resource_path_tuple root resource elements : list text
    traversal.resource_path       -> gen_resource_path root resource elements : out text
    traversal._join_path_tuple    -> gen_join_path_tuple root tuple : out text
    traversal.quote_path_segment  -> gen_quote_path_segment root segment safe : out text
    traversal.find_root           -> gen_find_root root resource : pos
    traversal.traverse            -> gen_traverse_str / gen_traverse_tuple root resource path : out tdict
    traversal.find_resource       -> gen_find_resource_str / gen_find_resource_tuple root resource path : out found
    traversal.virtual_root        -> gen_virtual_root root resource request : out found
  (split_path_info and decode_path_info are translated by harness/c02/translate.py into Gen/Facts_C02.v, which this
   property imports and regenerates -- DEPENDS; Request.resource_url / parse_url_overrides are translated by
   harness/c17/translate.py; ResourceURL.__init__ stays hand-modelled: skeleton pin + the fact url_vroot_mode.)
  `root` is the ambient tree (resources are positions in it); a function whose `path` may be a str or a tuple is
  translated once per type, the isinstance / is_nonstr_iter tests being resolved by the type.

Fail-closed: a statement outside the SUBSET, an expression outside the PRIMITIVE TABLE, a typing surprise, a
changed module-level binding -> Problem; the caller records a broken tie and emits the stored fallback text
(gen_fallback.json: the translation of the reference text) so that the Coq files still type-check.

=== CONTROL FLOW (mechanical, continuation passing; nothing here is looked up) ===========================
  block s1; s2; ..      the translation of s1 receives the translation of the rest as its continuation
  v = e / a, b = x, y   substitution (no let; the names of locals occur only in binders)
  v = <fallible e>      xbind <e> (fun v_n => <rest>)        (a call that may raise is an [out]; also when nested in e)
  if c: A else: B; rest decision tree over the ATOMS of c (and / or / not are taken apart, elif = nested if, a test
                        repeated on a path is resolved, an `if` with two equal branches disappears); each branch is
                        followed by its own copy of <rest>.  Tests the TYPE decides (isinstance(path, str),
                        is_nonstr_iter(path), x.__class__ not in (str, bytes), `is None` of a value the table fixes
                        to None) are resolved at translation time.
  x is None / is not None   (x a resource-or-None / name-or-None):  match x with Some x_n => .. | None => .. end, x
                        standing for x_n (not None) in that branch
  a and b or c (value)  the value of `a and b` is b if a is true else a; of `x or c` x if x is true else c: the
                        same decision trees, the continuation receiving the chosen operand
  for T in E: B; rest   (fix loopN (lN : list elem) (c_v.. : carried) {struct lN} : ret :=
                           match lN with [] => <rest> | xN :: tN => <B> end) E v..
                        carried = variables assigned in B that are bound at loop entry; end of B / continue = recursive
                        call on tN with the current values; break = <rest> with the current values
  while c: B; rest      (fix whileN (fN : nat) (c_v.. : carried) {struct fN} : ret :=
                           match fN with O => <default, unreachable> | S gN => <tree of c: B.. | rest> end) FUEL v..
                        FUEL = loop_fuel v (= depth of v + 2) for the carried resource-or-None variable v (table: such a loop follows
                        __parent__ links); end of B = whileN gN <current values>.  Whether the bound suffices is NOT
                        assumed: the equality theorem with the structurally recursive model decides it.
  yield e; rest         e :: <rest>        (a generator function is the list of the values it yields)
  [E for x in L]        map (fun x_n => E) L ;  omap (fun x_n => E) L when E may raise (then the list may raise)
  try: v = X.__parent__ / except AttributeError: H     match attr_parent X with Some v_n => .. | None => <H> end
  try: reg = request.registry / except AttributeError: ..   both sides bind a registry (not modelled): erased
  try: return request.root / except AttributeError: H        H    (table: the modelled request has no `root`)
  try: .. return CACHE[(k..)] / except KeyError: r = e; CACHE[(k..)] = r; return r
                        the MEMO IDIOM: e  (memoisation is transparent: C07_history_free); the statements before the
                        cache read are translated normally; CACHE must be a module-level dict
  return e / raise KeyError(..)   per function: Val e / e / FoundAt e ... ; find_resource: return c -> Val (FoundAt c),
                        raise KeyError -> Val KeyErr
  from pyramid.request import Request     binds the default request factory

=== PRIMITIVE TABLE (trusted: each line is a claim about Python / Pyramid / webob semantics) ==============
  a resource                    its position in the tree [root] ;  None-able resource: option pos
  x.__parent__                  parent_of x           (in try/except AttributeError: attr_parent x, never missing)
  x.__name__                    attr_name root x : option text     n or 'lit' -> or_text n lit
  a is b (resources)            pos_eqb a b
  str / tuple of str            text / list text ; literals are code points ; () '' [] -> []
  truth value of a str / tuple  nonempty x           a == b / a != b (str)   text_eqb / negb
  path[0] == 'c'                head_is path c   ONLY on a path on which `path` was tested true
  tuple(x) list(x)              x        '/'.join(l) -> join [47] l     l.reverse() -> rev l    l.extend(m) -> l ++ m
  len(x)                        Z.of_nat (length x)     x[: -e] -> py_to_text (- e) x    a.endswith(b) -> endswith b a
  PATH_SEGMENT_SAFE etc.        module-level str constants: their literal value
  text_(s, 'utf-8')             s  (s a str)            url_quote(s, safe) -> url_quote_r s safe : out text
  ascii_(p)                     ascii_r p : out text
  get_current_registry()        a registry: not modelled;  reg.queryUtility(IRequestFactory), reg.queryAdapter(r, ITraverser),
                                reg.queryMultiAdapter((r, q), IResourceURL) -> None (nothing is registered in the modelled setting)
  Request.blank(path)           blank_request path : out request     request.registry = reg -> erased
  ResourceTreeTraverser(r)(q)   run_traverser root r q : out tdict    D['view_name'] D['context'] -> t_view_name D, t_context D
  ResourceURL(r, request)       adapter_r root r request : out rurl   (.virtual_path .physical_path -> ru_vp ru_pp)
  lineage(x) find_root(x) ...   the gen_* of the translated functions (module-level binding checked: one plain def,
                                decorators: none or lru_cache(n), which is erased)
"""
import ast
import json
import os

HERE = os.path.dirname(os.path.abspath(__file__))
FALLBACK = os.path.join(HERE, 'gen_fallback.json')

RES, RESOPT, TEXT, NAMEOPT, SEGS, SEGSOWN, RESLIST, BOOL, INT, TDICT, RURL, REQ, REQBLANK, ERASED, NONE, FACTORY, TRAV, MSG, CLS = (
    'res', 'res?', 'str', 'str?', 'tuple', 'list(own)', 'lineage', 'bool', 'int', 'tdict', 'rurl', 'request(vroot)',
    'request(blank)', 'erased', 'None', 'factory', 'traverser', 'message', 'class')
COQTY = {RES: 'pos', RESOPT: 'option pos', TEXT: 'text', NAMEOPT: 'option text', SEGS: 'list text', SEGSOWN: 'list text',
         RESLIST: 'list pos', BOOL: 'bool', INT: 'Z', TDICT: 'tdict', RURL: 'rurl', REQ: 'option text',
         REQBLANK: 'request', 'found': 'found'}


class Problem(Exception):
    pass


def u(node):
    try:
        return ast.unparse(node)
    except Exception:
        return '<%s>' % type(node).__name__


def lit(s):
    return '[' + '; '.join(str(ord(c)) for c in s) + ']%N' if s else '[]'


# every source function whose control flow is regenerated on every run (coverage audit: tools/coverage_map.py)
TRANSLATED = [
    'pyramid/location.py:lineage', 'pyramid/location.py:inside',
    'pyramid/traversal.py:_resource_path_list', 'pyramid/traversal.py:resource_path_tuple',
    'pyramid/traversal.py:resource_path', 'pyramid/traversal.py:_join_path_tuple',
    'pyramid/traversal.py:quote_path_segment', 'pyramid/traversal.py:find_root', 'pyramid/traversal.py:traverse',
    'pyramid/traversal.py:find_resource', 'pyramid/traversal.py:virtual_root',
]

# per function: module, python name, gen name, parameter types (by position), vararg type, return kind
#   ret: ('pure', T) | ('out', T) | ('gen', T) ; for find_resource the result table maps return/raise to [found]
FUNCS = [
    ('pyramid/location.py', 'lineage', 'gen_lineage', [('resource', RES)], None, ('gen', RES)),
    ('pyramid/location.py', 'inside', 'gen_inside', [('resource1', RES), ('resource2', RES)], None, ('pure', BOOL)),
    ('pyramid/traversal.py', '_resource_path_list', 'gen_resource_path_list', [('resource', RES)], SEGS, ('pure', SEGS)),
    ('pyramid/traversal.py', 'resource_path_tuple', 'gen_resource_path_tuple', [('resource', RES)], SEGS, ('pure', SEGS)),
    ('pyramid/traversal.py', 'quote_path_segment', 'gen_quote_path_segment', [('segment', TEXT), ('safe', TEXT)], None,
     ('out', TEXT)),
    ('pyramid/traversal.py', '_join_path_tuple', 'gen_join_path_tuple', [('tuple', SEGS)], None, ('out', TEXT)),
    ('pyramid/traversal.py', 'resource_path', 'gen_resource_path', [('resource', RES)], SEGS, ('out', TEXT)),
    ('pyramid/traversal.py', 'find_root', 'gen_find_root', [('resource', RES)], None, ('pure', RES)),
    ('pyramid/traversal.py', 'traverse', 'gen_traverse_str', [('resource', RES), ('path', TEXT)], None, ('out', TDICT)),
    ('pyramid/traversal.py', 'traverse', 'gen_traverse_tuple', [('resource', RES), ('path', SEGS)], None, ('out', TDICT)),
    ('pyramid/traversal.py', 'find_resource', 'gen_find_resource_str', [('resource', RES), ('path', TEXT)], None,
     ('found', None)),
    ('pyramid/traversal.py', 'find_resource', 'gen_find_resource_tuple', [('resource', RES), ('path', SEGS)], None,
     ('found', None)),
    ('pyramid/traversal.py', 'virtual_root', 'gen_virtual_root', [('resource', RES), ('request', REQ)], None,
     ('found', None)),
]
# calls of translated functions: python name -> {arg type of the distinguishing parameter: gen name}
CALLS = {
    'lineage': ('gen_lineage', RESLIST, False), 'inside': ('gen_inside', BOOL, False),
    '_resource_path_list': ('gen_resource_path_list', SEGSOWN, False),
    'resource_path_tuple': ('gen_resource_path_tuple', SEGS, False),
    'quote_path_segment': ('gen_quote_path_segment', TEXT, True),
    '_join_path_tuple': ('gen_join_path_tuple', TEXT, True), 'resource_path': ('gen_resource_path', TEXT, True),
    'find_root': ('gen_find_root', RES, False),
}


def ret_coq(ret):
    kind, t = ret
    if kind == 'pure':
        return COQTY[t]
    if kind == 'out':
        return 'out %s' % COQTY[t]
    if kind == 'gen':
        return 'list %s' % COQTY[t]
    return 'out found'


def default_of(ret):
    kind, t = ret
    if kind == 'gen':
        return '[]'
    if kind == 'pure':
        return {BOOL: 'false', RES: '[]', SEGS: '[]', TEXT: '[]'}[t]
    return 'Err EUnsupported'


class Ctx:
    def __init__(self, tr, fn):
        self.tr, self.fn = tr, fn
        self.env = {}          # name -> (type, term)
        self.decided = {}      # atom term -> bool
        self.loop = None       # innermost loop: dict(continue=fn(ctx), brk=fn(ctx))

    def copy(self):
        c = Ctx(self.tr, self.fn)
        c.env, c.decided, c.loop = dict(self.env), dict(self.decided), self.loop
        return c

    def bind(self, name, ty, term):
        c = self.copy()
        c.env[name] = (ty, term)
        return c

    def decide(self, atom, val):
        c = self.copy()
        c.decided[atom] = val
        return c


def assigned_names(stmts):
    out = []
    for st in stmts:
        for n in ast.walk(st):
            if isinstance(n, ast.Name) and isinstance(n.ctx, ast.Store) and n.id not in out:
                out.append(n.id)
            # l.reverse() / l.extend(..) rebind l
            if isinstance(n, ast.Expr) and isinstance(n.value, ast.Call) and isinstance(n.value.func, ast.Attribute) \
                    and isinstance(n.value.func.value, ast.Name) and n.value.func.attr in ('reverse', 'extend', 'append') \
                    and n.value.func.value.id not in out:
                out.append(n.value.func.value.id)
    return out


class Translator:
    def __init__(self, src):
        self.src = src
        self.mods = {}
        self.fresh = 0
        self.nloop = 0

    def module(self, rel):
        if rel not in self.mods:
            with open(os.path.join(self.src, rel)) as f:
                self.mods[rel] = ast.parse(f.read())
        return self.mods[rel]

    def new(self, base):
        self.fresh += 1
        return '%s_%d' % (base.strip('_') or 'v', self.fresh)

    # ---- module-level bindings
    def fundef(self, rel, name):
        defs = [st for st in self.module(rel).body if isinstance(st, ast.FunctionDef) and st.name == name]
        others = [st for st in self.module(rel).body if isinstance(st, (ast.Assign, ast.ClassDef)) and any(
            isinstance(t, ast.Name) and t.id == name for t in getattr(st, 'targets', [])) or
            (isinstance(st, ast.ClassDef) and st.name == name)]
        if len(defs) != 1 or others:
            raise Problem('%s: module-level binding of %s is not one plain def' % (rel, name))
        d = defs[0]
        for deco in d.decorator_list:
            if not (isinstance(deco, ast.Call) and u(deco.func) == 'lru_cache' and len(deco.args) == 1 and not deco.keywords):
                raise Problem('%s: decorator %s of %s' % (rel, u(deco), name))
        return d

    def module_const(self, rel, name, depth=0):
        """module-level NAME = str literal / concatenation of such"""
        hits = [st for st in self.module(rel).body if isinstance(st, ast.Assign) and len(st.targets) == 1
                and isinstance(st.targets[0], ast.Name) and st.targets[0].id == name]
        if len(hits) != 1 or depth > 4:
            return None

        def ev(e):
            if isinstance(e, ast.Constant) and isinstance(e.value, str):
                return e.value
            if isinstance(e, ast.BinOp) and isinstance(e.op, ast.Add):
                a, b = ev(e.left), ev(e.right)
                return None if a is None or b is None else a + b
            if isinstance(e, ast.Name):
                return self.module_const(rel, e.id, depth + 1)
            return None
        return ev(hits[0].value)

    def module_is_dict(self, rel, name):
        hits = [st for st in self.module(rel).body if isinstance(st, ast.Assign) and len(st.targets) == 1
                and isinstance(st.targets[0], ast.Name) and st.targets[0].id == name]
        return len(hits) == 1 and isinstance(hits[0].value, ast.Dict) and not hits[0].value.keys

    # ---- one function
    def function(self, rel, pyname, gen, params, vararg, ret):
        d = self.fundef(rel, pyname)
        self.rel = rel
        a = d.args
        if a.kwonlyargs or a.kwarg or a.posonlyargs:
            raise Problem('%s: unexpected parameter kinds' % pyname)
        names = [x.arg for x in a.args]
        if len(names) != len(params):
            raise Problem('%s: %d parameters, %d expected' % (pyname, len(names), len(params)))
        if (a.vararg is None) != (vararg is None):
            raise Problem('%s: *args' % pyname)
        ctx = Ctx(self, (pyname, gen, ret))
        binders = ['(root : res)']
        ndef = len(a.defaults)
        self.defaults = {}
        for i, (nm, (_, ty)) in enumerate(zip(names, params)):
            ctx = ctx.bind(nm, ty, nm + '_0')
            binders.append('(%s_0 : %s)' % (nm, COQTY[ty]))
            j = i - (len(names) - ndef)
            if j >= 0:
                self.defaults[(pyname, i)] = a.defaults[j]
        if vararg is not None:
            ctx = ctx.bind(a.vararg.arg, vararg, a.vararg.arg + '_0')
            binders.append('(%s_0 : %s)' % (a.vararg.arg, COQTY[vararg]))
        self.is_gen = ret[0] == 'gen'
        body = self.block(d.body, ctx, lambda c: self.fall_off(c))
        return 'Definition %s %s : %s :=\n  %s.\n' % (gen, ' '.join(binders), ret_coq(ret), body)

    def fall_off(self, ctx):
        kind, t = ctx.fn[2]
        if kind == 'gen':
            return '[]'
        raise Problem('%s: control reaches the end of the function (returns None)' % ctx.fn[0])

    # ---- statements
    def block(self, stmts, ctx, k):
        if not stmts:
            return k(ctx)
        st, rest = stmts[0], stmts[1:]
        kk = lambda c: self.block(rest, c, k)
        if isinstance(st, ast.Expr) and isinstance(st.value, ast.Constant) and isinstance(st.value.value, str):
            return kk(ctx)
        if isinstance(st, ast.Pass):
            return kk(ctx)
        if isinstance(st, ast.Expr) and isinstance(st.value, ast.Yield):
            if ctx.fn[2][0] != 'gen' or st.value.value is None:
                raise Problem('yield outside a generator / bare yield')
            return self.ev(st.value.value, ctx, lambda ty, t, c: self.want(ty, ctx.fn[2][1], st) and '(%s :: %s)' % (t, kk(c)))
        if isinstance(st, ast.Expr) and isinstance(st.value, ast.Call):
            return self.method_stmt(st.value, ctx, kk)
        if isinstance(st, ast.ImportFrom):
            if st.module == 'pyramid.request' and [(n.name, n.asname) for n in st.names] == [('Request', None)]:
                return kk(ctx.bind('Request', FACTORY, ''))
            raise Problem('import %s' % u(st))
        if isinstance(st, ast.Assign):
            return self.assign(st, ctx, kk)
        if isinstance(st, ast.If):
            return self.cond(st.test, ctx, lambda c: self.block(st.body, c, kk), lambda c: self.block(st.orelse, c, kk))
        if isinstance(st, ast.For):
            return self.for_loop(st, ctx, kk)
        if isinstance(st, ast.While):
            return self.while_loop(st, ctx, kk)
        if isinstance(st, ast.Try):
            return self.try_stmt(st, ctx, kk)
        if isinstance(st, ast.Return):
            return self.ret(st, ctx)
        if isinstance(st, ast.Raise):
            return self.raise_(st, ctx)
        if isinstance(st, ast.Break):
            if ctx.loop is None:
                raise Problem('break outside a loop')
            return ctx.loop['brk'](ctx)
        if isinstance(st, ast.Continue):
            if ctx.loop is None:
                raise Problem('continue outside a loop')
            return ctx.loop['cont'](ctx)
        raise Problem('statement outside the subset: %s' % u(st).split('\n')[0])

    def want(self, ty, expected, node):
        if ty != expected and not ({ty, expected} <= {SEGS, SEGSOWN}):
            raise Problem('type %s where %s is expected: %s' % (ty, expected, u(node)))
        return True

    def assign(self, st, ctx, kk):
        if len(st.targets) != 1:
            raise Problem('chained assignment %s' % u(st))
        tg = st.targets[0]
        if isinstance(tg, ast.Name):
            return self.ev(st.value, ctx, lambda ty, t, c: kk(c.bind(tg.id, ty, t)))
        if isinstance(tg, ast.Tuple) and isinstance(st.value, ast.Tuple) and len(tg.elts) == len(st.value.elts) \
                and all(isinstance(e, ast.Name) for e in tg.elts):
            def go(i, c, acc):
                if i == len(tg.elts):
                    for e, (ty, t) in zip(tg.elts, acc):
                        c = c.bind(e.id, ty, t)
                    return kk(c)
                return self.ev(st.value.elts[i], c, lambda ty, t, c2: go(i + 1, c2, acc + [(ty, t)]))
            return go(0, ctx, [])
        if isinstance(tg, ast.Attribute) and isinstance(tg.value, ast.Name) and tg.attr == 'registry':
            oty = ctx.env.get(tg.value.id, (None,))[0]
            return self.ev(st.value, ctx, lambda ty, t, c: self.want(ty, ERASED, st) and oty in (REQBLANK, REQ) and kk(c)
                           or self.bad('attribute store %s' % u(st)))
        raise Problem('assignment target %s' % u(tg))

    def bad(self, msg):
        raise Problem(msg)

    def method_stmt(self, call, ctx, kk):
        f = call.func
        if isinstance(f, ast.Attribute) and isinstance(f.value, ast.Name) and f.value.id in ctx.env:
            ty, t = ctx.env[f.value.id]
            if ty == SEGSOWN and f.attr == 'reverse' and not call.args and not call.keywords:
                return kk(ctx.bind(f.value.id, SEGSOWN, '(rev %s)' % t))
            if ty == SEGSOWN and f.attr == 'extend' and len(call.args) == 1 and not call.keywords:
                return self.ev(call.args[0], ctx, lambda ty2, t2, c: self.want(ty2, SEGS, call) and
                               kk(c.bind(f.value.id, SEGSOWN, '(%s ++ %s)' % (t, t2))))
        raise Problem('expression statement %s' % u(call))

    def ret(self, st, ctx):
        kind, rt = ctx.fn[2]
        if kind == 'gen':
            raise Problem('return in a generator')
        if st.value is None:
            raise Problem('bare return')

        def fin(ty, t, c):
            if kind == 'pure':
                self.want(ty, rt, st)
                return t
            if kind == 'out':
                self.want(ty, rt, st)
                return '(Val %s)' % t
            # found
            if ty == 'found':
                return '(Val %s)' % t
            self.want(ty, RES, st)
            return '(Val (FoundAt %s))' % t
        # a call whose own result is the function's result is returned as it stands
        direct = self.direct_out(st.value, ctx)
        if direct is not None:
            return direct
        return self.ev(st.value, ctx, fin)

    def direct_out(self, e, ctx):
        """return f(..) where f(..) : out T and the function returns out T: no re-wrapping"""
        return None

    def raise_(self, st, ctx):
        if ctx.fn[2][0] == 'found' and isinstance(st.exc, ast.Call) and u(st.exc.func) == 'KeyError':
            return '(Val KeyErr)'
        raise Problem('raise %s' % u(st.exc))

    # ---- loops
    def carried(self, body, ctx):
        return [n for n in assigned_names(body) if n in ctx.env]

    def for_loop(self, st, ctx, kk):
        if st.orelse or not isinstance(st.target, ast.Name):
            raise Problem('for-else / pattern target')
        car = self.carried(st.body, ctx)

        def with_iter(ty, it, c0):
            if ty != RESLIST:
                raise Problem('loop over %s' % ty)
            self.nloop += 1
            n = self.nloop
            f, l, x, t = 'loop%d' % n, 'l%d' % n, '%s_%d' % (st.target.id, n), 't%d' % n
            cb = c0.copy()
            binders = []
            for v in car:
                vty = c0.env[v][0]
                b = 'c_%s_%d' % (v, n)
                binders.append('(%s : %s)' % (b, COQTY[vty]))
                cb = cb.bind(v, vty, b)
            rettxt = ret_coq(c0.fn[2])
            outer = c0.loop

            def after(c):               # the statements after the loop, control leaves the loop
                c2 = c.copy()
                c2.loop = outer
                for nm in list(c2.env):
                    if nm not in c0.env:
                        del c2.env[nm]          # locals of one iteration
                return kk(c2)
            nil = after(cb)
            ci = cb.bind(st.target.id, RES, x)
            ci.loop = {'cont': lambda c: '(%s %s%s)' % (f, t, ''.join(' ' + c.env[v][1] for v in car)), 'brk': after}
            body = self.block(st.body, ci, ci.loop['cont'])
            return ('((fix %s (%s : list pos) %s{struct %s} : %s :=\n    match %s with\n    | [] => %s\n    | %s :: %s => %s\n    end) %s%s)'
                    % (f, l, ''.join(b + ' ' for b in binders), l, rettxt, l, nil, x, t, body, it,
                       ''.join(' ' + c0.env[v][1] for v in car)))
        return self.ev(st.iter, ctx, with_iter)

    def while_loop(self, st, ctx, kk):
        if st.orelse:
            raise Problem('while-else')
        car = self.carried(st.body, ctx)
        self.nloop += 1
        n = self.nloop
        f, fu, g = 'while%d' % n, 'f%d' % n, 'g%d' % n
        cb = ctx.copy()
        binders, inits, fuel = [], [], None
        for v in car:
            vty, vt = ctx.env[v]
            if vty == RES:                  # a resource variable that the loop may set to None
                vty, vt = RESOPT, '(Some %s)' % vt
            b = 'c_%s_%d' % (v, n)
            binders.append('(%s : %s)' % (b, COQTY[vty]))
            inits.append(vt)
            cb = cb.bind(v, vty, b)
            if vty == RESOPT and fuel is None:
                fuel = '(loop_fuel %s)' % vt
        if fuel is None:
            raise Problem('while loop without a resource-or-None variable: no bound in the table')
        outer = ctx.loop

        def after(c):
            c2 = c.copy()
            c2.loop = outer
            for nm in list(c2.env):
                if nm not in ctx.env:
                    del c2.env[nm]
            # a carried resource variable is None-able after the loop
            return kk(c2)

        def again(c):
            args = []
            for v in car:
                ty, t = c.env[v]
                want = cb.env[v][0]
                if ty == RES and want == RESOPT:
                    t = '(Some %s)' % t
                elif ty == NONE and want in (RESOPT, NAMEOPT):
                    t = 'None'
                elif ty != want:
                    raise Problem('loop variable %s changes type: %s -> %s' % (v, want, ty))
                args.append(' ' + t)
            return '(%s %s%s)' % (f, g, ''.join(args))
        ci = cb.copy()
        ci.loop = {'cont': again, 'brk': after}
        tree = self.cond(st.test, ci, lambda c: self.block(st.body, c, again), after)
        return ('((fix %s (%s : nat) %s{struct %s} : %s :=\n    match %s with\n    | O => %s (* out of fuel: unreachable *)\n    | S %s => %s\n    end) %s%s)'
                % (f, fu, ''.join(b + ' ' for b in binders), fu, ret_coq(ctx.fn[2]), fu, default_of(ctx.fn[2]), g, tree,
                   fuel, ''.join(' ' + i for i in inits)))

    # ---- try
    def try_stmt(self, st, ctx, kk):
        if st.orelse or st.finalbody or len(st.handlers) != 1 or not isinstance(st.handlers[0].type, ast.Name) \
                or st.handlers[0].name is not None:
            raise Problem('try shape: %s' % u(st).split('\n')[0])
        h = st.handlers[0]
        exc = h.type.id
        if exc == 'AttributeError' and len(st.body) == 1:
            b = st.body[0]
            val = b.value if isinstance(b, (ast.Assign, ast.Return)) else None
            if isinstance(val, ast.Attribute) and isinstance(val.value, ast.Name) and val.value.id in ctx.env:
                oty, ot = ctx.env[val.value.id]
                handler = lambda c: self.block(h.body, c, kk)
                if val.attr == '__parent__' and oty == RES and isinstance(b, ast.Assign) and len(b.targets) == 1 \
                        and isinstance(b.targets[0], ast.Name):
                    v = self.new(b.targets[0].id)
                    some = kk(ctx.bind(b.targets[0].id, RESOPT, v))
                    return '(match attr_parent %s with Some %s => %s | None => %s end)' % (ot, v, some, handler(ctx))
                if val.attr == 'registry' and oty in (REQ, REQBLANK) and isinstance(b, ast.Assign) \
                        and isinstance(b.targets[0], ast.Name):
                    # both sides must bind an (erased) registry
                    name = b.targets[0].id
                    probe = self.block(h.body, ctx, lambda c: 'OK' if c.env.get(name, (None,))[0] == ERASED else self.bad(
                        'handler of `%s` does not bind a registry' % u(b)))
                    if probe != 'OK':
                        raise Problem('handler of `%s`' % u(b))
                    return kk(ctx.bind(name, ERASED, ''))
                if val.attr == 'root' and oty == REQ and isinstance(b, ast.Return):
                    return handler(ctx)
        if exc == 'KeyError':
            return self.memo_idiom(st, ctx)
        raise Problem('try shape: %s' % u(st).split('\n')[0])

    def memo_idiom(self, st, ctx):
        body, h = st.body, st.handlers[0].body
        if not body or not isinstance(body[-1], ast.Return) or not isinstance(body[-1].value, ast.Subscript) \
                or not isinstance(body[-1].value.value, ast.Name):
            raise Problem('memo idiom: the try body must end in `return CACHE[key]`')
        cache = body[-1].value.value.id
        if cache in ctx.env or not self.module_is_dict(self.rel, cache):
            raise Problem('memo idiom: %s is not a module-level dict' % cache)
        key = ast.dump(body[-1].value.slice)
        if len(h) != 3 or not (isinstance(h[0], ast.Assign) and isinstance(h[0].targets[0], ast.Name)):
            raise Problem('memo idiom: handler shape')
        r = h[0].targets[0].id
        tg = h[1].targets[0] if isinstance(h[1], ast.Assign) and len(h[1].targets) == 1 else None
        if not (isinstance(tg, ast.Subscript) and u(tg.value) == cache and ast.dump(tg.slice) == key and u(h[1].value) == r
                and isinstance(h[2], ast.Return) and u(h[2].value) == r):
            raise Problem('memo idiom: handler must be `r = e; CACHE[key] = r; return r` with the same key')
        # the key must be made of the variables the value is computed from: names in e ⊆ names in key
        knames = {n.id for n in ast.walk(body[-1].value.slice) if isinstance(n, ast.Name)}
        enames = {n.id for n in ast.walk(h[0].value) if isinstance(n, ast.Name) and n.id in ctx.env}
        if not enames <= knames:
            raise Problem('memo idiom: the cached value depends on %s, which is not part of the key' % sorted(enames - knames))
        return self.block(body[:-1], ctx, lambda c: self.block([h[0], ast.Return(value=ast.Name(id=r, ctx=ast.Load()))], c,
                                                               lambda c2: self.bad('memo idiom')))

    # ---- conditions: decision trees
    def atom(self, a, ctx, kt, kf):
        if a in ('true', 'false'):
            return kt(ctx) if a == 'true' else kf(ctx)
        if a in ctx.decided:
            return kt(ctx) if ctx.decided[a] else kf(ctx)
        t, e = kt(ctx.decide(a, True)), kf(ctx.decide(a, False))
        if t == e:
            return t
        return '(if %s then %s else %s)' % (a, t, e)

    def cond(self, node, ctx, kt, kf):
        if isinstance(node, ast.BoolOp):
            vals = node.values
            if isinstance(node.op, ast.And):
                def go(i, c):
                    if i == len(vals):
                        return kt(c)
                    return self.cond(vals[i], c, lambda c2: go(i + 1, c2), kf)
                return go(0, ctx)

            def go(i, c):
                if i == len(vals):
                    return kf(c)
                return self.cond(vals[i], c, kt, lambda c2: go(i + 1, c2))
            return go(0, ctx)
        if isinstance(node, ast.UnaryOp) and isinstance(node.op, ast.Not):
            return self.cond(node.operand, ctx, kf, kt)
        if isinstance(node, ast.Compare) and len(node.ops) == 1:
            op, l, r = node.ops[0], node.left, node.comparators[0]
            if isinstance(op, (ast.Is, ast.IsNot)):
                neg = isinstance(op, ast.IsNot)
                yes, no = (kf, kt) if neg else (kt, kf)
                if isinstance(r, ast.Constant) and r.value is None:
                    return self.is_none(l, ctx, yes, no)
                return self.ev(l, ctx, lambda t1, a, c: self.ev(r, c, lambda t2, b, c2: (
                    self.atom('(pos_eqb %s %s)' % (a, b), c2, yes, no) if (t1, t2) == (RES, RES)
                    else self.bad('`is` on %s, %s' % (t1, t2)))))
            if isinstance(op, (ast.Eq, ast.NotEq)):
                yes, no = (kf, kt) if isinstance(op, ast.NotEq) else (kt, kf)
                # path[0] == 'c'
                if isinstance(l, ast.Subscript) and isinstance(l.slice, ast.Constant) and l.slice.value == 0 \
                        and isinstance(r, ast.Constant) and isinstance(r.value, str) and len(r.value) == 1:
                    def idx(ty, t, c):
                        self.want(ty, TEXT, l)
                        if c.decided.get('(nonempty %s)' % t) is not True:
                            raise Problem('%s: not guarded by the truth of the string (IndexError)' % u(l))
                        return self.atom('(head_is %s %d)' % (t, ord(r.value)), c, yes, no)
                    return self.ev(l.value, ctx, idx)
                return self.ev(l, ctx, lambda t1, a, c: self.ev(r, c, lambda t2, b, c2: (
                    self.atom('(text_eqb %s %s)' % (a, b), c2, yes, no) if (t1, t2) == (TEXT, TEXT)
                    else self.bad('== on %s, %s' % (t1, t2)))))
            if isinstance(op, (ast.In, ast.NotIn)) and u(l).endswith('.__class__') and u(r) in ('(str, bytes)', '(bytes, str)'):
                yes, no = (kf, kt) if isinstance(op, ast.NotIn) else (kt, kf)
                return self.ev(l.value, ctx, lambda ty, t, c: yes(c) if ty == TEXT else self.bad('__class__ of %s' % ty))
        if isinstance(node, ast.Call) and isinstance(node.func, ast.Name) and node.func.id in ('isinstance', 'is_nonstr_iter') \
                and node.func.id not in ctx.env:
            if node.func.id == 'isinstance':
                if len(node.args) != 2 or u(node.args[1]) != 'str':
                    raise Problem(u(node))
                return self.ev(node.args[0], ctx, lambda ty, t, c: kt(c) if ty == TEXT else kf(c) if ty in (SEGS, SEGSOWN)
                               else self.bad('isinstance of %s' % ty))
            return self.ev(node.args[0], ctx, lambda ty, t, c: kf(c) if ty == TEXT else kt(c) if ty in (SEGS, SEGSOWN)
                           else self.bad('is_nonstr_iter of %s' % ty))
        # truth value
        return self.ev(node, ctx, lambda ty, t, c: self.truth(ty, t, c, kt, kf, node))

    def truth(self, ty, t, c, kt, kf, node):
        if ty in (TEXT, SEGS, SEGSOWN):
            if t == '[]':
                return kf(c)
            return self.atom('(nonempty %s)' % t, c, kt, kf)
        if ty == BOOL:
            return self.atom(t, c, kt, kf)
        if ty == NONE:
            return kf(c)
        raise Problem('truth value of %s: %s' % (ty, u(node)))

    def is_none(self, l, ctx, yes, no):
        def go(ty, t, c):
            if ty == NONE:
                return yes(c)
            if ty in (RES, TEXT, SEGS, FACTORY, TRAV, RURL, TDICT):
                return no(c)
            if ty in (RESOPT, NAMEOPT):
                v = self.new(l.id if isinstance(l, ast.Name) else 'v')
                inner = RES if ty == RESOPT else TEXT
                c_some = c.bind(l.id, inner, v) if isinstance(l, ast.Name) else c
                a, b = no(c_some), yes(c.bind(l.id, NONE, 'None') if isinstance(l, ast.Name) else c)
                return '(match %s with Some %s => %s | None => %s end)' % (t, v, a, b)
            raise Problem('`is None` of %s' % ty)
        return self.ev(l, ctx, go)

    # ---- expressions (continuation passing: k(type, term, ctx))
    def ev(self, e, ctx, k):
        if isinstance(e, ast.Constant):
            if isinstance(e.value, str):
                return k(TEXT, lit(e.value), ctx)
            if e.value is None:
                return k(NONE, 'None', ctx)
            if e.value is True or e.value is False:
                return k(BOOL, 'true' if e.value else 'false', ctx)
            raise Problem('constant %r' % (e.value,))
        if isinstance(e, ast.JoinedStr):
            return k(MSG, '', ctx)
        if isinstance(e, ast.Name):
            if e.id in ctx.env:
                ty, t = ctx.env[e.id]
                return k(ty, t, ctx)
            c = self.module_const(self.rel, e.id)
            if c is not None:
                return k(TEXT, lit(c), ctx)
            raise Problem('name %s' % e.id)
        if isinstance(e, ast.Tuple) and not e.elts:
            return k(SEGS, '[]', ctx)
        if isinstance(e, ast.List) and not e.elts:
            return k(SEGSOWN, '[]', ctx)
        if isinstance(e, ast.BoolOp):
            return self.value_boolop(e, ctx, k)
        if isinstance(e, ast.ListComp):
            return self.listcomp(e, ctx, k)
        if isinstance(e, ast.Attribute):
            return self.ev(e.value, ctx, lambda ty, t, c: self.attribute(e, ty, t, c, k))
        if isinstance(e, ast.Subscript):
            return self.subscript(e, ctx, k)
        if isinstance(e, ast.UnaryOp) and isinstance(e.op, ast.USub):
            return self.ev(e.operand, ctx, lambda ty, t, c: self.want(ty, INT, e) and k(INT, '(Z.opp %s)' % t, c))
        if isinstance(e, ast.Call):
            return self.call(e, ctx, k)
        raise Problem('expression outside the table: %s' % u(e))

    def value_boolop(self, e, ctx, k):
        vals = e.values
        is_and = isinstance(e.op, ast.And)
        if not is_and and len(vals) == 2:
            # n or 'lit'  with n a str-or-None
            probe = []
            try:
                self.ev(vals[0], ctx, lambda ty, t, c: probe.append((ty, t)) or '')
            except Problem:
                probe = []
            if len(probe) == 1 and probe[0][0] == NAMEOPT:
                return self.ev(vals[1], ctx, lambda ty, d, c: self.want(ty, TEXT, e) and
                               k(TEXT, '(or_text %s %s)' % (probe[0][1], d), c))

        def go(i, c):
            if i == len(vals) - 1:
                return self.ev(vals[i], c, k)
            # value of the operand decides: And -> continue when true, else the operand; Or -> the operand when true

            def chosen(ty, t, c2):
                stop = lambda c3: k(ty, t, c3)
                nxt = lambda c3: go(i + 1, c3)
                return self.truth(ty, t, c2, nxt if is_and else stop, stop if is_and else nxt, vals[i])
            return self.ev(vals[i], c, chosen)
        return go(0, ctx)

    def listcomp(self, e, ctx, k):
        if len(e.generators) != 1 or e.generators[0].ifs or e.generators[0].is_async \
                or not isinstance(e.generators[0].target, ast.Name):
            raise Problem('comprehension %s' % u(e))
        g = e.generators[0]

        def with_iter(ty, it, c):
            elem = {RESLIST: RES, SEGS: TEXT, SEGSOWN: TEXT}.get(ty)
            if elem is None:
                raise Problem('comprehension over %s' % ty)
            x = self.new(g.target.id)
            ci = c.bind(g.target.id, elem, x)
            seen = {}

            def inner(ty2, t2, c2):
                seen['ty'] = ty2
                return ('PURE', t2)
            # first try: a pure element expression
            marker = []

            def kpure(ty2, t2, c2):
                marker.append((ty2, t2))
                return '(Val %s)' % t2
            body = self.ev(e.elt, ci, kpure)
            if len(marker) != 1:
                raise Problem('comprehension element with branching: %s' % u(e.elt))
            ty2, t2 = marker[0]
            if ty2 != TEXT:
                raise Problem('comprehension element of type %s' % ty2)
            if body == '(Val %s)' % t2:
                return k(SEGSOWN, '(map (fun %s => %s) %s)' % (x, t2, it), c)
            v = self.new('l')
            return '(xbind (omap (fun %s => %s) %s) (fun %s => %s))' % (x, body, it, v, k(SEGSOWN, v, c))
        return self.ev(g.iter, ctx, with_iter)

    def attribute(self, e, ty, t, c, k):
        a = e.attr
        if ty == RES and a == '__parent__':
            return k(RESOPT, '(parent_of %s)' % t, c)
        if ty == RES and a == '__name__':
            return k(NAMEOPT, '(attr_name root %s)' % t, c)
        if ty == RURL and a == 'virtual_path':
            return k(TEXT, '(ru_vp %s)' % t, c)
        if ty == RURL and a == 'physical_path':
            return k(TEXT, '(ru_pp %s)' % t, c)
        if ty in (REQ, REQBLANK) and a == 'registry':
            return k(ERASED, '', c)
        raise Problem('attribute %s of %s' % (a, ty))

    def subscript(self, e, ctx, k):
        s = e.slice
        if isinstance(s, ast.Constant) and isinstance(s.value, str):
            proj = {'view_name': ('t_view_name', TEXT), 'context': ('t_context', RES)}.get(s.value)
            return self.ev(e.value, ctx, lambda ty, t, c: k(proj[1], '(%s %s)' % (proj[0], t), c)
                           if ty == TDICT and proj else self.bad('subscript %s' % u(e)))
        if isinstance(s, ast.Slice) and s.lower is None and s.step is None and s.upper is not None:
            return self.ev(e.value, ctx, lambda ty, t, c: self.ev(s.upper, c, lambda t2, z, c2: (
                k(TEXT, '(py_to_text %s %s)' % (z, t), c2) if (ty, t2) == (TEXT, INT) else self.bad('slice %s' % u(e)))))
        raise Problem('subscript %s' % u(e))

    def args_of(self, call, ctx, k, want_n=None):
        """evaluate positional arguments left to right (a trailing *name is the vararg)"""
        if call.keywords:
            raise Problem('keyword arguments: %s' % u(call))
        args = list(call.args)

        def go(i, c, acc):
            if i == len(args):
                return k(acc, c)
            a = args[i].value if isinstance(args[i], ast.Starred) else args[i]
            return self.ev(a, c, lambda ty, t, c2: go(i + 1, c2, acc + [(ty, t, isinstance(args[i], ast.Starred))]))
        return go(0, ctx, [])

    def call(self, e, ctx, k):
        f = e.func
        if isinstance(f, ast.Name) and f.id not in ctx.env:
            name = f.id
            if name in ('tuple', 'list') and len(e.args) == 1 and not e.keywords:
                return self.ev(e.args[0], ctx, lambda ty, t, c: k(SEGS if ty in (SEGS, SEGSOWN) else self.bad(u(e)), t, c))
            if name == 'len' and len(e.args) == 1:
                return self.ev(e.args[0], ctx, lambda ty, t, c: self.want(ty, TEXT, e) and k(INT, '(Z.of_nat (length %s))' % t, c))
            if name == 'get_current_registry' and not e.args:
                return k(ERASED, '', ctx)
            if name == 'text_' and len(e.args) == 2 and u(e.args[1]) == "'utf-8'":
                return self.ev(e.args[0], ctx, lambda ty, t, c: self.want(ty, TEXT, e) and k(TEXT, t, c))
            if name == 'ascii_' and len(e.args) == 1:
                return self.ev(e.args[0], ctx, lambda ty, t, c: self.want(ty, TEXT, e) and self.seq('(ascii_r %s)' % t, TEXT, 'path', c, k))
            if name == 'url_quote' and len(e.args) == 2:
                return self.args_of(e, ctx, lambda a, c: (self.seq('(url_quote_r %s %s)' % (a[0][1], a[1][1]), TEXT, 'q', c, k)
                                                          if [x[0] for x in a] == [TEXT, TEXT] else self.bad(u(e))))
            if name == 'ResourceTreeTraverser' and len(e.args) == 1:
                return self.ev(e.args[0], ctx, lambda ty, t, c: self.want(ty, RES, e) and k(TRAV, t, c))
            if name == 'ResourceURL' and len(e.args) == 2:
                return self.args_of(e, ctx, lambda a, c: (self.seq('(adapter_r root %s %s)' % (a[0][1], a[1][1]), RURL, 'ru', c, k)
                                                          if [x[0] for x in a] == [RES, REQ] else self.bad(u(e))))
            if name in ('traverse', 'find_resource'):
                self.fundef('pyramid/traversal.py', name)
                gen = {'traverse': 'gen_traverse', 'find_resource': 'gen_find_resource'}[name]
                rty = TDICT if name == 'traverse' else 'found'

                def go(a, c):
                    if len(a) != 2 or a[0][0] != RES or a[1][0] not in (TEXT, SEGS, SEGSOWN):
                        raise Problem(u(e))
                    return self.seq('(%s_%s root %s %s)' % (gen, 'str' if a[1][0] == TEXT else 'tuple', a[0][1], a[1][1]),
                                    rty, 'd', c, k)
                return self.args_of(e, ctx, go)
            if name in CALLS:
                gen, rty, fallible = CALLS[name]
                rel = 'pyramid/location.py' if name in ('lineage', 'inside') else 'pyramid/traversal.py'
                d = self.fundef(rel, name)

                def go(a, c):
                    terms = [t for _, t, _ in a]
                    # a default argument that is not passed
                    npos = len(d.args.args)
                    if d.args.vararg is None and len(a) < npos:
                        for i in range(len(a), npos):
                            dflt = d.args.defaults[i - (npos - len(d.args.defaults))] if i >= npos - len(d.args.defaults) else None
                            cst = self.module_const(rel, dflt.id) if isinstance(dflt, ast.Name) else None
                            if cst is None:
                                raise Problem('missing argument %d of %s' % (i, name))
                            terms.append(lit(cst))
                    if d.args.vararg is not None and (len(a) != npos + 1 or not a[-1][2]) and len(a) != npos:
                        raise Problem('call shape %s' % u(e))
                    if d.args.vararg is not None and len(a) == npos:
                        terms.append('[]')
                    term = '(%s root %s)' % (gen, ' '.join(terms))
                    return self.seq(term, rty, name, c, k) if fallible else k(rty, term, c)
                return self.args_of(e, ctx, go)
        if isinstance(f, ast.Attribute):
            m = f.attr
            if isinstance(f.value, ast.Constant) and isinstance(f.value.value, str) and m == 'join' and len(e.args) == 1:
                return self.ev(e.args[0], ctx, lambda ty, t, c: self.want(ty, SEGS, e) and
                               k(TEXT, '(join %s %s)' % (lit(f.value.value), t), c))

            def on(ty, t, c):
                if ty == TEXT and m == 'endswith' and len(e.args) == 1:
                    return self.ev(e.args[0], c, lambda t2, b, c2: self.want(t2, TEXT, e) and k(BOOL, '(endswith %s %s)' % (b, t), c2))
                if ty == ERASED and m in ('queryUtility', 'queryAdapter', 'queryMultiAdapter'):
                    want = {'queryUtility': 'IRequestFactory', 'queryAdapter': 'ITraverser', 'queryMultiAdapter': 'IResourceURL'}[m]
                    if not e.args or u(e.args[-1]) != want or e.keywords:
                        raise Problem('registry lookup %s' % u(e))
                    return k(NONE, 'None', c)
                if ty == FACTORY and m == 'blank' and len(e.args) == 1:
                    return self.ev(e.args[0], c, lambda t2, p, c2: self.want(t2, TEXT, e) and
                                   self.seq('(blank_request %s)' % p, REQBLANK, 'request', c2, k))
                raise Problem('method %s of %s' % (m, ty))
            return self.ev(f.value, ctx, on)
        if isinstance(f, ast.Name) and f.id in ctx.env and ctx.env[f.id][0] == TRAV and len(e.args) == 1:
            res_t = ctx.env[f.id][1]
            return self.ev(e.args[0], ctx, lambda ty, q, c: self.want(ty, REQBLANK, e) and
                           self.seq('(run_traverser root %s %s)' % (res_t, q), TDICT, 'd', c, k))
        raise Problem('call outside the table: %s' % u(e))

    def seq(self, term, ty, base, ctx, k):
        """a fallible leaf: sequenced where it stands"""
        if ctx.fn[2][0] not in ('out', 'found'):
            raise Problem('%s may raise inside %s, whose result type has no errors' % (term, ctx.fn[0]))
        v = self.new(base)
        body = k(ty, v, ctx)
        if body == '(Val %s)' % v:          # return f(..): the call's own result
            return term
        return '(xbind %s (fun %s => %s))' % (term, v, body)


HEADER = '''(* GENERATED by harness/c07/translate.py from src/pyramid/location.py and src/pyramid/traversal.py on every run
   -- do not edit. *)
From Coq Require Import List NArith ZArith Bool.
Import ListNotations.
Require Import Verif.Lib.Wire Verif.Lib.Text Verif.Lib.PathNorm Verif.Gen.Facts_C02 Verif.Gen.Facts_C07
               Verif.Model.C02 Verif.Model.C07.
'''


def translate(src):
    """-> (coq text, problems).  Functions that cannot be translated fall back to the stored text."""
    problems, out = [], {}
    for rel, pyname, gen, params, vararg, ret in FUNCS:
        tr = Translator(src)
        try:
            out[gen] = tr.function(rel, pyname, gen, params, vararg, ret)
        except Problem as e:
            problems.append('translator: %s (%s): %s' % (gen, pyname, e))
        except Exception as e:
            problems.append('translator: %s (%s): internal error %r' % (gen, pyname, e))
    fb = {}
    if os.path.exists(FALLBACK):
        with open(FALLBACK) as f:
            fb = json.load(f)
    text = ''
    for _, _, gen, _, _, _ in FUNCS:
        if gen not in out:
            if gen not in fb:
                text += '(* NO TRANSLATION AND NO FALLBACK for %s *)\n' % gen
                continue
            text += '(* FALLBACK (the source could not be translated) *)\n' + fb[gen] + '\n'
        else:
            text += out[gen] + '\n'
    return HEADER + text, problems, out


if __name__ == '__main__':
    import sys
    src = sys.argv[1] if len(sys.argv) > 1 else '/repo/src'
    text, problems, out = translate(src)
    if '--write-fallback' in sys.argv:
        if problems:
            sys.exit('problems: %r' % problems)
        with open(FALLBACK, 'w') as f:
            json.dump(out, f, indent=1, sort_keys=True)
    print(text)
    for p in problems:
        print('PROBLEM', p, file=sys.stderr)
