"""C07 -- resource paths and URLs resolve back to the resource they were generated for.

One case = a location-aware tree, a resource r, a second resource a (start of the relative lookups and the
resource handed to the absolute ones), a relative path (tuple + string form), elements, an optional
HTTP_X_VHM_ROOT header and a SCRIPT_NAME, optionally two lists of elements of ANY type (tels, tels2).  Twenty-three
observations per case (13-15: request.resource_url of three more resources, each through a new object, on the SAME request
as 9-11; 16-22: resource_path_tuple / resource_path / request.resource_url / request.resource_path with *tels, then
resource_path / pyramid.url.resource_url / request.resource_path with *tels2 in the same process):

  0 resource_path_tuple(r, *els)        1 resource_path(r, *els)
  2 find_resource(a, resource_path_tuple(r))          3 find_resource(a, resource_path(r))
  4 find_resource(a, rel)                             5 find_resource(r, resource_path_tuple(a) + rel)
  6 find_resource(a, rel_str)                         7 find_resource(r, resource_path(a) + '/' + rel_str)
  8 ResourceURL(r, request): virtual_path, physical_path and the two tuples
  9 request.resource_url(r, *els)      10 request.resource_path(r, *els)
 11 virtual_root(r, request)
 12 the path of resource_url(r) requested from the application (Router) with the same header: context and view
    name seen by a ContextFound subscriber, context seen by the view registered with the empty name
"""
import os
import re

from harness.c07 import c07facts

ID = 'C07'
HERE = os.path.dirname(os.path.abspath(__file__))
CASES = {'quick': 4000, 'thorough': 120000}
PARALLEL = True
PROOF_TIMEOUT = 1500
# Model/C07.v imports Model/C02.v and Proofs/C07_c17.v refers to Model/C17.v: c07facts.facts regenerates their facts itself
# (instead of DEPENDS) so that their pins of functions C07 translates can be dropped -- see c07facts.py
DEPENDS = []
ALLOWED_AXIOMS = ()
RULE = ('random trees (depth<=4, fan-out<=4; names: ASCII, reserved URL characters, spaces, percent signs, colons, '
        'multi-byte text, names that extend a sibling\'s name; a small inadmissible stream: \'\', \'.\', \'..\', \'a/b\', '
        '\'@@v\', lone surrogate, duplicate keys) x every kind of resource (root, inner, leaf) x relative paths from a '
        'second resource (existing, missing, scheme-like first segment; tuple and string form, the string sometimes '
        'perturbed) x elements x virtual roots (none, \'/\', each ancestor, the resource itself, a string prefix of an '
        'ancestor name, a sibling that extends an ancestor name, names that need quoting / non-ASCII, trailing slash, '
        'percent-quoted header text, missing path, malformed UTF-8) x SCRIPT_NAME x resource flavours at every position '
        '(falsy containers: empty dict subclass / __len__ 0 / __bool__ False; location proxies forwarding __getitem__ through '
        '__getattr__; instance-level __getitem__) x three more resources whose URLs are asked of the SAME request through '
        'objects created on demand x names on which Unicode-aware str predicates / case mappings differ from ASCII (non-ASCII '
        'digits, numerics, spaces, sharp s, dotted I, titlecase digraphs) x elements of any type (bytes: ASCII, UTF-8, malformed; '
        'int, bool, float, Decimal, Fraction, None, str subclass) in two lists asked one after the other in one process, the '
        'second often equal to the first AS A CACHE KEY but printing differently (1 / True / 1.0 / Decimal(\'1.00\')) or a near '
        'miss (same text as the other type, other letter case) x ambient state (40 %: every call made while a request is '
        'current whose root / context is the same tree, a look-alike tree of other objects with the same names, or an unrelated '
        'tree); every case run over warm and cold caches. non-trivial = r is not the root, is '
        'found back from its own path, and the case has a virtual-root header or a non-empty relative path; distinct by '
        'full case')
ASSUMPTIONS = [
    'a location-aware tree is modelled as in C02: __getitem__ is a pure first-match lookup raising KeyError, a leaf has '
    'no __getitem__, the __name__ of a child is its key, the root has __name__ None',
    'the theorems speak about resources whose lineage names are admissible (non-empty, no \'/\', not \'.\'/\'..\', not '
    'starting with \'@@\') Unicode scalar values (no lone surrogates) and that are reached by item lookup along their '
    'own names (location consistency)',
    'names and headers are str; elements are str, bytes (read as UTF-8) or any other object, of which the code reads str(x) '
    '(the harness supplies that text and the equality class of the object as a dictionary key); '
    'query/anchor/route_name/__resource_url__ of resource_url belong to C17',
    'request.host_url (webob; scheme://host[:port], C17\'s subject) and the ValueError step of urllib.parse.urlsplit for '
    'bracketed hosts are taken from the implementation as oracle inputs of the model; webob\'s application_url and its '
    'PATH_SAFE constant are modelled',
    'the request handed to virtual_root() has no `root` attribute (find_root is the fallback)',
    'the API is a function of its arguments: the model has no notion of a current (thread-local) request; the harness makes '
    'the calls with and without one, whose root is the same tree or another one, and demands the same answers',
    'a WSGI server hands PATH_INFO over as the percent-decoded path in latin-1 (urllib.parse.unquote_to_bytes)',
]
TRUSTED = [
    'the translator harness/c07/translate.py (control-flow rules mechanical; PRIMITIVE TABLE of ~35 leaves onto the primitives of '
    'coq/Model/C07.v: __parent__/__name__, str/tuple operations, registry lookups answering None, Request.blank, '
    'ResourceTreeTraverser(..)(..), ResourceURL(..), ascii_, url_quote, the memo idiom) -- each table line is a claim about '
    'Python / Pyramid semantics, validated by the correspondence run',
    'hand-written reference model coq/Model/C07.v: the regenerated functions are PROVED equal to it (Proofs/C07_gen.v); still '
    'hand-modelled and pinned: ResourceURL.__init__ (skeleton pin + fact url_vroot_mode, both texts), Request.resource_url / '
    'parse_url_overrides (pins; translated by C17), webob Request.blank / urllib.parse.urlsplit for scheme-like paths',
    'elements of any type (Model/C07.v seg, quote_seg, join_path_segs, join_elements_e): hand-modelled reading of '
    '`x.__class__ not in (str, bytes)` / str(x) / text_(x, \'utf-8\') in quote_path_segment and url._join_elements (exact-text '
    'fact for _join_elements; the translated str-only gen_* are proved equal to it on str elements); Python str() of an '
    'element and == / hash of two elements are supplied by the harness; fact c07_join_raw_key (is _join_path_tuple itself '
    'lru_cached) selects the memo semantics of the second typed resource_path call',
    'coq/Model/C02.v (trees, ResourceTreeTraverser.__call__, webob unquote; split_path_info / decode_path_info regenerated by '
    "C02's translator) and its regenerated facts; Lib/PathNorm, Lib/Utf8, Lib/Percent",
    'webob Request.blank/environ_from_url/application_url and urllib.parse.urlsplit: modelled or taken as oracle, '
    'validated by the correspondence run, not verified',
]
TECHNIQUE = ('Coq proofs about a reference Gallina model + a fail-closed Python-ast -> Gallina TRANSLATOR that regenerates the '
             'control flow of 11 source functions (13 definitions) on every run, with machine-checked theorems '
             '`generated_f = model_f` (induction on loop fuel / lineage) and the property theorems restated about the generated '
             'functions; regenerated constants; extracted-model differential correspondence; the property is judged on the '
             'implementation with the extracted declarative spec')
LEVEL_TEXT = ('Machine-checked theorems, for trees, names, elements and virtual roots of any size (admissible names of '
              'Unicode scalar values, location-consistent resource): find_resource inverts resource_path_tuple and '
              'resource_path from any starting resource (the percent/UTF-8 round trip through webob\'s unquote, the WSGI '
              'latin-1/UTF-8 decoding and split_path_info is proved, not tested); relative and absolute lookups, tuple '
              'and string, agree and equal item lookup (missing name = KeyError) outside the class "first relative segment '
              'reads <letters>:", which is characterised on the raw segment and refuted by witnesses (known finding); '
              'resource_url / resource_path = application URL + slashed quoted names + quoted elements; the virtual-root '
              'prefix is omitted iff the resource lies inside the virtual root, the URL path traverses back to the resource '
              'with an empty view name under the same header, and virtual_root() returns the virtual root. For the '
              'unrepaired text of ResourceURL both refutations of the design are theorems. Elements of any type: the typed '
              'functions equal the str ones on the texts the elements stand for (bytes as UTF-8, objects printed), '
              'resource_path(r, *els) = "/" + quoted names and element texts, malformed bytes = UnicodeDecodeError after the '
              'earlier segments; the memo of _join_path_tuple is transparent unless it is keyed on the raw tuple AND the second '
              'tuple holds a non-str non-bytes object printing differently -- refuted by the witness 1 / True (repaired finding); '
              'for the code as it is (no memo: regenerated fact) the second call is history-free unconditionally, and '
              'resource_path(r, *elements) is the path of the descendant the elements name, to which find_resource leads back; '
              'inside a virtual root resource_url(r, *elements) + "/" is resource_url of that descendant, which traverses back to it.')
LEVEL_NOTE = ('Trusted: Coq kernel; the translator\'s primitive table and the reference model\'s primitives (validated by '
              'correspondence); ResourceURL.__init__ and the url.py glue hand-modelled and pinned; webob / urllib modelled or '
              'oracle; Python harness.  A semantics-preserving rewrite of a translated function raises no alarm; a semantic '
              'change makes its generated_*_is_model theorem fail to compile and the run produces the replay.')

facts = c07facts.facts

FINDING_COLON = 'C07-relative-colon-parsed-as-url'
FINDING_RAWKEY = 'C07-join-path-tuple-cache-raw-key'
SAFE = "~!$&'()*+,;=:@"
EXC = {'URLDecodeError': 1, 'UnicodeDecodeError': 2, 'UnicodeEncodeError': 3, 'TypeError': 4, 'ValueError': 5}

# ------------------------------------------------------------------ generation
NAMES = ['a', 'b', 'c', 'one', 'two', 'onetwo', 'on', 'ab', 'A', 'x', 'a b', 'é', 'Québec', '日本', '%41',
         'a%2Fb', '%', '+', 'a:b', 'http:', 'x?y', 'a#b', '~u', '\U0001f600', '@x', 'a@@', ' 1', 'q=1&r', "it's", 'x;y',
         'a\tb', 'ü', '[v]', 'a..b', '...', '.a']
# names that are NOT in Unicode normal form C, and the composed spelling of each: decomposed accents,
# singleton decompositions (ANGSTROM SIGN, OHM SIGN, KELVIN SIGN), conjoining Hangul jamo, a compatibility
# ligature (unchanged by NFC, changed by NFKC), combining marks out of canonical order
NON_NFC = ['cafe\u0301', '\u212b', '\u2126', '\u212a', '\u1112\u1161\u11ab', 'A\u030a', 'u\u0308x', 'q\u0323\u0307',
           'q\u0307\u0323', '\ufb01', 'e\u0301', 'n\u0303o']
NFC_TWIN = {'cafe\u0301': 'caf\xe9', '\u212b': '\xc5', '\u2126': '\u03a9', '\u212a': 'K',
            '\u1112\u1161\u11ab': '\ud55c', 'A\u030a': '\xc5', 'u\u0308x': '\xfcx', 'q\u0323\u0307': 'q\u0307\u0323',
            'q\u0307\u0323': 'q\u0323\u0307', '\ufb01': 'fi', 'e\u0301': '\xe9', 'n\u0303o': '\xf1o'}
NAMES += NON_NFC + ['caf\xe9', '\xc5', '\ud55c']
# names on which Python's Unicode-aware str predicates and case mappings differ from their ASCII reading:
# isdigit / isdecimal / isnumeric (Arabic-Indic, full-width, superscript, vulgar fraction, Roman numeral, CJK numeral),
# isspace (NBSP, EM SPACE, IDEOGRAPHIC SPACE, LINE SEPARATOR), isalpha / isidentifier, lower / upper / casefold that change
# the length or are not round-trippable (sharp s, dotted capital I, titlecase digraph, final sigma), ASCII digits
UNICODE_CLASS = ['\u0664\u0662', '\uff12\uff10\uff12\uff14', '\xb2', '\xbd', '\u2163', '\u4e09', '7', '007', '4\u0662x',
                 '\xa0', 'a\u2003b', '\u3000', '\u2028', '\xdf', '\u0130', '\u01c5', '\u03c2', 'STRASSE', 'I', 'i\u0307',
                 '\u00aa', '\u2460', '_', '-1', '1.0', 'True', 'None']
NAMES += UNICODE_CLASS
BAD_NAMES = ['', '.', '..', 'a/b', '@@v', '@@', '\ud800', '/']
FALSY_KINDS = ['dict', 'len', 'bool']
# further flavours of a resource, marked in the same field: 'proxy' = a location proxy that adds __name__/__parent__ and
# forwards everything else (also __getitem__) through __getattr__; 'inst' = __getitem__ supplied as an INSTANCE attribute
PROXY_KINDS = ['proxy', 'inst']
MARK_KINDS = FALSY_KINDS + PROXY_KINDS
SCHEMEY = ['http:', 'https:', 'a:b', 'ftp:', 'HTTP:', 'x:', 'http:x', 'mailto:a@b', 'a:', 'http:?q', 'http:#f', 'urn:a:b']


def wsgi(s):
    return s.encode('utf-8', 'surrogatepass').decode('latin-1')


# ---- elements of any type (fields `tels`, `tels2` of a case).  JSON forms: a str stands for itself; ['b', latin-1 text of
# the bytes]; ['i', int]; ['t', bool]; ['f', repr of a float]; ['d', text of a Decimal]; ['q', numerator, denominator];
# ['n'] None; ['s', text] an instance of a str subclass
class StrSub(str):
    pass


def elem_value(e):
    if isinstance(e, str):
        return e
    k = e[0]
    if k == 'b':
        return e[1].encode('latin-1')
    if k == 'i':
        return int(e[1])
    if k == 't':
        return bool(e[1])
    if k == 'f':
        return float(e[1])
    if k == 'd':
        from decimal import Decimal
        return Decimal(e[1])
    if k == 'q':
        from fractions import Fraction
        return Fraction(int(e[1]), int(e[2]))
    if k == 'n':
        return None
    if k == 's':
        return StrSub(e[1])
    raise ValueError(e)


def valid_elem(e):
    if isinstance(e, str):
        return True
    try:
        if not (isinstance(e, list) and e and e[0] in ('b', 'i', 't', 'f', 'd', 'q', 'n', 's')):
            return False
        if e[0] == 'b' and not (len(e) == 2 and isinstance(e[1], str) and all(ord(c) < 256 for c in e[1])):
            return False
        if e[0] == 'i' and not (len(e) == 2 and isinstance(e[1], int) and not isinstance(e[1], bool)):
            return False
        if e[0] == 't' and not (len(e) == 2 and isinstance(e[1], bool)):
            return False
        if e[0] in ('f', 'd', 's') and not (len(e) == 2 and isinstance(e[1], str)):
            return False
        if e[0] == 'q' and not (len(e) == 3 and e[2] != 0):
            return False
        if e[0] == 'n' and len(e) != 1:
            return False
        v = elem_value(e)
        return v == v           # no NaN: it is not equal to itself, so it has no key class
    except Exception:
        return False


def elem_plain(v):
    return v.__class__ is str or v.__class__ is bytes


def elem_keys(values):
    """key class (== and hash, what a dict / lru_cache goes by) of every non-str, non-bytes value among `values`"""
    reps, out = [], []
    for v in values:
        if elem_plain(v):
            out.append(None)
            continue
        for i, x in enumerate(reps):
            if hash(x) == hash(v) and x == v:
                out.append(i)
                break
        else:
            reps.append(v)
            out.append(len(reps) - 1)
    return out


def elems_wire(case):
    """-> (wire of tels, wire of tels2, python values of tels, of tels2, {id(value): key})"""
    v1 = [elem_value(e) for e in case.get('tels', [])]
    v2 = [elem_value(e) for e in case.get('tels2', [])]
    keys = elem_keys(v1 + v2)
    kmap = {}

    def one(v, k):
        if v.__class__ is str:
            return [0, v]
        if v.__class__ is bytes:
            return [1, v]
        kmap[id(v)] = k
        return [2, str(v), k]
    w = [one(v, k) for v, k in zip(v1 + v2, keys)]
    return w[:len(v1)], w[len(v1):], v1, v2, kmap


TWINS = [[['i', 1], ['t', True], ['f', '1.0'], ['d', '1.0'], ['d', '1.00'], ['q', 1, 1], ['d', '1']],
         [['i', 0], ['t', False], ['f', '0.0'], ['f', '-0.0'], ['d', '0'], ['d', '-0.0']],
         [['i', 2], ['f', '2.0'], ['d', '2.0'], ['q', 4, 2]],
         [['i', 42], ['f', '42.0'], ['d', '42.00']],
         [['i', -1], ['f', '-1.0'], ['d', '-1']],
         [['f', '0.5'], ['q', 1, 2], ['d', '0.5'], ['d', '0.50']]]
OTHER_ELEMS = [['i', 7], ['i', 10 ** 20], ['f', '1.5'], ['f', '1e+22'], ['n'], ['s', 'a b'], ['s', 'x'], ['s', '\xe9'],
               ['s', ''], ['s', '1'], ['f', 'inf'], ['i', 1], ['t', True], ['t', False], ['i', 0]]
BYTES_ELEMS = [['b', 'a'], ['b', 'a b'], ['b', wsgi('caf\xe9')], ['b', wsgi('\u65e5\u672c')], ['b', wsgi('\U0001f600')], ['b', ''],
               ['b', 'a/b'], ['b', '%41'], ['b', '\xe9'], ['b', '\xff'], ['b', 'a\xc3'], ['b', '\xed\xa0\x80'], ['b', '\xc0\xaf'],
               ['b', wsgi('\u0664\u0662')], ['b', '1']]


def gen_elem(rng):
    x = rng.random()
    if x < 0.30:
        return rng.choice(NAMES + ['a/b', '', 'x y', '@@v', '..', '1', 'True', '1.0'])
    if x < 0.55:
        return list(rng.choice(BYTES_ELEMS))
    if x < 0.85:
        return list(rng.choice(rng.choice(TWINS)))
    return list(rng.choice(OTHER_ELEMS))


def twin_of(rng, e):
    """an element that is EQUAL to e as a dictionary key but (usually) prints differently; for str / bytes a NEAR
    miss that must not share an answer (the other type with the same text, another letter case, the printed form of an object)"""
    for cls in TWINS:
        if e in cls:
            return list(rng.choice([t for t in cls if t != e] or cls))
    if isinstance(e, list) and e[0] == 's':
        return rng.choice([['s', e[1]], e[1]])
    x = rng.random()
    if isinstance(e, str):
        if x < 0.3:
            try:
                return ['b', wsgi(e)]
            except Exception:
                return e
        if x < 0.5:
            return e.swapcase()
        if x < 0.6 and e in ('1', 'True', '1.0', 'None'):
            return {'1': ['i', 1], 'True': ['t', True], '1.0': ['f', '1.0'], 'None': ['n']}[e]
        return e
    if isinstance(e, list) and e[0] == 'b' and x < 0.4:
        try:
            return e[1].encode('latin-1').decode('utf-8')
        except Exception:
            return e
    return e


def gen_typed_elements(rng, case):
    x = rng.random()
    if x >= 0.40:
        return
    n = rng.choice([1, 1, 1, 2, 2, 3])
    tels = [gen_elem(rng) for _ in range(n)]
    if x < 0.04:
        tels = [list(rng.choice(rng.choice(TWINS))) for _ in range(n)]
    case['tels'] = tels
    y = rng.random()
    if y < 0.45:
        case['tels2'] = [twin_of(rng, e) for e in tels]
    elif y < 0.60:
        case['tels2'] = [e if isinstance(e, str) else list(e) for e in tels]
    elif y < 0.85:
        case['tels2'] = [gen_elem(rng) for _ in range(rng.choice([1, 1, 2]))]


def quote(s):
    from urllib.parse import quote as uq
    try:
        return uq(s.encode('utf-8'), safe=SAFE)
    except UnicodeEncodeError:
        return 'bad'


def gen_tree(rng, depth, bad):
    if depth <= 0 or rng.random() < 0.15:
        return None
    if rng.random() < 0.05:
        return []
    n = rng.choice([1, 2, 2, 3, 3, 4])
    names = []
    for _ in range(n):
        if rng.random() < bad:
            nm = rng.choice(BAD_NAMES)
        else:
            nm = rng.choice(NAMES)
        if nm in names and rng.random() > bad:
            continue
        names.append(nm)
    # a sibling whose name extends another's
    if names and rng.random() < 0.3:
        base = rng.choice(names)
        ext = base + rng.choice(['two', 'x', ' b', '%', 'é', '1'])
        if ext not in names:
            names.insert(rng.randrange(len(names) + 1), ext)
    # both spellings of a name as siblings (canonically equivalent, different code points)
    if names and rng.random() < 0.25:
        cands = [n for n in names if n in NFC_TWIN and NFC_TWIN[n] not in names]
        if cands:
            base = rng.choice(cands)
            names.insert(rng.randrange(len(names) + 1), NFC_TWIN[base])
        elif rng.random() < 0.5:
            base = rng.choice(NON_NFC)
            for nm in (base, NFC_TWIN[base]):
                if nm not in names:
                    names.insert(rng.randrange(len(names) + 1), nm)
    return [[nm, gen_tree(rng, depth - 1, bad)] for nm in names]


def node_at(tree, pos):
    t = tree
    for i in pos:
        t = t[i][1]
    return t


def names_at(tree, pos):
    t, out = tree, []
    for i in pos:
        out.append(t[i][0])
        t = t[i][1]
    return out


def all_positions(tree, pos=()):
    yield list(pos)
    if tree:
        for i, (_, c) in enumerate(tree):
            yield from all_positions(c, pos + (i,))


def gen_rel(rng, tree, a):
    t = node_at(tree, a)
    segs = []
    n = rng.choice([0, 1, 1, 2, 2, 3])
    for k in range(n):
        r = rng.random()
        if r < 0.72 and t:
            nm, c = rng.choice(t)
            segs.append(nm)
            t = c
        elif r < 0.90:
            segs.append(rng.choice(NAMES))
            t = None
        elif r < 0.93:
            segs.append(rng.choice(SCHEMEY))
            t = None
        else:
            segs.append(rng.choice(BAD_NAMES))
            t = None
    if segs and rng.random() < 0.03:
        segs[0] = rng.choice(SCHEMEY)
    return segs


def gen_vroot(rng, tree, r):
    names = names_at(tree, r)
    x = rng.random()
    if x < 0.30:
        return None, 'none'
    if x < 0.34:
        return rng.choice(['/', '', '//']), 'slash'
    if x < 0.62 and names:
        k = rng.randrange(1, len(names) + 1)
        v = '/' + '/'.join(names[:k])
        kind = 'self' if k == len(names) else 'ancestor'
        y = rng.random()
        if y < 0.2:
            v += '/'
        elif y < 0.25:
            v = v[1:]
        elif y < 0.30:
            v = '//' + v[1:].replace('/', '//')
        return wsgi(v), kind
    if x < 0.74 and names:
        # a string prefix / extension of an ancestor's name (sibling sharing a prefix)
        k = rng.randrange(1, len(names) + 1)
        nm = names[k - 1]
        y = rng.random()
        if y < 0.4 and len(nm) > 1:
            nm2 = nm[:rng.randrange(1, len(nm))]
        elif y < 0.8:
            sibs = [s for s, _ in node_at(tree, r[:k - 1]) if s != nm and (s.startswith(nm) or nm.startswith(s))]
            nm2 = rng.choice(sibs) if sibs else nm + 'two'
        else:
            nm2 = nm + rng.choice(['x', '%'])
        v = '/' + '/'.join(names[:k - 1] + [nm2])
        return wsgi(v), 'name-prefix-or-extension'
    if x < 0.82 and names:
        # the header given percent-quoted (what the unrepaired ResourceURL compares with)
        k = rng.randrange(1, len(names) + 1)
        return '/' + '/'.join(quote(n) for n in names[:k]), 'quoted-text'
    if x < 0.93:
        segs = []
        t = tree
        for _ in range(rng.choice([1, 1, 2, 3])):
            if t and rng.random() < 0.8:
                nm, c = rng.choice(t)
                segs.append(nm)
                t = c
            else:
                segs.append(rng.choice(NAMES + ['..', '.', '@@v']))
                t = None
        v = '/' + '/'.join(segs)
        if rng.random() < 0.2:
            v += '/'
        return wsgi(v), 'other-path'
    if x < 0.97:
        return '/' + rng.choice(['\xff', 'a\xc3', '\xe6\x97', 'a/\x80']), 'malformed'
    return '/' + rng.choice(['€', 'a/Ł']), 'not-latin1'


def gen_case(rng):
    bad = 0.25 if rng.random() < 0.12 else 0.0
    tree = None
    while not tree:
        tree = gen_tree(rng, rng.choice([1, 2, 3, 3, 4, 4]), bad)
    poss = list(all_positions(tree))
    deep = [p for p in poss if len(p) >= 2]
    r = rng.choice(deep) if deep and rng.random() < 0.6 else rng.choice(poss)
    a = rng.choice(poss) if rng.random() < 0.6 else []
    rel = gen_rel(rng, tree, a)
    rel_str = '/'.join(quote(s) for s in rel)
    x = rng.random()
    if x < 0.04:
        rel_str = '/'.join(rel)
    elif x < 0.07 and rel_str:
        rel_str += rng.choice(['/', '?x=/a', '#f', '//', '/.', '/..'])
    elif x < 0.09:
        rel_str = rng.choice(SCHEMEY) + rng.choice(['', '/', '//h/p', '//h:1/' + rel_str, '//[::1]/x', '/' + rel_str, '?q#f',
                                                    '//[::1]:8/' + rel_str, '//[v1.a]/' + rel_str, '//[x]/y', '//[1.2.3.4]/y',
                                                    '//[::1/y', '//a]/y', '//[fe80::1%25eth0]/' + rel_str, '//u@[::1]/y',
                                                    '//[vz.a]/y', '//[]/y', '/[x'])
    els = [rng.choice(NAMES + ['a/b', '', 'x y', '@@v', '..']) for _ in range(rng.choice([0, 0, 0, 1, 1, 2]))]
    vroot, vk = gen_vroot(rng, tree, r)
    x = rng.random()
    script = '' if x < 0.7 else rng.choice(['/app', '/a b', wsgi('/é'), '/x/y', 'app', '/a%20b']) if x < 0.97 \
        else rng.choice(['/x\xff', '/€'])
    case = {'tree': tree, 'r': r, 'a': a, 'rel': rel, 'rel_str': rel_str, 'els': els, 'vroot': vroot, 'script': script}
    # falsy resources (the `class Folder(dict)` idiom, __len__ 0, __bool__ False) at any position, root included:
    # truthiness must not matter for any observation
    x = rng.random()
    if x < 0.40:
        pf = 1.0 if x < 0.06 else rng.choice([0.2, 0.4, 0.7])
        fal = [[p, rng.choice(FALSY_KINDS)] for p in poss if rng.random() < pf]
        for must in (r, a):
            if rng.random() < 0.5 and not any(f[0] == must for f in fal):
                fal.append([list(must), rng.choice(FALSY_KINDS)])
        # a share of the falsy leaves become empty folders (the real `class Folder(dict)` situation)
        for f in fal:
            if f[0] and node_at(tree, f[0]) is None and rng.random() < 0.5:
                par = node_at(tree, f[0][:-1])
                par[f[0][-1]][1] = []
        case['falsy'] = fal
    # location proxies / instance-level __getitem__: how a resource supplies its attributes must not matter
    x = rng.random()
    if x < 0.30:
        pp = 1.0 if x < 0.08 else rng.choice([0.3, 0.6])
        marked = {tuple(f[0]) for f in case.get('falsy', [])}
        extra = [[p, rng.choice(PROXY_KINDS)] for p in poss if tuple(p) not in marked and rng.random() < pp]
        if extra:
            case['falsy'] = case.get('falsy', []) + extra
    gen_typed_elements(rng, case)
    # ambient state: the calls are made while a request is being processed (the router's thread-local request) whose root /
    # context are the case's own tree ('same'), a look-alike tree of OTHER objects with the same names ('twin') or an
    # unrelated tree ('small'): nothing the API answers may come from the request that happens to be current
    x = rng.random()
    if x < 0.40:
        case['ambient'] = 'twin' if x < 0.22 else 'small' if x < 0.32 else 'same'
    return case


VOCAB = ['a', 'ab', 'a b', 'é', 'b:', 'e\u0301']


def _forests(n, names):
    """all forests with exactly n nodes whose sibling names are distinct and drawn, in order, from names;
    a node is a leaf (None) or a folder"""
    if n == 0:
        yield []
        return
    for i, nm in enumerate(names):
        for k in range(1, n + 1):                 # size of the first tree
            for sub in ([None] if k == 1 else []) + [f for f in _forests(k - 1, VOCAB)]:
                for rest in _forests(n - k, names[i + 1:]):
                    yield [[nm, sub]] + rest


def systematic(limit=60000):
    """small-scope sweep (thorough tier): every tree with at most 4 non-root nodes over a 5-name vocabulary
    (a name that extends another, one that needs quoting, a non-ASCII one, one with a colon), every resource,
    virtual root in {none, every ancestor-or-self, every vocabulary name at every depth of the lineage}"""
    count = 0
    for n in range(1, 5):
        for tree in _forests(n, VOCAB):
            for r in all_positions(tree):
                names = names_at(tree, r)
                vroots = [None] + [wsgi('/' + '/'.join(names[:k])) for k in range(1, len(names) + 1)]
                for k in range(len(names)):
                    for v in VOCAB:
                        if v != names[k]:
                            vroots.append(wsgi('/' + '/'.join(names[:k] + [v])))
                if not names:
                    vroots += ['/', '/a']
                rel = names[-1:] if names else []
                a = r[:-1] if r else []
                for v in vroots:
                    yield {'tree': tree, 'r': r, 'a': a, 'rel': rel, 'rel_str': '/'.join(quote(x) for x in rel),
                           'els': [], 'vroot': v, 'script': ''}
                    count += 1
                    if count >= limit:
                        return


def generate(rng, tier, n):
    if tier == 'thorough':
        yield from systematic()
    for _ in range(n):
        yield gen_case(rng)


def _valid_tree(t):
    if t is None:
        return True
    if not isinstance(t, list):
        return False
    return all(isinstance(e, list) and len(e) == 2 and isinstance(e[0], str) and _valid_tree(e[1]) for e in t)


def _valid_pos(tree, p):
    t = tree
    if not isinstance(p, list):
        return False
    for i in p:
        if not isinstance(i, int) or isinstance(i, bool) or t is None or not (0 <= i < len(t)):
            return False
        t = t[i][1]
    return True


def valid(case):
    try:
        if case.get('ambient', 'same') not in AMBIENT_KINDS:
            return False
        if sorted(k for k in case if k not in ('falsy', 'tels', 'tels2', 'ambient')) != \
                ['a', 'els', 'r', 'rel', 'rel_str', 'script', 'tree', 'vroot']:
            return False
        for k in ('tels', 'tels2'):
            if k in case and not (isinstance(case[k], list) and all(valid_elem(e) for e in case[k])):
                return False
        t = case['tree']
        for f in case.get('falsy', []):
            if not (isinstance(f, list) and len(f) == 2 and f[1] in MARK_KINDS and isinstance(t, list)
                    and _valid_pos(t, f[0])):
                return False
        if not isinstance(t, list) or not _valid_tree(t) or not _valid_pos(t, case['r']) or not _valid_pos(t, case['a']):
            return False
        if not all(isinstance(s, str) for s in case['rel']) or not isinstance(case['rel'], list):
            return False
        if not all(isinstance(s, str) for s in case['els']) or not isinstance(case['els'], list):
            return False
        if not isinstance(case['rel_str'], str) or not isinstance(case['script'], str):
            return False
        return case['vroot'] is None or isinstance(case['vroot'], str)
    except Exception:
        return False


def _shrinks_core(case):
    from harness.common.main import generic_shrinks
    # cheap, meaning-preserving steps first
    if case['els']:
        yield dict(case, els=[])
    if case['script']:
        yield dict(case, script='')
    canon = '/'.join(quote(s) for s in case['rel'])
    if case['rel']:
        yield dict(case, rel=[], rel_str='')
        if case['rel_str'] == canon:
            for i in range(len(case['rel'])):
                rel = case['rel'][:i] + case['rel'][i + 1:]
                yield dict(case, rel=rel, rel_str='/'.join(quote(s) for s in rel))
    if case['a']:
        yield dict(case, a=[], rel=[], rel_str='')
    # hoist: make the first ancestor of r the root
    r, a, t0 = case['r'], case['a'], case['tree']
    if r and isinstance(t0[r[0]][1], list):
        keep_a = bool(a) and a[0] == r[0]
        v = case['vroot']
        if isinstance(v, str) and v.startswith('/') and v.count('/') >= 2:
            v = v[v.index('/', 1):]
        c2 = dict(case, tree=t0[r[0]][1], r=r[1:], a=a[1:] if keep_a else [], vroot=v)
        if not keep_a:
            c2.update(rel=[], rel_str='')
        yield c2
    # cut everything below r
    if node_at(t0, r) and not (len(a) > len(r) and a[:len(r)] == r):
        import copy
        t2 = copy.deepcopy(t0)
        par = t2
        for i in r[:-1]:
            par = par[i][1]
        if r:
            par[r[-1]][1] = None
            yield dict(case, tree=t2)
    # prune subtrees that neither r nor a go through
    t = case['tree']
    for pos in all_positions(t):
        if not pos:
            continue
        if case['r'][:len(pos)] == pos or case['a'][:len(pos)] == pos:
            continue
        yield _drop(case, pos)
    v = case['vroot']
    if isinstance(v, str) and v.startswith('/'):
        for cand in generic_shrinks(v):
            if cand.startswith('/'):
                yield dict(case, vroot=cand)
    for cand in generic_shrinks(case):
        v2 = cand.get('vroot') if isinstance(cand, dict) else None
        if isinstance(v, str) and v.startswith('/') and isinstance(v2, str) and not v2.startswith('/'):
            continue
        if isinstance(cand, dict) and cand.get('rel') != case['rel'] and case['rel_str'] == canon:
            cand = dict(cand, rel_str='/'.join(quote(s) for s in cand.get('rel') or []))
        yield cand


def _remap_falsy(case, cand):
    """carry the falsy marks over to a shrunk tree: follow the NAMES of each marked position"""
    fal = case.get('falsy')
    if not fal or not isinstance(cand, dict):
        return cand
    t0, t1 = case['tree'], cand.get('tree')
    if t1 == t0:
        return cand
    if not _valid_tree(t1) or not isinstance(t1, list):
        return dict(cand, falsy=[])
    # positions are matched by object identity of the path of names from the (possibly hoisted) root
    out = []
    hoist = len(case['r']) - len(cand.get('r', case['r'])) if cand.get('tree') is not None else 0
    for pos, kind in fal:
        names = names_at(t0, pos)
        cands = [names] + ([names[1:]] if names else [])
        for nm in cands:
            t, p, ok = t1, [], True
            for n in nm:
                idx = [i for i, (k, _) in enumerate(t or []) if k == n]
                if not idx:
                    ok = False
                    break
                p.append(idx[0])
                t = t[idx[0]][1]
            if ok and [p, kind] not in out:
                out.append([p, kind])
                break
    return dict(cand, falsy=out)


def shrinks(case):
    if 'ambient' in case:
        yield {k: v for k, v in case.items() if k != 'ambient'}
        if case['ambient'] != 'small':
            yield dict(case, ambient='small')
    for cand in _shrinks_typed(case):
        yield cand
    typed = {k: case[k] for k in ('tels', 'tels2', 'ambient') if k in case}
    for cand in _shrinks_rest({k: v for k, v in case.items() if k not in ('tels', 'tels2', 'ambient')}):
        if isinstance(cand, dict) and typed:
            cand = dict(cand, **typed)
        yield cand


def _shrinks_typed(case):
    if 'tels' not in case and 'tels2' not in case:
        return
    yield {k: v for k, v in case.items() if k not in ('tels', 'tels2')}
    if case.get('tels2'):
        yield {k: v for k, v in case.items() if k != 'tels2'}
    t1, t2 = case.get('tels', []), case.get('tels2', [])
    if len(t1) == len(t2):
        for i in range(len(t1)):
            yield dict(case, tels=t1[:i] + t1[i + 1:], tels2=t2[:i] + t2[i + 1:])
    for key, t in (('tels', t1), ('tels2', t2)):
        for i in range(len(t)):
            yield dict(case, **{key: t[:i] + t[i + 1:]})
        for i, e in enumerate(t):
            if not isinstance(e, str):
                for simple in ('a', ['i', 1], ['b', 'a']):
                    if e != simple:
                        yield dict(case, **{key: t[:i] + [simple] + t[i + 1:]})


def _shrinks_rest(case):
    fal = case.get('falsy')
    if fal:
        yield {k: v for k, v in case.items() if k != 'falsy'}
        for i in range(len(fal)):
            yield dict(case, falsy=fal[:i] + fal[i + 1:])
        for i, f in enumerate(fal):
            if f[1] != 'bool':
                yield dict(case, falsy=fal[:i] + [[f[0], 'bool']] + fal[i + 1:])
    for cand in _shrinks_core({k: v for k, v in case.items() if k != 'falsy'} if not fal else case):
        if isinstance(cand, dict) and 'falsy' in case and cand.get('falsy') == case.get('falsy'):
            cand = _remap_falsy(case, cand)
        yield cand


def _drop(case, pos):
    """remove the subtree at pos, renumbering r and a"""
    import copy
    tree = copy.deepcopy(case['tree'])
    parent = tree
    for i in pos[:-1]:
        parent = parent[i][1]
    del parent[pos[-1]]

    def fix(p):
        p = list(p)
        d = len(pos) - 1
        if len(p) > d and p[:d] == pos[:-1] and p[d] > pos[-1]:
            p[d] -= 1
        return p
    return dict(case, tree=tree, r=fix(case['r']), a=fix(case['a']))


# ------------------------------------------------------------------ wire
def _tree_wire(t):
    if t is None:
        return 0
    return [[nm, _tree_wire(c)] for nm, c in t]


def _opt(v):
    return [] if v is None else [v]


def host_url_of():
    """request.host_url as webob computes it for the blank environ (oracle input of the model; C17's subject)"""
    from webob import Request
    return Request.blank('/').host_url


def urlsplit_ok(path):
    """oracle for the one opaque step of urllib.parse.urlsplit (the check of a bracketed host)"""
    from urllib.parse import urlsplit
    try:
        urlsplit(path)
        return True
    except ValueError:
        return False
    except Exception:
        return True


NMORE = 3
AMBIENT_KINDS = ('same', 'twin', 'small')


def more_positions(case):
    """three more resources of the tree (derived from the case) whose URLs are asked of the SAME request object"""
    poss = list(all_positions(case['tree']))
    cands = [list(case['a']), list(case['r'][:-1]), poss[-1], poss[len(poss) // 2], list(case['r'])]
    out = []
    for p in cands:
        if p != list(case['r']) and p not in out:
            out.append(p)
    for p in cands + poss:
        if len(out) >= NMORE:
            break
        if p not in out:
            out.append(p)
    while len(out) < NMORE:
        out.append(list(case['r']))
    return out[:NMORE]


def to_wire(case):
    w1, w2 = elems_wire(case)[:2]
    return [_tree_wire(case['tree']), list(case['r']), list(case['a']), list(case['rel']), case['rel_str'],
            list(case['els']), _opt(case['vroot']), case['script'], _opt(host_url_of()), urlsplit_ok(case['rel_str']),
            more_positions(case), w1, w2]


NEXT = 7                # observations 16..22: the typed-element calls
NOBS = 13 + NMORE + NEXT
I_PATH1, I_PATH2 = 17, 20       # resource_path(r, *tels), then resource_path(r, *tels2) in the same process


def from_wire(case, raw):
    if raw == [['bad']] or not isinstance(raw, list) or len(raw) != 2 or len(raw[0]) != NOBS or len(raw[1]) != NOBS:
        return {'model': ['MODEL-BAD', raw], 'spec': None}
    return {'model': raw[0], 'spec': [(s if s != [] else ['none']) for s in raw[1]]}


# ------------------------------------------------------------------ implementation
_impl = {}


def setup(tier):
    if _impl:
        return
    from pyramid.config import Configurator
    from pyramid.events import ContextFound
    from pyramid.request import Request
    from pyramid.response import Response
    from pyramid import traversal
    from harness.c02 import prop as c02
    cur = {'root': None, 'seen': None, 'viewed': None}

    def root_factory(request):
        return cur['root']

    def on_context(event):
        cur['seen'] = (event.request.context, event.request.view_name)

    def view(context, request):
        cur['viewed'] = context
        return Response('ok')

    config = Configurator(root_factory=root_factory)
    config.add_subscriber(on_context, ContextFound)
    config.add_view(view)
    app = config.make_wsgi_app()
    from pyramid import url as U
    _impl.update(cur=cur, app=app, Request=Request, T=traversal, U=U, registry=config.registry,
                 base=dict(Request.blank('/').environ), vh=traversal.VH_ROOT_KEY,
                 build_tree=c02.build_tree, res_at=c02.res_at, Leaf=c02.Leaf)


class Res7:
    """a location-aware resource without __getitem__ (a leaf)"""
    def __init__(self, name, parent, pos):
        self.__name__, self.__parent__, self._pos = name, parent, pos

    def __repr__(self):
        return '<res %r>' % (self._pos,)


class Folder7(Res7):
    def __init__(self, name, parent, pos):
        Res7.__init__(self, name, parent, pos)
        self._items = []

    def __getitem__(self, key):
        for k, v in self._items:
            if k == key:
                return v
        raise KeyError(key)


class FalsyLeaf(Res7):
    def __bool__(self):
        return False


class FalsyBoolFolder(Folder7):
    def __bool__(self):
        return False


class FalsyLenFolder(Folder7):
    """a container that reports no length (e.g. a lazily loaded folder)"""
    def __len__(self):
        return 0


class DictFolder(dict):
    """the `class Folder(dict)` idiom: children live in the dict itself, so an EMPTY folder is falsy"""
    __hash__ = object.__hash__

    def __init__(self, name, parent, pos):
        dict.__init__(self)
        self.__name__, self.__parent__, self._pos = name, parent, pos
        self._items = []

    def __repr__(self):
        return '<dictfolder %r>' % (self._pos,)


class Located7:
    """a location proxy: adds __name__ / __parent__ to an arbitrary object and forwards every other attribute,
    __getitem__ included, through __getattr__ (nothing but the location attributes lives on the proxy or its class)"""
    def __init__(self, ob, name, parent, pos):
        d = self.__dict__
        d['_ob'], d['__name__'], d['__parent__'], d['_pos'] = ob, name, parent, pos

    def __getattr__(self, attr):
        return getattr(self.__dict__['_ob'], attr)

    def __repr__(self):
        return '<located %r>' % (self.__dict__['_pos'],)


class InstFolder(Res7):
    """a container whose __getitem__ is an attribute of the INSTANCE (e.g. bound at construction time)"""
    def __init__(self, name, parent, pos):
        Res7.__init__(self, name, parent, pos)
        self._items = []

        def getitem(key):
            for k, v in self._items:
                if k == key:
                    return v
            raise KeyError(key)
        self.__getitem__ = getitem


class _Plain:
    pass


def build_tree7(t, falsy, name=None, parent=None, pos=()):
    kind = falsy.get(tuple(pos))
    if t is None:
        if kind == 'proxy':
            return Located7(_Plain(), name, parent, list(pos))
        return (FalsyLeaf if kind in FALSY_KINDS else Res7)(name, parent, list(pos))
    if kind == 'proxy':
        f = Located7(Folder7(None, None, list(pos)), name, parent, list(pos))
    else:
        cls = {None: Folder7, 'bool': FalsyBoolFolder, 'len': FalsyLenFolder, 'dict': DictFolder, 'inst': InstFolder}[kind]
        f = cls(name, parent, list(pos))
    cls = type(f)
    for i, (nm, c) in enumerate(t):
        child = build_tree7(c, falsy, nm, f, pos + (i,))
        f._items.append((nm, child))
        if cls is DictFolder and nm not in f:           # first entry with that key wins, as in the model
            dict.__setitem__(f, nm, child)
    return f


def res_at7(root, pos):
    r = root
    for i in pos:
        r = r._items[i][1]
    return r


def _exc(e):
    n = type(e).__name__
    return [1, EXC[n]] if n in EXC else ['EXC', n, str(e)[:80]]


def _pos(x):
    return list(x._pos) if isinstance(x, (Res7, DictFolder, Located7)) else ['NOT-A-RESOURCE', repr(x)[:40]]


def _find(res, path):
    try:
        return [4, _pos(_impl['T'].find_resource(res, path))]
    except KeyError:
        return [5]
    except Exception as e:
        return _exc(e)


def _guard(f):
    try:
        return f()
    except Exception as e:
        return _exc(e)


def _clear_caches():
    T = _impl['T']
    for name in ('split_path_info', 'traversal_path_info', '_join_path_tuple'):
        clear = getattr(getattr(T, name, None), 'cache_clear', None)
        if clear is not None:
            clear()
    if isinstance(getattr(T, '_segment_cache', None), dict):
        T._segment_cache.clear()
    from pyramid import url as U
    for name in ('_join_elements', '_join_quoted_elements'):
        clear = getattr(getattr(U, name, None), 'cache_clear', None)
        if clear is not None:
            clear()


def run_impl(case):
    """The case is run twice: first over whatever the caches hold from the earlier cases of this worker process
    (a real history), then from cold caches (what a replay reproduces).  The history clause (C07_history_free)
    says both answers are the same; a difference is reported as such."""
    if not _impl:
        setup('quick')
    warm = _run_once(case)
    _clear_caches()
    cold = _run_once(case)
    if warm != cold:
        return ['HISTORY-DIFFERS', warm, cold]
    return cold


def _retag(res, tag):
    """mark every object of a decoy tree: its position reads [tag, ...], so an answer taken from it is visible"""
    d = res.__dict__
    d['_pos'] = [tag] + list(d['_pos'])
    for _, c in d.get('_items', []) or getattr(d.get('_ob'), '_items', []):
        _retag(c, tag)


def _run_once(case):
    kind = case.get('ambient')
    if not kind:
        return _run_calls(case, None)
    from pyramid.threadlocal import RequestContext
    amb = _impl['Request'](dict(_impl['base']))
    amb.registry = _impl['registry']
    with RequestContext(amb):
        return _run_calls(case, amb)


def _run_calls(case, amb):
    T = _impl['T']
    root = build_tree7(case['tree'], {tuple(p): k for p, k in case.get('falsy', [])})
    if amb is not None:
        kind = case['ambient']
        if kind == 'same':
            other = root
        else:
            other = build_tree7(case['tree'], {tuple(p): k for p, k in case.get('falsy', [])}) if kind == 'twin' else \
                build_tree7([['a', None], ['one', [['two', None]]], ['x', None]], {})
            _retag(other, 'OTHER-TREE')
        # what the router leaves on a request it has traversed
        amb.root = amb.context = amb.virtual_root = other
        amb.view_name, amb.subpath, amb.traversed, amb.virtual_root_path = '', (), (), ()
    r = res_at7(root, case['r'])
    a = res_at7(root, case['a'])
    els = tuple(case['els'])
    rel = tuple(case['rel'])
    env = dict(_impl['base'])
    env['SCRIPT_NAME'] = case['script']
    if case['vroot'] is not None:
        env[_impl['vh']] = case['vroot']
    req = _impl['Request'](dict(env))
    req.registry = _impl['registry']
    obs = []
    obs.append(_guard(lambda: [3, list(T.resource_path_tuple(r, *els))]))
    obs.append(_guard(lambda: [6, T.resource_path(r, *els)]))
    try:
        obs.append(_find(a, T.resource_path_tuple(r)))
    except Exception as e:
        obs.append(_exc(e))
    try:
        obs.append(_find(a, T.resource_path(r)))
    except Exception as e:
        obs.append(_exc(e))
    obs.append(_find(a, rel))
    try:
        obs.append(_find(r, T.resource_path_tuple(a) + rel))
    except Exception as e:
        obs.append(_exc(e))
    obs.append(_find(a, case['rel_str']))
    try:
        pa = T.resource_path(a)
        obs.append(_find(r, pa + '/' + case['rel_str'] if case['rel_str'] else pa))
    except Exception as e:
        obs.append(_exc(e))

    def adapter():
        u = T.ResourceURL(r, req)
        return [7, u.virtual_path, u.physical_path, list(u.virtual_path_tuple), list(u.physical_path_tuple)]
    obs.append(_guard(adapter))
    obs.append(_guard(lambda: [6, req.resource_url(r, *els)]))
    obs.append(_guard(lambda: [6, req.resource_path(r, *els)]))

    def vroot():
        try:
            return [4, _pos(T.virtual_root(r, req))]
        except KeyError:
            return [5]
    obs.append(_guard(vroot))

    def back():
        from urllib.parse import unquote_to_bytes
        path = req.resource_url(r, app_url='')
        env2 = dict(env)
        env2['PATH_INFO'] = unquote_to_bytes(path).decode('latin-1')
        cur = _impl['cur']
        cur['root'], cur['seen'], cur['viewed'] = root, None, None
        try:
            body = _impl['app'](env2, lambda status, headers, exc_info=None: None)
            for _ in body:
                pass
        finally:
            cur['root'] = None
        if cur['seen'] is None:
            return ['ROUTER-NO-CONTEXT']
        ctx, vn = cur['seen']
        return [8, _pos(ctx), vn, [] if cur['viewed'] is None else [_pos(cur['viewed'])]]
    obs.append(_guard(back))
    # further URLs asked of the SAME request object, each for a resource object created on demand and dropped right
    # after the call (a container that builds its children per access): nothing may be kept from one call to the next
    falsy = {tuple(p): k for p, k in case.get('falsy', [])}
    for p in more_positions(case):
        obs.append(_guard(lambda p=p: [6, req.resource_url(fresh_resource(case['tree'], falsy, p))]))
    # 16..22: elements of any type (bytes, int, bool, float, Decimal, Fraction, None, str subclass); the second list is asked
    # AFTER the first in the same process -- equal-as-a-key elements that print differently must not share an answer
    # The memo of _join_path_tuple is emptied first, in the warm run too: what these observations answer is then a function
    # of the case -- their history is the case's own (the str-only calls above, *tels, then *tels2) -- and a failure replays.
    _, _, v1, v2, kmap = elems_wire(case)
    clear = getattr(getattr(T, '_join_path_tuple', None), 'cache_clear', None)
    if clear is not None:
        clear()

    def canon(x):
        if x.__class__ is str:
            return x
        if x.__class__ is bytes:
            return [1, x.decode('latin-1')]
        return [2, str(x), kmap.get(id(x), -1)]
    obs.append(_guard(lambda: [3, [canon(x) for x in T.resource_path_tuple(r, *v1)]]))
    obs.append(_guard(lambda: [6, T.resource_path(r, *v1)]))
    obs.append(_guard(lambda: [6, req.resource_url(r, *v1)]))
    obs.append(_guard(lambda: [6, req.resource_path(r, *v1)]))
    obs.append(_guard(lambda: [6, T.resource_path(r, *v2)]))
    obs.append(_guard(lambda: [6, _impl['U'].resource_url(r, req, *v2)]))      # the module-level entry point
    obs.append(_guard(lambda: [6, req.resource_path(r, *v2)]))
    return obs


def fresh_resource(tree, falsy, pos):
    """a NEW object for the resource at pos with a new lineage above it (names and parents only)"""
    node, t = None, tree
    cur = build_node7(t, falsy.get(()), None, None, [])
    for k, i in enumerate(pos):
        nm, t = t[i]
        cur = build_node7(t, falsy.get(tuple(pos[:k + 1])), nm, cur, list(pos[:k + 1]))
    return cur


def build_node7(t, kind, name, parent, pos):
    if kind == 'proxy':
        return Located7(_Plain() if t is None else Folder7(None, None, pos), name, parent, pos)
    if t is None:
        return (FalsyLeaf if kind in FALSY_KINDS else Res7)(name, parent, pos)
    cls = {None: Folder7, 'bool': FalsyBoolFolder, 'len': FalsyLenFolder, 'dict': DictFolder, 'inst': InstFolder}[kind]
    return cls(name, parent, pos)


# ------------------------------------------------------------------ judging
def equiv(case, obs, model):
    """model [2] = outside the model (bracketed netloc of a scheme-like path): anything goes"""
    if not isinstance(model, list) or len(model) != len(obs):
        return False
    return all(m == [2] or m == o for o, m in zip(obs, model))


def _constrained(s):
    return s != ['none'] and s != []


def _meets(i, o, s):
    if i == 8:
        return isinstance(o, list) and len(o) == 5 and o[0] == 7 and o[1] == s[1]
    return o == s


def _bad_ops(obs, spec):
    return [i for i, (o, s) in enumerate(zip(obs, spec)) if _constrained(s) and not _meets(i, o, s)]


def spec_holds(case, obs, spec):
    if spec is None or not isinstance(obs, list) or len(obs) != NOBS:
        return None if spec is None else False
    if not any(_constrained(s) for s in spec):
        return None
    return not _bad_ops(obs, spec)


SCHEME_RE = re.compile(r'^[A-Za-z]+:')


def classify(case, obs, spec):
    """known finding: a RELATIVE lookup whose first segment reads '<letters>:' is parsed as a URL by
    Request.blank; exactly the relative observations (4 tuple, 6 string) deviate, the absolute ones agree"""
    if spec is None:
        return None
    if _history_differs(obs):
        return None
    bad = _bad_ops(obs, spec)
    if bad and set(bad) <= {4, 6} and case['rel'] and SCHEME_RE.match(case['rel'][0]):
        return FINDING_COLON
    return None


def _raw_key_twins(case):
    """the input class of the repaired finding C07-join-path-tuple-cache-raw-key (never excused by classify): tels2 is equal
    to tels AS A CACHE KEY (1 == True == 1.0) although it prints differently.  Exactly: same length, position by position the
    same key class, at least one non-str non-bytes, different printed texts"""
    w1, w2 = elems_wire(case)[:2]
    if len(w1) != len(w2) or not any(e[0] == 2 for e in w1):
        return False
    for x, y in zip(w1, w2):
        if x[0] != y[0] or (x[0] == 2 and x[2] != y[2]) or (x[0] != 2 and x[1] != y[1]):
            return False
    return [e[1] for e in w1] != [e[1] for e in w2]


def _history_differs(obs):
    return isinstance(obs, list) and len(obs) == 3 and obs[0] == 'HISTORY-DIFFERS'


def nontrivial(case, obs):
    if _history_differs(obs) or len(obs) != NOBS:
        return False
    return bool(case['r']) and obs[2] == [4, list(case['r'])] and (case['vroot'] is not None or bool(case['rel']))


def _vroot_kind(case):
    v = case['vroot']
    if v is None:
        return 'none'
    try:
        d = v.encode('latin-1').decode('utf-8')
    except UnicodeEncodeError:
        return 'not-latin1'
    except UnicodeDecodeError:
        return 'malformed'
    segs = [s for s in d.split('/') if s and s != '.']
    if not segs:
        return 'slash'
    names = names_at(case['tree'], case['r'])
    if '..' not in segs and names[:len(segs)] == segs:
        k = 'self' if len(segs) == len(names) else 'ancestor'
        if any(quote(s) != s for s in segs):
            k += '+needs-quoting'
        return k
    if len(segs) <= len(names) and names[:len(segs) - 1] == segs[:-1] and \
            (names[len(segs) - 1].startswith(segs[-1]) or segs[-1].startswith(names[len(segs) - 1])):
        return 'name-prefix-or-extension'
    if '%' in d and [quote(n) for n in names[:len(segs)]] == segs:
        return 'quoted-text'
    return 'other-path'


def kinds(case, obs):
    if _history_differs(obs) or len(obs) != NOBS:
        return ['history-differs' if _history_differs(obs) else 'harness-problem']
    ks = ['depth:%d' % min(len(case['r']), 4), 'vroot:' + _vroot_kind(case)]
    marks = {tuple(p): k for p, k in case.get('falsy', [])}
    lin = [tuple(case['r'][:k]) for k in range(len(case['r']) + 1)]
    for k in sorted(set(marks.values()) & set(PROXY_KINDS)):
        ks.append('flavour:' + k)
    if {marks.get(p) for p in lin} & set(PROXY_KINDS):
        ks.append('lineage-has-proxy-or-instance-getitem')
    fal = {p: k for p, k in marks.items() if k in FALSY_KINDS}
    if fal:
        if tuple(case['r']) in fal:
            ks.append('falsy:r-itself')
            t = node_at(case['tree'], case['r'])
            ks.append('falsy:r-is-' + ('leaf' if t is None else 'empty-folder' if not t else 'folder-with-children'))
        if () in fal:
            ks.append('falsy:root')
        if any(p in fal for p in lin[1:-1]):
            ks.append('falsy:inner-ancestor')
        if tuple(case['a']) in fal:
            ks.append('falsy:start-resource')
        for k in set(fal.values()):
            ks.append('falsy-kind:' + k)
    else:
        ks.append('falsy:none')
    names = names_at(case['tree'], case['r'])
    if any(quote(n) != n for n in names):
        ks.append('lineage-needs-quoting')
    if any(ord(c) > 127 for n in names for c in n):
        ks.append('lineage-non-ascii')
    if any(n in BAD_NAMES for n in names):
        ks.append('lineage-inadmissible')
    import unicodedata
    try:
        if any(unicodedata.normalize('NFC', n) != n for n in names):
            ks.append('lineage-not-NFC')
            par = case['tree']
            for i in case['r']:
                sibs = [s_ for s_, _ in par]
                if unicodedata.normalize('NFC', par[i][0]) != par[i][0] and \
                        any(s_ != par[i][0] and unicodedata.normalize('NFC', s_) == unicodedata.normalize('NFC', par[i][0])
                            for s_ in sibs):
                    ks.append('lineage-not-NFC-with-equivalent-sibling')
                    break
                par = par[i][1]
        if any(unicodedata.normalize('NFKC', n) != n for n in names):
            ks.append('lineage-not-NFKC')
    except Exception:
        pass
    o8 = obs[8]
    if isinstance(o8, list) and o8 and o8[0] == 7:
        ks.append('url:' + ('trimmed' if o8[1] != o8[2] else 'untrimmed' if case['vroot'] is not None else 'no-header'))
    elif isinstance(o8, list) and o8:
        ks.append('url:exc-%s' % (o8[1],))
    for i, tag in ((4, 'rel-tuple'), (6, 'rel-str')):
        o = obs[i]
        out = 'found' if o[0] == 4 else 'keyerror' if o[0] == 5 else 'exc-%s' % (o[1],) if o[0] == 1 else str(o[0])
        ks.append('%s:%s' % (tag, out))
    ks.append('rel-len:%d' % len(case['rel']))
    if case['rel'] and SCHEME_RE.match(case['rel'][0]):
        ks.append('rel-scheme-like')
    if case['rel_str'] != '/'.join(quote(s) for s in case['rel']):
        ks.append('rel-str-perturbed')
    ks.append('elements:%d' % len(case['els']))
    w1, w2 = elems_wire(case)[:2]
    if w1 or w2:
        ks.append('typed-elements')
        for e in case.get('tels', []) + case.get('tels2', []):
            ks.append('element-type:' + ('str' if isinstance(e, str) else e[0]))
        if _raw_key_twins(case):
            ks.append('second-elements-equal-as-keys-print-differently')
        for i, tag in ((I_PATH1, 'typed-path'), (I_PATH2, 'typed-path-second')):
            o = obs[i]
            ks.append('%s:%s' % (tag, 'text' if o[0] == 6 else 'exc-%s' % (o[1],)))
    if any(n in UNICODE_CLASS for n in names_at(case['tree'], case['r'])):
        ks.append('lineage-unicode-class-name')
    ks.append('script:' + ('empty' if not case['script'] else 'set'))
    ks.append('ambient-request:' + (case.get('ambient') or 'none'))
    o11, o12 = obs[11], obs[12]
    ks.append('virtual_root:' + ('root' if o11 == [4, []] else 'inner' if o11[0] == 4 else 'keyerror' if o11[0] == 5 else 'exc'))
    if isinstance(o12, list) and o12 and o12[0] == 8:
        ks.append('back:' + ('same-resource' if o12[1] == list(case['r']) and o12[2] == '' else 'elsewhere'))
    else:
        ks.append('back:exc')
    return ks


def describe(case):
    return case


OBS_NAMES = ['resource_path_tuple(r,*els)', 'resource_path(r,*els)', 'find_resource(a, path_tuple(r))',
             'find_resource(a, path(r))', 'find_resource(a, rel)', 'find_resource(r, path_tuple(a)+rel)',
             'find_resource(a, rel_str)', 'find_resource(r, path(a)+"/"+rel_str)', 'ResourceURL(r, request)',
             'request.resource_url(r,*els)', 'request.resource_path(r,*els)', 'virtual_root(r, request)',
             'request of the URL path under the same header'] + \
    ['request.resource_url(<new object for another resource>) on the same request #%d' % (k + 1) for k in range(3)] + \
    ['resource_path_tuple(r, *tels)', 'resource_path(r, *tels)', 'request.resource_url(r, *tels)',
     'request.resource_path(r, *tels)', 'resource_path(r, *tels2) after resource_path(r, *tels)',
     'pyramid.url.resource_url(r, request, *tels2)', 'request.resource_path(r, *tels2)']


def explain(item):
    out = []
    impl = item.get('impl') or []
    if _history_differs(impl):
        warm, cold = impl[1], impl[2]
        return [{'observation': OBS_NAMES[i], 'answer_over_the_caches_earlier_cases_left': warm[i],
                 'answer_from_cold_caches': cold[i]}
                for i in range(min(len(warm), len(cold), NOBS)) if warm[i] != cold[i]]
    for i in _bad_ops(item.get('impl') or [], item.get('spec') or []):
        out.append({'observation': OBS_NAMES[i], 'observed': item['impl'][i], 'property_demands': item['spec'][i]})
    return out


# ------------------------------------------------------------------ violation search
def targeted(broken, disagreements, rng):
    out = []
    t = [['one', [['two', [['three', None]]]]], ['onetwo', [['x', None]]], ['a b', [['c', None]]],
         ['Québec', [['d', None]]], ['a', [['b', [['c', None]]]]], ['http:', [['x', None]]], ['x', [['y', None]]]]
    base = {'tree': t, 'a': [], 'rel': [], 'rel_str': '', 'els': [], 'script': ''}
    for r in ([0], [0, 0], [0, 0, 0], [1], [1, 0], [2], [2, 0], [3, 0], [4, 0, 0], []):
        names = names_at(t, r)
        for v in [None, '/', '/one', '/one/', '/on', '/one/two', '/onetwo', '/a b', '/a%20b', wsgi('/Québec'),
                  '/Qu%C3%A9bec', '/a', '/a/b', '/a/', 'one', '/one/tw', '/x']:
            out.append(dict(base, r=r, vroot=v))
        for k in range(1, len(names) + 1):
            out.append(dict(base, r=r, vroot=wsgi('/' + '/'.join(names[:k]))))
    for a in ([], [6], [5]):
        for rel in (['http:', 'x'], ['a:b', 'c'], ['x', 'y'], ['http:'], ['x:', 'y'], ['y'], ['zz'], ['HTTP:', 'x']):
            out.append(dict(base, r=[0], a=a, rel=rel, rel_str='/'.join(quote(s) for s in rel), vroot=None))
    for els in (['a b'], ['a/b', 'c'], ['é']):
        out.append(dict(base, r=[0, 0], els=els, vroot='/one', script='/app'))
    # elements of any type, the second list equal to the first as keys
    for r in ([], [0], [3, 0]):
        for t1, t2 in ((['caf\xe9', ['b', wsgi('caf\xe9')]], [['b', wsgi('caf\xe9')]]), ([['i', 1]], [['t', True]]),
                       ([['t', True]], [['i', 1]]), ([['f', '1.0']], [['i', 1]]), ([['i', 0], 'x'], [['f', '-0.0'], 'x']),
                       ([['b', '\xff']], [['b', 'a']]), ([['s', 'a b']], [['s', 'a b']]), ([['n']], [['i', 7]]),
                       ([['d', '1.0']], [['d', '1.00']]), ([['b', wsgi('\u0664\u0662')]], ['\u0664\u0662'])):
            out.append(dict(base, r=r, vroot=None, tels=t1, tels2=t2))
            out.append(dict(base, r=r, vroot='/one', script='/app', tels=t1, tels2=t2))
    for amb in AMBIENT_KINDS:
        for r, a, rel in (([0, 0], [], ['one', 'two']), ([4, 0, 0], [4], ['b', 'zz']), ([], [6], []), ([2, 0], [0, 0], ['c'])):
            for v in (None, '/one', '/a'):
                out.append(dict(base, r=r, a=a, rel=rel, rel_str='/'.join(quote(x) for x in rel), vroot=v, ambient=amb))
    for nm in UNICODE_CLASS:
        out.append(dict(base, tree=[[nm, [[nm, None]]]], r=[0, 0], a=[0], rel=[nm], rel_str=quote(nm), vroot=wsgi('/' + nm)))
    for d in disagreements[:20]:
        c = d.get('case')
        if c:
            out.append(c)
    for _ in range(3000):
        out.append(gen_case(rng))
    return out
