"""C10 facts extractor: reads src/pyramid/session.py with ast (fail-closed)."""
import ast
import os
from harness.common import facts as F

HERE = os.path.dirname(os.path.abspath(__file__))

CMP = {'Gt': 0, 'GtE': 1, 'Lt': 2, 'LtE': 3, 'Eq': 4, 'NotEq': 5}
KIND = {'manage_accessed': 1, 'manage_changed': 2}
CONFIG_NAMES = {'_cookie_name', '_cookie_max_age', '_cookie_path', '_cookie_domain', '_cookie_secure',
                '_cookie_httponly', '_cookie_samesite', '_cookie_on_exception', '_timeout', '_reissue_time', '_dirty'}
# class-level configuration of CookieSession (not translated: pinned literally)
# (_cookie_max_age, _timeout, _reissue_time, _cookie_on_exception are TRANSLATED: harness/c10/translate_factory.py)
# (the six cookie-attribute class attributes too, since round 6)
CONFIG_EXPECTED = {'_dirty': 'False'}
# names of the model's methods (spelled here only to avoid writing code-point lists by hand in Coq)
METHS = ['get', '__getitem__', 'items', 'values', 'keys', '__contains__', '__len__', '__iter__',
         'clear', 'update', 'setdefault', 'pop', 'popitem', '__setitem__', '__delitem__',
         'flash', 'pop_flash', 'peek_flash', 'new_csrf_token', 'get_csrf_token', 'changed', 'invalidate', '__ior__']


def _ident(n):
    return 'nm_' + n.strip('_')


def wrapper_table(cls, problems):
    """class body -> [(name, kind, target)]  kind 0 bare / 1 manage_accessed / 2 manage_changed"""
    out = []
    for st in cls.body:
        if isinstance(st, ast.Expr) and isinstance(st.value, ast.Constant):
            continue
        if isinstance(st, ast.Assign) and len(st.targets) == 1 and isinstance(st.targets[0], ast.Name):
            name = st.targets[0].id
            v = st.value
            if name in CONFIG_NAMES:
                if name in CONFIG_EXPECTED and ast.unparse(v) != CONFIG_EXPECTED.get(name):
                    problems.append('CookieSession.%s = %s (the model reads this option as %s)' % (
                        name, ast.unparse(v)[:60], CONFIG_EXPECTED.get(name)))
                continue
            if (isinstance(v, ast.Call) and isinstance(v.func, ast.Name) and v.func.id in KIND and len(v.args) == 1
                    and not v.keywords and isinstance(v.args[0], ast.Attribute)
                    and isinstance(v.args[0].value, ast.Name)):
                out.append((name, KIND[v.func.id], v.args[0].value.id + '.' + v.args[0].attr))
                continue
            if isinstance(v, ast.Attribute) and isinstance(v.value, ast.Name):      # name = dict.name (unwrapped)
                out.append((name, 0, v.value.id + '.' + v.attr))
                continue
            problems.append('CookieSession: unrecognised class-level assignment %s = %s' % (name, ast.unparse(v)[:60]))
            continue
        if isinstance(st, ast.FunctionDef):
            decs = st.decorator_list
            if not decs:
                out.append((st.name, 0, 'def'))
            elif len(decs) == 1 and isinstance(decs[0], ast.Name) and decs[0].id in KIND:
                out.append((st.name, KIND[decs[0].id], 'def'))
            else:
                problems.append('CookieSession.%s: unrecognised decorators' % st.name)
                out.append((st.name, 0, 'def'))
            continue
        problems.append('CookieSession: unrecognised class-body statement %s' % ast.unparse(st)[:60])
    names = [n for n, _, _ in out]
    if len(set(names)) != len(names):
        problems.append('CookieSession: a method name is bound twice in the class body: %r' % sorted(
            n for n in set(names) if names.count(n) > 1))
    return out


FACTORY_PARAMS = ['serializer', 'cookie_name', 'max_age', 'path', 'domain', 'secure', 'httponly', 'samesite', 'timeout',
                  'reissue_time', 'set_on_exception']


def factory_skeleton(m, problems):
    """BaseCookieSessionFactory(<fixed parameter list>): <doc>; @implementer(ISession) class CookieSession(dict): ..;
    return CookieSession -- plus the module-level names this relies on.  Fail-closed."""
    fn = m.find('BaseCookieSessionFactory')
    if fn is None:
        problems.append('BaseCookieSessionFactory not found')
        return
    a = fn.args
    if [x.arg for x in a.args] != FACTORY_PARAMS or a.vararg or a.kwarg or a.kwonlyargs or fn.decorator_list:
        problems.append('BaseCookieSessionFactory: parameter list / decorators changed: %s' % [x.arg for x in a.args])
    body = [b for b in fn.body if not (isinstance(b, ast.Expr) and isinstance(b.value, ast.Constant))]
    ok = (len(body) == 2 and isinstance(body[0], ast.ClassDef) and body[0].name == 'CookieSession'
          and [ast.unparse(b) for b in body[0].bases] == ['dict'] and not body[0].keywords
          and [ast.unparse(d) for d in body[0].decorator_list] == ['implementer(ISession)']
          and ast.unparse(body[1]) == 'return CookieSession')
    if not ok:
        problems.append('BaseCookieSessionFactory: body is no longer <doc>; @implementer(ISession) class CookieSession(dict); '
                        'return CookieSession')
    # module level: imports and re-exports the modelled code relies on
    binds = {}
    for st in m.tree.body:
        if isinstance(st, ast.ImportFrom):
            for al in st.names:
                binds.setdefault(al.asname or al.name, []).append('from %s import %s' % (st.module, al.name))
        elif isinstance(st, ast.Import):
            for al in st.names:
                binds.setdefault(al.asname or al.name, []).append('import %s' % al.name)
        elif isinstance(st, ast.Assign):
            for t in st.targets:
                if isinstance(t, ast.Name):
                    binds.setdefault(t.id, []).append('= ' + ast.unparse(st.value))
        elif isinstance(st, (ast.FunctionDef, ast.ClassDef)):
            binds.setdefault(st.name, []).append('def/class')
    want = {'JSONSerializer': ['from webob.cookies import JSONSerializer', '= JSONSerializer'],
            'SignedSerializer': ['from webob.cookies import SignedSerializer'],
            'implementer': ['from zope.interface import implementer'],
            'ISession': ['from pyramid.interfaces import ISession'],
            'manage_accessed': ['def/class'], 'manage_changed': ['def/class'],
            'BaseCookieSessionFactory': ['def/class'], 'SignedCookieSessionFactory': ['def/class'], 'dict': None}
    for nm, w in want.items():
        if binds.get(nm) != w:
            problems.append('session.py: module-level binding of %s is %s, expected %s' % (nm, binds.get(nm), w))


def _find_compare(fn, pred):
    hits = [n for n in ast.walk(fn) if isinstance(n, ast.Compare) and len(n.ops) == 1 and pred(n)]
    return hits


def extract(src):
    problems = []
    notes = []      # informational only: operators, limit and payload order are part of the translated program
    summary = F.check_shapes(src, os.path.join(HERE, 'pins.json'), problems)
    vals = {'table': [], 'timeout_cmp': 0, 'reissue_cmp': 0, 'limit_cmp': 0, 'cookie_limit': 4064,
            'flash_prefix': '_f_', 'csrf_key': '_csrft_', 'urandom_n': 20,
            'payload_fields': ['accessed', 'created', 'state'], 'defaults': {}}
    try:
        m = F.Module(src, 'pyramid/session.py')
        cls = m.find('BaseCookieSessionFactory.CookieSession')
        if cls is None:
            raise ValueError('CookieSession class not found')
        vals['table'] = wrapper_table(cls, problems)
        factory_skeleton(m, problems)
        # timeout test in __init__:  now - renewed OP self._timeout
        init = m.find('BaseCookieSessionFactory.CookieSession.__init__')
        h = _find_compare(init, lambda n: ast.unparse(n.left) == 'now - renewed' and ast.unparse(n.comparators[0]) == 'self._timeout')
        if len(h) == 1:
            vals['timeout_cmp'] = CMP[type(h[0].ops[0]).__name__]
        else:
            notes.append('timeout test `now - renewed OP self._timeout` not found exactly once in __init__')
        acc = m.find('manage_accessed')
        h = _find_compare(acc, lambda n: ast.unparse(n.left) == 'now - session.renewed' and ast.unparse(n.comparators[0]) == 'session._reissue_time')
        if len(h) == 1:
            vals['reissue_cmp'] = CMP[type(h[0].ops[0]).__name__]
        else:
            notes.append('reissue test `now - session.renewed OP session._reissue_time` not found exactly once')
        sc = m.find('BaseCookieSessionFactory.CookieSession._set_cookie')
        h = _find_compare(sc, lambda n: ast.unparse(n.left) == 'len(cookieval)' and isinstance(n.comparators[0], ast.Constant)
                          and isinstance(n.comparators[0].value, int))
        if len(h) == 1:
            vals['limit_cmp'] = CMP[type(h[0].ops[0]).__name__]
            vals['cookie_limit'] = h[0].comparators[0].value
        else:
            notes.append('size test `len(cookieval) OP <int>` not found exactly once in _set_cookie (limit check removed?)')
            vals['limit_cmp'] = 0
            vals['cookie_limit'] = None
        # payload tuple
        tup = [n for n in ast.walk(sc) if isinstance(n, ast.Call) and ast.unparse(n.func) == 'serializer.dumps']
        if len(tup) == 1 and len(tup[0].args) == 1 and isinstance(tup[0].args[0], ast.Tuple):
            el = [ast.unparse(e) for e in tup[0].args[0].elts]
            mp = {'self.accessed': 'accessed', 'self.created': 'created', 'dict(self)': 'state', 'self.renewed': 'renewed'}
            vals['payload_fields'] = [mp.get(e, '?' + e) for e in el]
        else:
            notes.append('serializer.dumps((...)) tuple not found in _set_cookie')
        # string constants of the flash / csrf API
        def str_consts(q):
            fn = m.find('BaseCookieSessionFactory.CookieSession.' + q)
            return [n.value for n in ast.walk(fn) if isinstance(n, ast.Constant) and isinstance(n.value, str)
                    and n.value != '' and n is not getattr(fn.body[0], 'value', None)]
        fp = {tuple(str_consts(q)) for q in ('flash', 'pop_flash', 'peek_flash')}
        if len(fp) == 1 and len(list(fp)[0]) == 1:
            vals['flash_prefix'] = list(fp)[0][0]
        else:
            problems.append('flash queue prefix differs between flash/pop_flash/peek_flash: %r' % sorted(fp))
        ck = {tuple(str_consts(q)) for q in ('new_csrf_token', 'get_csrf_token')}
        if len(ck) == 1 and len(list(ck)[0]) == 1:
            vals['csrf_key'] = list(ck)[0][0]
        else:
            problems.append('csrf key differs between new_csrf_token/get_csrf_token: %r' % sorted(ck))
        nc = m.find('BaseCookieSessionFactory.CookieSession.new_csrf_token')
        ur = [n for n in ast.walk(nc) if isinstance(n, ast.Call) and ast.unparse(n.func) == 'os.urandom']
        if len(ur) == 1 and isinstance(ur[0].args[0], ast.Constant):
            vals['urandom_n'] = ur[0].args[0].value
        else:
            problems.append('os.urandom(<int>) not found in new_csrf_token')
        # factory defaults
        for fname in ('BaseCookieSessionFactory', 'SignedCookieSessionFactory'):
            fn = m.find(fname)
            a = fn.args
            names = [x.arg for x in a.args]
            defs = [None] * (len(names) - len(a.defaults)) + [ast.literal_eval(d) for d in a.defaults]
            vals['defaults'][fname] = dict(zip(names, defs))
    except Exception as e:  # fail closed
        problems.append('session.py facts unrecognised: %r' % (e,))
    return vals, summary, problems


def emit(vals):
    o = [F.HEADER]
    for n in METHS:
        o.append('Definition %s : text := %s.\n' % (_ident(n), F.coq_text(n)))
    o.append('(* (method name, wrapper kind 0 bare / 1 manage_accessed / 2 manage_changed, wrapped target) read from the class body *)\n')
    o.append('Definition wrapper_table : list (text * (N * text)) :=\n  [' + ';\n   '.join(
        '(%s, (%d%%N, %s))' % (F.coq_text(n), k, F.coq_text(t)) for n, k, t in vals['table']) + '].\n')
    o.append('(* does SignedCookieSessionFactory accept only the canonical cookie text? *)\nDefinition canonical_check : bool := %s.\n' % F.coq_bool(vals.get('canonical_check', False)))
    o.append('Definition flash_prefix : text := %s.\n' % F.coq_text(vals['flash_prefix']))
    o.append('Definition csrf_key : text := %s.\n' % F.coq_text(vals['csrf_key']))
    o.append('Definition urandom_n : N := %d%%N.\n' % vals['urandom_n'])
    o.append('Definition payload_fields : list text := %s.\n' % F.coq_texts(vals['payload_fields']))
    d = vals['defaults'].get('SignedCookieSessionFactory', {})
    def optz(v):
        return 'None' if v is None else 'Some (%d)%%Z' % int(v)
    o.append('Definition default_timeout : option Z := %s.\n' % optz(d.get('timeout', 1200)))
    o.append('Definition default_reissue : option Z := %s.\n' % optz(d.get('reissue_time', 0)))
    o.append('Definition default_soe : bool := %s.\n' % F.coq_bool(bool(d.get('set_on_exception', True))))
    return ''.join(o)
