"""C10 -- signed cookie sessions persist exactly what was stored and reject all else."""
import base64
import binascii
import hashlib
import hmac
import json
import os
import re

from harness.common import facts as F
from harness.c10 import factsx, translate, translate_factory
from harness.common import build as _build

ID = 'C10'
HERE = os.path.dirname(os.path.abspath(__file__))
CASES = {'quick': 4000, 'thorough': 100000}
PARALLEL = False          # to_wire needs the cookie texts of the implementation run, which is memoised in-process
ALLOWED_AXIOMS = ()
RULE = ('SignedCookieSessionFactory CALLED as a caller may (leading arguments positional in the documented order / keywords / omitted) with option values AS GIVEN (int / bool / float / digit string / None / refused '
        'strings for timeout, reissue_time, max_age; any truth value for set_on_exception; salt None / empty / latin-1 / not; '
        'serializer= default / strict custom / shipped PickleSerializer); '
        'chains of 1-6 requests through the factory, each presenting the cookie last set / a tampered '
        'variant / none; 0-6 operations per request from the 23 public operations, optional arguments given / omitted / passed by keyword; clock advanced by 0,1,reissue+-1,'
        'timeout+-1; options varied.  non-trivial = the chain set at least one cookie AND a later request presented that '
        'cookie or an edit of it (so persistence or rejection was really exercised); distinct by full case')
ASSUMPTIONS = [
    'serializer= : None (default JSONSerializer), a strict custom serializer with the JSON wire format that accepts only '
    'builtin container types, or the shipped deprecated PickleSerializer (judged against the same chain run with the '
    'default serializer: equal observations except for the cookie text; only for cookie sources none/last/garbage/stale); '
    'a given serializer is assumed to have JSON semantics in the model',
    'stored values are JSON data (null, bool, int, str, list, str-keyed dict): tuples and non-string keys do not survive JSON',
    'time.time() is a float on a grid of 0.25 s (exactly representable, so every float operation of the code is exact); '
    'int() truncations are modelled; time stamps are whole seconds (int()), so timeout/reissue are measured from the stamp in '
    'the cookie and a boundary can be crossed up to <1 s early relative to the real clock (specification boundary, as for C09)',
    'a bare session.changed() re-issues the cookie with the OLD renewal time (it does not touch accessed); timeout is '
    'measured from the time stamp in the cookie',
    'hmac, json and base64 are abstract functions in the theorems; the premises deser(ser p)=Some p, unb64(b64 x)=Some x and '
    'length(mac k m)=ds are explicit hypotheses of the theorems that need them',
    'an ALTERED cookie is a text that differs from the cookie most recently set; the specification demands a new empty '
    'session for every such text.  Since /repo 68cd719 only the canonical text of a cookie is accepted (fact '
    'canonical_check, now derived from the TRANSLATION of SignedCookieSessionFactory; theorem C10_canonical_check_on), so '
    'the premise of the chain theorem is unforgeability alone (C10_chain_refines_spec_canonical: an altered text is not '
    'b64 (mac key m ++ m) for any byte string m); the older _partial forms with chain_ok are kept; the key is '
    'salt ++ secret, latin-1 if both can be encoded so, else UTF-8 (WebOb)',
    'option values: None / bool / int / float on the 1/4 grid / str; int() of a string is modelled for ASCII digit '
    'strings (value) and for strings containing an ASCII character no int literal can contain (raises); other strings '
    "(' 5', '+5', '1_0', non-ASCII digits) are outside the model (case skipped)",
    'all calls made inside one operation see the same clock value',
]
TRUSTED = [
    'translator harness/c10/translate.py: its PRIMITIVE TABLE (which Python leaf expression / call / idiom of session.py maps '
    'to which primitive of coq/Model/C10_base.v) -- control flow (sequencing, if/elif/else, and/or/not, `is None` matches, '
    'try/except with partially executed bodies, early return, raise, chained assignment, stores on the session) is '
    'translated mechanically and proved equal to the reference model on every run',
    'coq/Model/C10_base.v primitives: dict get/set/pop/... on insertion-ordered association lists, Python == on JSON '
    'values, unpack3, float_of, loads (SignedSerializer), signed_dumps, append_at / py_in (aliased flash list), '
    'register_cb = identity (the callback registration is represented by the dirty flag) -- validated by correspondence',
    'the class-body facts (which wrapper each method name is bound to); the documented signature / defaults of '
    'SignedCookieSessionFactory (doc_sig, doc_defaults in C10_base.v, DOC_ORDER in prop.py); the schema translators of '
    'translate_factory.py for request.py / router.py (queue = list, popleft = head, reify = once per request); the factory-layer translator harness/c10/translate_factory.py with its primitive table (padding + '
    'urlsafe_b64decode = unb64, urlsafe_b64encode().rstrip = b64, SignedSerializer(secret, salt, hashalg, JSON) = SSigned, '
    'int() = int_of, truth value = py_truth) and WebOb\'s key derivation salted_key (validated by correspondence: the model '
    'derives the key itself, a wrong key shows as a missing digest)',
    'WebOb SignedSerializer/JSONSerializer, hmac, hashlib, json, base64: abstract in the proofs; in the correspondence run '
    'json.dumps and urlsafe_b64encode are concrete Gallina functions (validated: the cookie text must match exactly), '
    'hmac / b64decode / json.loads answers are computed by the real libraries and shipped as tables',
]
TECHNIQUE = ('Coq proof (induction over operation lists and request chains) about a Gallina program whose control flow is '
             'translated from src/pyramid/session.py on every run (harness/c10/translate.py, translate_factory.py), proved equal to a hand-written '
             'reference model; wrapper table regenerated from the class body; extracted-program differential correspondence')
LEVEL_TEXT = ('Machine-checked theorems (75, closed under the global context; C10_chain_refines_spec_canonical carries only the '
              'unforgeability premise, the older chain theorems are _partial: see ASSUMPTIONS).  The program regenerated from session.py on this '
              'run (manage_accessed/manage_changed, changed, invalidate, flash, pop_flash, peek_flash, new_csrf_token, '
              'get_csrf_token, __init__, _set_cookie; wrappers chosen by the regenerated class table; and the factory layer: '
              'SignedCookieSessionFactory, _CanonicalBase64Serializer.loads/dumps, the int() conversion of the options in the class '
              'body, the ORDER and DEFAULTS of its parameters, the cookie attributes it hands on; and the request / router plumbing: '
              'add_response_callback, _process_response_callbacks, Request.session, Router.invoke_request) equals the reference model for all inputs; '
              'however a call passes its arguments the factory built is the documented reading of the call (C10_factory_call_is_spec); whatever other '
              'response callbacks the application registers, the session callback runs once iff the session is dirty (C10_router_invokes_callbacks); the serializer object the factory builds is the loads/dumps of the '
              'session theorems, the options the class carries are the documented conversion of the arguments (None stays None, '
              '0/False stay 0, refused values make the factory call raise), end to end from the factory arguments to the store '
              'semantics (C10_factory_chain_refines_spec).  The session program equals the reference '
              'model for all inputs, and the property holds of it literally: over whole request histories it refines the '
              'declarative store semantics (persistence incl. flash queues and CSRF token, cookie set iff modified or accessed '
              'past reissue_time and not suppressed by an exception, creation time preserved, timeout kept at = / emptied one '
              'tick later, new empty session without exception for every byte string that is not mac key p ++ p, refusal above '
              '4064 without truncation), for every mac/ser/deser/b64 with the stated round trips -- in particular for the real '
              'JSON + urlsafe base64 wire format, whose round trips are proved.  The extracted regenerated program is run '
              'against SignedCookieSessionFactory and a real Router (exact cookie text).')
LEVEL_NOTE = ('Trusted: Coq kernel; the translators\' primitive tables (translate.py, translate_factory.py) and the primitives of C10_base.v (validated by '
              'correspondence); class-body facts; Python harness; hmac as an abstract function of fixed length. Anything outside '
              'the translator\'s subset/table is a broken tie (fallback text emitted), never a silent success. Print Assumptions '
              'closed, ALLOWED_AXIOMS empty.')

# ------------------------------------------------------------------ facts
def facts(src):
    vals, summary, problems = factsx.extract(src)
    summary.update({'wrapper_table': [[n, k, t] for n, k, t in vals['table']],
                    'timeout_cmp': vals['timeout_cmp'], 'reissue_cmp': vals['reissue_cmp'],
                    'limit_cmp': vals['limit_cmp'], 'cookie_limit': vals['cookie_limit'],
                    'flash_prefix': vals['flash_prefix'], 'csrf_key': vals['csrf_key'],
                    'payload_fields': vals['payload_fields']})
    # the control flow of the session code, regenerated from the source (harness/c10/translate.py), and of the
    # factory layer around it (harness/c10/translate_factory.py), which also decides the fact canonical_check
    gen, tproblems, tsummary = translate.translate_tree(src, vals.get('urandom_n', 20))
    problems += tproblems
    summary.update(tsummary)
    try:
        with open(os.path.join(src, 'pyramid/session.py')) as f:
            text = f.read()
    except OSError:
        text = ''
    fgen, fproblems, fsummary, canonical = translate_factory.translate_source(
        text, vals.get('defaults', {}).get('BaseCookieSessionFactory', {}))
    gen += '\n' + fgen
    problems += fproblems
    summary.update(fsummary)
    # the request plumbing the cookie passes through (pyramid/request.py)
    try:
        with open(os.path.join(src, 'pyramid/request.py')) as f:
            rtext = f.read()
    except OSError:
        rtext = ''
    pgen, pproblems, psummary = translate_factory.translate_plumbing(rtext)
    gen += '\n' + pgen
    problems += pproblems
    summary.update(psummary)
    try:
        with open(os.path.join(src, 'pyramid/router.py')) as f:
            rtext = f.read()
    except OSError:
        rtext = ''
    rgen, rproblems, rsummary = translate_factory.translate_router(rtext)
    gen += '\n' + rgen
    problems += rproblems
    summary.update(rsummary)
    vals['canonical_check'] = canonical
    summary['canonical_check'] = canonical
    _F.update(vals)
    _build.write_if_changed(os.path.join(_build.COQ, 'Gen', 'Prog_C10.v'), gen)
    return {'coq': factsx.emit(vals), 'summary': summary, 'problems': problems}


_F = {'cookie_limit': 4064, 'urandom_n': 20}
TICK = 4                   # clock grid of the model: 0.25 s (coq/Model/C10.v tick)


def ticks(t):
    q = t * TICK
    if q != int(q):
        raise ValueError('clock value %r is not on the 1/%d s grid' % (t, TICK))
    return int(q)


SPEC_LIMIT = 4064        # the property's cookie size limit (coq/Model/C10.v spec_limit)


# ------------------------------------------------------------------ option values as the caller passes them
def cfgv(v):
    """wire form of an option value (coq/Model/C10_base.v cfgv): None / int / bool / float on the tick grid / str"""
    if v is None:
        return []
    if isinstance(v, bool):
        return [1, int(v)]
    if isinstance(v, int):
        return [0, v]
    if isinstance(v, float):
        return [2, ticks(v)]
    if isinstance(v, str):
        return [3, v]
    raise ValueError('option value %r' % (v,))


def eff_int(v):
    """what `x if x is None else int(x)` makes of an option value; 'raises' if int() fails (harness-side helper for
    the generator and for kinds() only: the judged conversion is the model's)"""
    if v is None:
        return None
    try:
        return int(v)
    except (TypeError, ValueError):
        return 'raises'


def opt(o, name):
    """the option value of a case, documented default when the case does not give it"""
    dflt = {'timeout': 1200, 'reissue': 0, 'soe': True, 'max_age': None, 'salt': 'pyramid.session.'}[name]
    return dflt if o.get('defaults') else o.get(name, dflt)

# ------------------------------------------------------------------ JSON values <-> tagged form
class Unmodelled(Exception):
    pass


def tj(v):
    if v is None:
        return [0]
    if isinstance(v, bool):
        return [1, int(v)]
    if isinstance(v, int):
        if abs(v) >= 2 ** 61:
            raise Unmodelled('big int')
        return [2, v]
    if isinstance(v, float):
        if v != v or v in (float('inf'), float('-inf')) or abs(v) >= 10 ** 15 or v * TICK != int(v * TICK):
            raise Unmodelled('float')
        return [3, int(v * TICK)]          # floats travel as ticks of 1/TICK s
    if isinstance(v, str):
        return [4, v]
    if isinstance(v, (list, tuple)):
        return [5, [tj(x) for x in v]]
    if isinstance(v, dict):
        out = []
        for k, x in v.items():
            if not isinstance(k, str):
                raise Unmodelled('key')
            out.append([k, tj(x)])
        return [6, out]
    raise Unmodelled(type(v).__name__)


def tnum(v):
    if isinstance(v, bool) or not isinstance(v, (int, float)):
        return ['?', repr(v)]
    return tj(v)


OPS = ['get', 'getitem', 'items', 'values', 'keys', 'contains', 'len', 'iter', 'clear', 'update', 'setdefault', 'pop',
       'popitem', 'setitem', 'delitem', 'flash', 'pop_flash', 'peek_flash', 'new_csrf_token', 'get_csrf_token',
       'changed', 'invalidate', 'ior']
OPCODE = {n: i for i, n in enumerate(OPS)}


def op_wire(o):
    n = o['op']
    c = OPCODE[n]
    if n in ('get', 'setdefault'):
        return [c, o['k'], tj(o.get('v'))]
    if n in ('getitem', 'contains', 'delitem'):
        return [c, o['k']]
    if n in ('update', 'ior'):
        return [c, tj(o['v'])]
    if n == 'pop':
        return [c, o['k'], [tj(o['v'])] if 'v' in o else []]
    if n == 'setitem':
        return [c, o['k'], tj(o['v'])]
    if n == 'flash':
        return [c, tj(o['v']), o.get('q', ''), 1 if o.get('dup', True) else 0]
    if n in ('pop_flash', 'peek_flash'):
        return [c, o.get('q', '')]
    if n in ('new_csrf_token', 'get_csrf_token'):
        return [c, o['tok']]
    return [c]


# ------------------------------------------------------------------ implementation
_impl = {}


def setup(tier):
    import pyramid.session as ps
    from pyramid.request import Request
    from pyramid.response import Response
    from webob.cookies import SignedSerializer

    class StubReq(Request):
        cookies = None       # plain attribute: arbitrary (also non-latin-1) cookie text can be presented

    _impl.update(ps=ps, Request=Request, Response=Response, StubReq=StubReq, SS=SignedSerializer, tier=tier)


class _Clock:
    def __init__(self):
        self.now = 0

    def time(self):
        return float(self.now)


class _OS:
    def __init__(self):
        self.tok = None

    def urandom(self, n):
        b = bytes.fromhex(self.tok)
        if len(b) != n:
            raise RuntimeError('urandom size %d' % n)
        return b


SAFE_COOKIE = re.compile(r'\A[A-Za-z0-9_\-]+\Z')     # \Z: '$' would accept a trailing newline


def _serializer(o, **over):
    d = dict(secret=o['secret'], salt=o.get('salt', 'pyramid.session.'), hashalg=o.get('hashalg', 'sha512'))
    d.update(over)
    return _impl['SS'](d['secret'], d['salt'], d['hashalg'])


# the DOCUMENTED signature of SignedCookieSessionFactory (narr/api docs; coq/Model/C10_base.v doc_sig): positional
# callers rely on this order
DOC_ORDER = ['secret', 'cookie_name', 'max_age', 'path', 'domain', 'secure', 'httponly', 'samesite', 'set_on_exception',
             'timeout', 'reissue_time', 'hashalg', 'salt', 'serializer']
DOC_DEFAULTS = {'cookie_name': 'session', 'max_age': None, 'path': '/', 'domain': None, 'secure': False,
                'httponly': False, 'samesite': 'Lax', 'set_on_exception': True, 'timeout': 1200, 'reissue_time': 0,
                'hashalg': 'sha512', 'salt': 'pyramid.session.', 'serializer': None}
CASE_KEY = {'set_on_exception': 'soe', 'reissue_time': 'reissue'}


class _StrictJSON:
    """a custom `serializer=` of the kind the documentation allows (loads / dumps, ValueError for malformed input):
    the wire format of the default JSONSerializer, but -- like msgpack / cbor / orjson-style encoders, or pickle for
    classes it cannot import -- it only accepts the BUILTIN container types"""

    def __init__(self):
        from webob.cookies import JSONSerializer
        self.inner = JSONSerializer()

    def _check(self, v):
        if isinstance(v, (dict, list, tuple)):
            if type(v) not in (dict, list, tuple):
                raise TypeError('cannot serialize %s' % type(v).__name__)
            for x in (v.values() if isinstance(v, dict) else v):
                self._check(x)

    def dumps(self, appstruct):
        self._check(appstruct)
        return self.inner.dumps(appstruct)

    def loads(self, bstruct):
        return self.inner.loads(bstruct)


def call_args(o):
    """(npos, [per documented parameter: ('given', value) | None]) -- how the case calls the factory: the first
    `npos` arguments positionally (documented order; a value the case does not mention is written out as its
    documented default), the others by keyword if the case mentions them, else not at all"""
    npos = 1 if o.get('defaults') else int(o.get('npos', 1))
    out = []
    for d, name in enumerate(DOC_ORDER):
        k = CASE_KEY.get(name, name)
        if name == 'secret':
            out.append(('given', o['secret']))
        elif o.get('defaults'):
            out.append(None)
        elif name in ('timeout', 'reissue_time', 'set_on_exception', 'hashalg', 'salt'):
            out.append(('given', o.get(k, DOC_DEFAULTS[name])))     # always passed (as before round 6)
        elif name == 'serializer':
            out.append(('given', o['serializer']) if o.get('serializer') in ('strict', 'pickle') else None)
        elif k in o:
            out.append(('given', o[k]))
        elif d < npos:
            out.append(('given', DOC_DEFAULTS[name]))
        else:
            out.append(None)
    return npos, out


def _factory(o):
    # option values go in AS THE CASE GIVES THEM (int / bool / float / str / None): converting them is the code's job;
    # 'npos': n passes the first n arguments POSITIONALLY in the documented order
    npos, args = call_args(o)
    pos = [a[1] for a in args[:npos]]
    kw = {DOC_ORDER[d]: a[1] for d, a in enumerate(args) if d >= npos and a is not None}
    if kw.get('serializer') == 'strict':
        kw['serializer'] = _StrictJSON()
    elif kw.get('serializer') == 'pickle':
        import warnings
        with warnings.catch_warnings():
            warnings.simplefilter('ignore')
            kw['serializer'] = _impl['ps'].PickleSerializer()
    return _impl['ps'].SignedCookieSessionFactory(*pos, **kw)


# sources that are an alteration of the cookie most recently set (edits of its text, or its payload under another
# secret / salt / algorithm): the property demands a new empty session whenever the resulting text differs
ALTERING = ('flip', 'trunc', 'append', 'insert', 'swapalpha', 'lastbits', 'other-secret', 'other-salt', 'other-alg')


def materialise(src, last, history, o):
    """presented cookie text (None = no cookie) for a cookie source, given the cookies set so far"""
    k = src['kind']
    if k == 'none':
        return None
    if k == 'garbage':
        return src['text']
    if k == 'forged':          # validly signed with the real key: payload chosen by the case
        return _serializer(o).dumps(src['payload']).decode('latin-1')
    if k == 'stale':
        if not history:
            return None
        return history[src.get('i', 0) % len(history)]
    if last is None:
        return None
    if k == 'last':
        return last
    if k == 'flip':
        p = src['pos'] % len(last)
        c = src['ch']
        return last[:p] + c + last[p + 1:]
    if k == 'trunc':
        n = 1 + src['n'] % len(last)
        return last[:-n] if src.get('end', True) else last[n:]
    if k == 'append':
        return last + src['text']
    if k == 'insert':                       # characters put in anywhere (also inside the signature part)
        p = src['pos'] % (len(last) + 1)
        return last[:p] + src['text'] + last[p:]
    if k == 'swapalpha':                    # the standard alphabet's '+' '/' for urlsafe '-' '_' (first n occurrences)
        out, n = [], src.get('n', 10 ** 6)
        for ch in last:
            if ch in '-_' and n > 0:
                out.append({'-': '+', '_': '/'}[ch])
                n -= 1
            else:
                out.append(ch)
        return ''.join(out)
    if k == 'lastbits':                     # the bits of the final character that carry no data
        m = len(last) % 4
        if m not in (2, 3):
            return last
        al = 'ABCDEFGHIJKLMNOPQRSTUVWXYZabcdefghijklmnopqrstuvwxyz0123456789-_'
        v = al.index(last[-1])
        return last[:-1] + al[v ^ (1 + src.get('bit', 0) % (3 if m == 2 else 1))]
    if k in ('other-secret', 'other-salt', 'other-alg'):
        ss = _serializer(o)
        try:
            pad = '=' * (-len(last) % 4)
            raw = base64.urlsafe_b64decode(last + pad)[ss.digest_size:]
        except Exception:
            return None
        over = {'other-secret': {'secret': o['secret'] + 'X'}, 'other-salt': {'salt': (o.get('salt') or '') + 'y'},
                'other-alg': {'hashalg': 'sha256' if o.get('hashalg', 'sha512') != 'sha256' else 'sha512'}}[k]
        s2 = _serializer(o, **over)
        sig = hmac.new(s2.salted_secret, raw, s2.digestmod).digest()
        return base64.urlsafe_b64encode(sig + raw).rstrip(b'=').decode('latin-1')
    raise ValueError(k)


def _snap(sess):
    return [tj(dict(dict.items(sess))), tnum(sess.created), tnum(sess.accessed), tnum(sess.renewed),
            1 if sess.new else 0, 1 if sess._dirty else 0]


class _StrSub(str):
    """a str subclass used as key (json and dict treat it as the str it is)"""


def _arg_dict(o):
    return json.loads(json.dumps(o['v']))


def _do_op(sess, o):
    n = o['op']
    if o.get('ksub') and 'k' in o:      # (a str subclass is a leaf: also the strict serializer takes it)
        o = dict(o, k=_StrSub(o['k']))
    # optional arguments that the case does not give are OMITTED in the call (the model takes the documented default:
    # ISession.flash(msg, queue='', allow_duplicate=True), pop_flash/peek_flash(queue=''), dict.get/setdefault -> None);
    # 'kw': True passes the optional ones by keyword (the ISession parameter names are part of the API)
    if n == 'get':
        return sess.get(o['k'], o['v']) if 'v' in o else sess.get(o['k'])
    if n == 'getitem':
        return sess[o['k']]
    if n == 'items':
        return [[k, v] for k, v in sess.items()]
    if n == 'values':
        return list(sess.values())
    if n == 'keys':
        return list(sess.keys())
    if n == 'contains':
        return o['k'] in sess
    if n == 'len':
        return len(sess)
    if n == 'iter':
        return list(iter(sess))
    if n == 'clear':
        return sess.clear()
    if n == 'update':
        # the less common call forms of dict.update: list of pairs, a one-shot iterator, keywords, both
        d, how = _arg_dict(o), o.get('how')
        if how == 'pairs':
            return sess.update(list(d.items()))
        if how == 'iter':
            return sess.update(iter(list(d.items())))
        if how == 'kwargs':
            return sess.update(**d)
        if how == 'both':
            items = list(d.items())
            return sess.update(dict(items[:1]), **dict(items[1:]))
        return sess.update(d)
    if n == 'setdefault':
        return sess.setdefault(o['k'], json.loads(json.dumps(o['v']))) if 'v' in o else sess.setdefault(o['k'])
    if n == 'pop':
        return sess.pop(o['k'], o['v']) if 'v' in o else sess.pop(o['k'])
    if n == 'popitem':
        return list(sess.popitem())
    if n == 'setitem':
        sess[o['k']] = json.loads(json.dumps(o['v']))
        return None
    if n == 'delitem':
        del sess[o['k']]
        return None
    if n == 'flash':
        msg = json.loads(json.dumps(o['v']))
        if o.get('kw') or ('dup' in o and 'q' not in o):
            kw = {}
            if 'q' in o:
                kw['queue'] = o['q']
            if 'dup' in o:
                kw['allow_duplicate'] = o['dup']
            return sess.flash(msg, **kw)
        args = ([o['q']] if 'q' in o else []) + ([o['dup']] if 'dup' in o else [])
        return sess.flash(msg, *args)
    if n in ('pop_flash', 'peek_flash'):
        f = getattr(sess, n)
        if 'q' not in o:
            return f()
        return f(queue=o['q']) if o.get('kw') else f(o['q'])
    if n == 'new_csrf_token':
        return sess.new_csrf_token()
    if n == 'get_csrf_token':
        return sess.get_csrf_token()
    if n == 'changed':
        return sess.changed()
    if n == 'invalidate':
        return sess.invalidate()
    if n == 'ior':
        import operator
        d = _arg_dict(o)
        operator.ior(sess, list(d.items()) if o.get('how') == 'pairs' else d)      # session |= {...} / |= [(k, v), ..]
        return None
    raise ValueError(n)



def _run_ops(sess, r, clock, osx):
    rs = []
    for op in r['ops']:
        clock.now = op['t']
        osx.tok = op.get('tok')
        try:
            rs.append([0, tj(_do_op(sess, op))])
        except KeyError:
            rs.append([1, 1])
        except AttributeError:
            rs.append([1, 2])
        except Unmodelled:
            rs.append([2])
        except Exception as e:
            rs.append(['X', type(e).__name__])
    return rs


def _note_payload(sess, payloads):
    try:     # payload bytes as the real JSON library writes them (for the digest table only)
        payloads.append(json.dumps((sess.accessed, sess.created, dict(dict.items(sess)))).encode('utf-8'))
    except Exception:
        pass


def _read_cookie(resp, name, o, attr_bad):
    hs = resp.headers.getall('Set-Cookie')
    if not hs:
        return [0]
    if len(hs) == 1 and hs[0].startswith(name + '='):
        attr_bad += _check_attrs(o, hs[0], name)
        return [1, hs[0].split('; ')[0][len(name) + 1:]]
    return ['X', 'set-cookie', hs]


class _ViewFailed(Exception):
    pass


def _other_cb(request, response):
    """a response callback of the application that has nothing to do with the session"""
    response.headers['X-Other'] = str(int(response.headers.get('X-Other', '0')) + 1)


def _make_app(factory, how=True):
    """a real Router: session factory configured, one view that drives the session, one exception view"""
    from pyramid.config import Configurator
    box = {}

    def view(request):
        b = box['cur']
        b['clock'].now = b['r']['t']
        try:
            sess = request.session
        except Exception as e:
            b['ctor'] = type(e).__name__
            raise
        nb, na = b['r'].get('cbs', [0, 0])
        for _ in range(nb):
            request.add_response_callback(_other_cb)
        b['s0'] = _snap(sess)
        b['rs'] = _run_ops(sess, b['r'], b['clock'], b['osx'])
        b['s1'] = _snap(sess)
        for _ in range(na):
            request.add_response_callback(_other_cb)
        _note_payload(sess, b['payloads'])
        if b['r'].get('exc'):
            raise _ViewFailed()
        return _impl['Response']('ok')

    def failed(exc, request):
        resp = _impl['Response']('failed')
        resp.status_int = 500
        return resp

    if how == 'setter':                     # the other public way to configure the factory
        config = Configurator()
        config.set_session_factory(factory)
    else:
        config = Configurator(session_factory=factory)
    config.add_route('r', '/')
    config.add_view(view, route_name='r')
    config.add_view(failed, context=_ViewFailed)
    return config.make_wsgi_app(), box


def _through_router(app_box, name, text, r, clock, osx, payloads, o, attr_bad):
    app, box = app_box
    b = box['cur'] = {'r': r, 'clock': clock, 'osx': osx, 'payloads': payloads}
    headers = {} if text is None else {'Cookie': '%s=%s' % (name, text)}
    req = _impl['Request'].blank('/', headers=headers)
    try:
        resp = req.get_response(app)
    except ValueError as e:
        if 's1' in b and 'too long' in str(e):
            return [0, b['s0'], b['rs'], b['s1'], [2]]
        return [1, 'ValueError'] if 'ctor' in b else ['X', 'ValueError', str(e)[:80]]
    except Exception as e:
        return [1, b['ctor']] if 'ctor' in b else ['X', type(e).__name__, str(e)[:80]]
    if 's1' not in b:
        return ['X', 'view did not run', resp.status]
    return [0, b['s0'], b['rs'], b['s1'], _read_cookie(resp, name, o, attr_bad)]

ATTR_KEYS = ('max_age', 'path', 'domain', 'secure', 'httponly', 'samesite')


_CUR = {'max_ages': [], 'attrs': []}      # Max-Age attributes seen during the chain being run


def _check_attrs(o, header, name):
    """Set-Cookie attributes must be the configured ones (returns a list of complaints)."""
    parts = header.split('; ')
    got = {}
    for p in parts[1:]:
        kv = p.split('=', 1)
        got[kv[0].lower()] = kv[1] if len(kv) == 2 else True
    d = {} if o.get('defaults') else o
    want = {'path': d.get('path', '/'), 'samesite': d.get('samesite', 'Lax')}
    _CUR['attrs'].append([name, got.get('path'), got.get('domain'), bool(got.get('secure')), bool(got.get('httponly')),
                          got.get('samesite')])
    if True:
        seen = _CUR['max_ages']
        try:
            seen.append(int(got['max-age']) if 'max-age' in got else 'absent')
        except ValueError:
            seen.append('?' + str(got['max-age']))
    if d.get('max_age') is not None:
        want['max-age'] = str(int(d['max_age']))
    if d.get('domain'):
        want['domain'] = d['domain']
    if d.get('secure'):
        want['secure'] = True
    if d.get('httponly'):
        want['httponly'] = True
    bad = []
    for k in ('path', 'samesite', 'max-age', 'domain', 'secure', 'httponly'):
        w = want.get(k)
        g = got.get(k)
        if w is None and k == 'samesite':
            w = None
        if (w or None) != (g or None):
            bad.append('%s: want %r got %r' % (k, w, g))
    return bad


_memo = {}


PICKLE_SRCS = ('none', 'last', 'garbage', 'stale')


def _chain(case):
    """serializer='pickle' (the shipped, deprecated pyramid.session.PickleSerializer -- the legacy configuration):
    the chain is run with it, and judged as the SAME chain with the default serializer is: the observations must
    be those of the JSON twin except for the cookie TEXT, which is therefore replaced by the twin's (the model,
    its digest tables and the presented texts all follow the twin).  Only for chains whose cookie sources do not
    depend on the text itself (PICKLE_SRCS)."""
    if case['opts'].get('serializer') != 'pickle':
        return _chain_raw(case)
    key = 'P' + json.dumps(case, sort_keys=True)
    if key in _memo:
        return _memo[key]
    twin = json.loads(json.dumps(case))
    del twin['opts']['serializer']
    chj, chp = _chain_raw(twin), _chain_raw(case)
    out = dict(chj)
    if chp['obs'] == ['factory-raises'] or chj['obs'] == ['factory-raises']:
        out['obs'] = chp['obs']
    else:
        obs = json.loads(json.dumps(chp['obs']))
        for ob, oj in zip(obs[0], chj['obs'][0]):
            if ob[0] == 0 and oj[0] == 0 and ob[4][0] == 1 and oj[4][0] == 1:
                ob[4][1] = oj[4][1]                 # same outcome: take the twin's text
        out['obs'] = obs
    _memo[key] = out
    return out


def _chain_raw(case):
    """Runs the chain on the implementation; returns observation + every cookie text seen."""
    key = json.dumps(case, sort_keys=True)
    if key in _memo:
        return _memo[key]
    if not _impl:
        setup('quick')
    ps = _impl['ps']
    o = case['opts']
    clock, osx = _Clock(), _OS()
    old_time, old_os = ps.time, ps.os
    ps.time, ps.os = clock, osx
    obs, texts, attr_bad, payloads = [], [], [], []
    _CUR['max_ages'] = max_ages = []
    _CUR['attrs'] = attrs_seen = []
    try:
        try:
            factory = _factory(o)
        except (TypeError, ValueError):
            # an option value int() refuses: the factory call itself raises, at configuration time
            ss = _serializer(o)
            out = {'obs': ['factory-raises'], 'texts': [], 'payloads': [], 'key': ss.salted_secret,
                   'ds': ss.digest_size, 'alg': o.get('hashalg', 'sha512') if not o.get('defaults') else 'sha512'}
            _memo[key] = out
            return out
        name = 'session' if o.get('defaults') else o.get('cookie_name', 'session')
        last, history = None, []
        via_router = bool(case.get('router'))
        app = _make_app(factory, case.get('router')) if via_router else None
        for r in case['reqs']:
            text = materialise(r['src'], last, history, o)
            if text is not None:
                texts.append(text)
            clock.now = r['t']
            if text is None:
                req = _impl['Request'].blank('/')
            elif SAFE_COOKIE.match(text):
                req = _impl['Request'].blank('/', headers={'Cookie': '%s=%s' % (name, text)})
            else:
                req = _impl['StubReq'].blank('/')
                req.cookies = {name: text}
            if via_router and (text is None or SAFE_COOKIE.match(text)):
                ob = _through_router(app, name, text, r, clock, osx, payloads, o, attr_bad)
                obs.append(ob)
                if ob[0] == 0 and ob[4][0] == 1:
                    last = ob[4][1]
                    history.append(last)
                    texts.append(last)
                continue
            try:
                sess = factory(req)
            except Exception as e:
                obs.append([1, type(e).__name__])
                continue
            nb, na = r.get('cbs', [0, 0])
            for _ in range(nb):
                req.add_response_callback(_other_cb)
            s0 = _snap(sess)
            rs = _run_ops(sess, r, clock, osx)
            s1 = _snap(sess)
            for _ in range(na):
                req.add_response_callback(_other_cb)
            _note_payload(sess, payloads)
            if r.get('exc'):
                req.exception = RuntimeError('view failed')
            resp = _impl['Response']()
            try:
                req._process_response_callbacks(resp)
                fin = _read_cookie(resp, name, o, attr_bad)
            except ValueError as e:
                fin = [2] if not resp.headers.getall('Set-Cookie') and 'too long' in str(e) else ['X', 'ValueError', str(e)[:80]]
            except Exception as e:
                fin = ['X', type(e).__name__]
            if fin[0] == 1:
                last = fin[1]
                history.append(last)
                texts.append(last)
            obs.append([0, s0, rs, s1, fin])
    finally:
        ps.time, ps.os = old_time, old_os
    ss = _serializer(o)
    out = {'obs': [obs, attr_bad, sorted(set(max_ages), key=repr),
                   [json.loads(x) for x in sorted({json.dumps(a) for a in attrs_seen})]], 'texts': texts, 'payloads': payloads, 'key': ss.salted_secret, 'ds': ss.digest_size,
           'alg': o.get('hashalg', 'sha512') if not o.get('defaults') else 'sha512'}
    if len(_memo) > 20000:
        _memo.clear()
    _memo[key] = out
    return out


def run_impl(case):
    return _chain(case)['obs']


# ------------------------------------------------------------------ oracle tables (real libraries only)
def _oracle(key, alg, ds, texts, payloads=()):
    macs, unbs, dess = [], [], []
    seen = set()
    for cs in payloads:
        if cs not in seen:
            seen.add(cs)
            macs.append([key, cs, hmac.new(key, cs, lambda s=b'': hashlib.new(alg, s)).digest()])
    for c in texts:
        if c in seen:
            continue
        seen.add(c)
        try:
            b = c.encode('latin-1')
            f = base64.urlsafe_b64decode(b + b'=' * (-len(b) % 4))
        except (binascii.Error, TypeError, UnicodeEncodeError, ValueError):
            unbs.append([c, []])
            continue
        unbs.append([c, [f]])
        cs = f[ds:]
        macs.append([key, cs, hmac.new(key, cs, lambda s=b'': hashlib.new(alg, s)).digest()])
        try:
            v = json.loads(cs.decode('utf-8'))
        except ValueError:
            dess.append([cs, []])
            continue
        try:
            dess.append([cs, [tj(v)]])
        except Unmodelled:
            pass
    return [ds, macs, [], dess]        # base64 decoding is done by the Gallina b64dec (no table)


def to_wire(case):
    ch = _chain(case)
    o = case['opts']
    # the CALL of the factory, unconverted and unbound: the model (regenerated signature, defaults, factory layer)
    # binds the arguments and derives key and options itself
    npos, args = call_args(o)
    opts = [npos, [[] if a is None else [cfgv(a[1])] for a in args]]
    chain_obs = ch['obs'][0] if ch['obs'] != ['factory-raises'] else []
    reqs = []
    # presented texts in order (only needed for the literal, i.e. not-last, sources)
    last, history = None, []
    for r, ob in zip(case['reqs'], chain_obs):
        k = r['src']['kind']
        text = materialise(r['src'], last, history, o)
        if k == 'last' or (k in ALTERING and text is not None and text == last):
            s = [0]                          # the cookie last set itself (an "edit" that changed nothing)
        elif text is None:
            s = []
        elif k in ALTERING:
            s = [text, 1]                    # an ALTERED cookie: the text differs from the one last set
        else:
            s = [text]
        reqs.append([s, ticks(r['t']), [[op_wire(op), ticks(op['t'])] for op in r['ops']], 1 if r.get('exc') else 0]
                    + list(r.get('cbs', [0, 0])))
        if ob[0] == 0 and ob[4][0] == 1:
            last = ob[4][1]
            history.append(last)
    return [_oracle(ch['key'], ch['alg'], ch['ds'], ch['texts'], ch['payloads']), opts, reqs]


def _has_unm(v):
    if isinstance(v, list):
        return any(_has_unm(x) for x in v)
    return False


def from_wire(case, raw):
    if isinstance(raw, list) and len(raw) == 2 and raw[0] == 1:
        # the regenerated factory raises; the spec is present iff the documented reading of the options accepts them
        return {'model': ['factory-raises'], 'spec': raw[1][0] if raw[1] else None}
    if raw == [2]:
        return {'model': None, 'spec': None}                     # an option string the model does not decide
    if raw == [['bad']] or not isinstance(raw, list) or len(raw) != 4:
        return {'model': ['MODEL-BAD', raw], 'spec': None}
    model, spec, max_age, attrs = raw
    for ob in model:
        if ob == [2] or (ob[0] == 0 and any(r == [2] for r in ob[2])):
            return {'model': None, 'spec': None}        # outside the modelled domain: nothing is compared
    return {'model': [model, [], max_age, attrs], 'spec': spec}


def _uncfgv(w):
    if w == [] or w is None:
        return None
    return {0: lambda v: v, 1: bool, 2: lambda v: v / float(TICK), 3: lambda v: v}[w[0]](w[1])


def _attrs_rendered(w):
    """how WebOb renders the raw attribute values [name, path, domain, secure, httponly, samesite] of the model"""
    if not w:
        return None
    nm, pa, dm, se, ho, ss = [_uncfgv(x) for x in w]
    return [nm, pa, dm or None, bool(se), bool(ho), ss or None]


def equiv(case, obs, model):
    """exception class names of a raising constructor are not part of the model"""
    a, b = obs, model
    if b == [] or b is None:
        return True                   # outside the modelled domain (from_wire returned no model)
    if a == ['factory-raises'] or b == ['factory-raises']:
        return a == b
    if len(b) != 4 or b[0] == 'MODEL-BAD':
        return False
    from harness.common.wire import canon
    if any(canon(x) != canon(_attrs_rendered(b[3])) for x in a[3]):
        return False          # Set-Cookie attributes differ from what the (regenerated) factory layer hands on
    if a[1] != b[1] or len(a[0]) != len(b[0]):
        return False
    want = b[2][0] if b[2] else 'absent'      # the Max-Age attribute every cookie must carry
    if any(x != want for x in a[2]):
        return False
    for x, y in zip(a[0], b[0]):
        if x[0] == 1 and y == [1]:
            continue
        if x != y:
            return False
    return True


# ------------------------------------------------------------------ judging
def spec_holds(case, obs, spec):
    if spec is None:
        return None
    if obs == ['factory-raises']:
        return False          # documented option values, yet the factory call raised: no session at all
    chain, attr_bad = obs[0], obs[1]
    if attr_bad:
        return False
    constrained = False
    for ob, sp in zip(chain, spec):
        if not sp:
            continue
        constrained = True
        new, created, start, results, end, fin = sp[0]
        if ob[0] != 0:
            return False                      # raised: the property demands a (new, empty) session instead
        s0, rs, s1, f = ob[1], ob[2], ob[3], ob[4]
        if s0[4] != new or s0[1][1:] != [created] or s0[0] != start:
            return False
        if rs != results or s1[0] != end:
            return False
        if s1[1][1:] != [created]:
            return False                      # creation time preserved through the request
        if f[0] != fin:
            return False
        if f[0] == 1 and len(f[1]) > SPEC_LIMIT:
            return False
    return True if constrained else None


def _decode(text):
    """bytes the real library decodes a cookie text to (None = refused before the signature check)"""
    try:
        b = text.encode('latin-1')
        return base64.urlsafe_b64decode(b + b'=' * (-len(b) % 4))
    except (binascii.Error, TypeError, ValueError):
        return None


_runner = []


def _spec_of(case):
    """specification of another case, from the extracted Coq development (classify has no runner of its own)"""
    from harness.common.main import Runner
    from harness.common.wire import canon
    if not _runner:
        _runner.append(Runner(os.path.join(_build.BUILD, ID, 'runner')))
    d = from_wire(case, _runner[0].one(to_wire(case)))
    return canon(d['spec']) if d.get('spec') is not None else None


def classify(case, obs, spec):
    """C10-ior-unwrapped: the deviation disappears when every `session |= m` is written `session.update(m)`.
    C10-lenient-base64-edit-accepted: every deviation disappears -- and the implementation's observations stay
    EXACTLY the same -- when each altered cookie text that the real base64 decoder maps to the same bytes as the
    cookie last set is replaced by that cookie itself."""
    if obs == ['factory-raises']:
        return None
    if any(op['op'] == 'ior' for r in case['reqs'] for op in r['ops']):
        c2 = json.loads(json.dumps(case))
        for r in c2['reqs']:
            for op in r['ops']:
                if op['op'] == 'ior':
                    op['op'] = 'update'
        try:
            if spec_holds(c2, run_impl(c2), spec) is True:
                return 'C10-ior-unwrapped'
        except Exception:
            pass
    try:
        c2 = json.loads(json.dumps(case))
        last, history, changed = None, [], False
        for r, r2, ob in zip(case['reqs'], c2['reqs'], obs[0]):
            if r['src']['kind'] in ALTERING:
                text = materialise(r['src'], last, history, case['opts'])
                if text is not None and last is not None and text != last:
                    d = _decode(text)
                    if d is not None and d == _decode(last):
                        r2['src'] = {'kind': 'last'}
                        changed = True
            if ob[0] == 0 and ob[4][0] == 1:
                last = ob[4][1]
                history.append(last)
        if changed:
            obs2 = run_impl(c2)
            if obs2 == obs and spec_holds(c2, obs2, _spec_of(c2)) is True:
                return 'C10-lenient-base64-edit-accepted'
    except Exception:
        pass
    return None


def nontrivial(case, obs):
    if obs == ['factory-raises']:
        return False
    chain = obs[0]
    seen_cookie = False
    for r, ob in zip(case['reqs'], chain):
        if seen_cookie and r['src']['kind'] not in ('none', 'garbage', 'forged'):
            return True
        if ob[0] == 0 and ob[4][0] == 1:
            seen_cookie = True
    return False


def kinds(case, obs):
    out = set()
    o = case['opts']
    for nm in ('timeout', 'reissue', 'max_age', 'soe'):
        v = opt(o, nm)
        ty = 'none' if v is None else type(v).__name__
        if nm in o and not o.get('defaults'):
            out.add('opt-%s-%s' % (nm, ty))
            if v is not None and not isinstance(v, str) and not v and nm != 'soe':
                out.add('opt-%s-falsy-but-set' % nm)
            if nm == 'soe' and not isinstance(v, bool):
                out.add('opt-soe-nonbool-%s' % ('truthy' if v else 'falsy'))
    if not o.get('defaults') and 'salt' in o:
        out.add('salt-%s' % ('none' if o['salt'] is None else 'empty' if o['salt'] == '' else 'default'
                             if o['salt'] == 'pyramid.session.' else 'custom'))
    out.add('serializer-%s' % (o.get('serializer') or 'default'))
    npos = 1 if o.get('defaults') else o.get('npos', 1)
    out.add('call-keywords-only' if npos == 1 else 'call-positional-%s' % ('2..8' if npos < 9 else npos))
    if obs == ['factory-raises']:
        out.add('factory-raises')
        return sorted(out)
    to_eff, ri_eff = eff_int(opt(o, 'timeout')), eff_int(opt(o, 'reissue'))
    out.add('timeout-%s' % ('default' if o.get('defaults') else 'none' if to_eff is None else 'set'))
    out.add('reissue-%s' % ('default' if o.get('defaults') else 'none' if ri_eff is None else
                            'zero' if ri_eff == 0 else 'set'))
    out.add('len%d' % len(case['reqs']))
    out.add('clock-fractional' if any(r['t'] != int(r['t']) or any(op['t'] != int(op['t']) for op in r['ops'])
                                      for r in case['reqs']) else 'clock-whole-seconds')
    out.add('via-router' + ('-set_session_factory' if case.get('router') == 'setter' else '') if case.get('router') else 'via-factory')
    prev = None
    for r, ob in zip(case['reqs'], obs[0]):
        k = r['src']['kind']
        out.add('src-' + k)
        if ob[0] != 0:
            out.add('ctor-raises')
            continue
        s0, rs, s1, f = ob[1], ob[2], ob[3], ob[4]
        start = 'new' if s0[4] else ('loaded-nonempty' if s0[0][1] else 'loaded-empty')
        out.add('start-' + start)
        if k not in ('none', 'last', 'forged', 'stale'):
            out.add('tamper-%s-%s' % (k, 'rejected' if s0[4] else 'accepted'))
        if k == 'last' and prev is not None and not s0[4]:
            to = to_eff
            if to is not None and to != 'raises':
                d = r['t'] - prev
                out.add('age-fractional' if d != int(d) else 'age-whole')
                out.add('age-at-timeout' if d == to else 'age-timeout+1tick' if d == to + 1.0 / TICK else
                        'age-past-timeout' if d > to else 'age-within-timeout')
        out.add('fin-%s' % {0: 'none', 1: 'cookie', 2: 'oversize'}.get(f[0], 'other'))
        if f[0] == 1:
            out.add('cookie-len-%s' % ('at-limit' if len(f[1]) == SPEC_LIMIT else
                                       'near-limit' if len(f[1]) > SPEC_LIMIT - 8 else 'small'))
            prev = s1[2][1] if s1[2][0] == 2 else s1[2][1] / float(TICK)
        if f[0] == 0 and s1[5]:
            out.add('dirty-but-suppressed-by-exception')
        if r.get('exc'):
            out.add('exc')
        if r.get('cbs'):
            out.add('other-callbacks-%s' % ('before-and-after' if r['cbs'][0] and r['cbs'][1] else
                                            'before' if r['cbs'][0] else 'after' if r['cbs'][1] else 'none'))
        for op, x in zip(r['ops'], rs):
            out.add('op-' + op['op'])
            if op.get('how'):
                out.add('op-%s-%s' % (op['op'], op['how']))
            if op.get('ksub'):
                out.add('key-str-subclass')
            if op['op'] == 'flash':
                out.add('flash-allow_duplicate-%s' % ('default' if 'dup' not in op else op['dup']))
                out.add('flash-queue-%s' % ('default' if 'q' not in op else 'given'))
            if op['op'] in ('flash', 'pop_flash', 'peek_flash') and op.get('kw'):
                out.add('flash-api-by-keyword')
            if op['op'] in ('get', 'setdefault') and 'v' not in op:
                out.add('op-%s-default-omitted' % op['op'])
            if x[0] == 1:
                out.add('op-raises-%s' % {1: 'KeyError', 2: 'AttributeError'}.get(x[1], '?'))
        if not s1[5] and rs:
            out.add('accessed-not-dirty')
    return sorted(out)


def describe(case):
    return case


from harness.c10.gen import generate, valid, targeted   # noqa: E402,F401


def explain(item):
    """which request of the chain deviates from the store semantics, and in which field"""
    out = []
    try:
        if item['impl'] == ['factory-raises']:
            return ['the factory call raised although every option value is one the documentation accepts']
        chain, attr_bad = item['impl'][0], item['impl'][1]
        if attr_bad:
            out.append('Set-Cookie attributes differ from the options: %s' % attr_bad)
        for i, (ob, sp) in enumerate(zip(chain, item.get('spec') or [])):
            if not sp:
                continue
            new, created, start, results, end, fin = sp[0]
            if ob[0] != 0:
                out.append('request %d: constructing the session raised (%s); expected a session' % (i, ob[1:]))
                continue
            s0, rs, s1, f = ob[1], ob[2], ob[3], ob[4]
            for label, got, want in (('new', s0[4], new), ('created', s0[1][1:], [created]), ('data at start', s0[0], start),
                                     ('results', rs, results), ('data at end', s1[0], end),
                                     ('created at end', s1[1][1:], [created]),
                                     ('cookie (0 none, 1 set, 2 refused)', f[0], fin)):
                if got != want:
                    out.append('request %d: %s is %s, the property demands %s' % (
                        i, label, json.dumps(got)[:200], json.dumps(want)[:200]))
    except Exception as e:
        out.append('explain failed: %r' % (e,))
    return out
