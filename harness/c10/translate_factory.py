"""C10 translator, factory layer: the code AROUND the CookieSession class, regenerated on every run into
coq/Gen/Prog_C10.v (appended to the output of translate.py):

  _CanonicalBase64Serializer.loads   -> gen_canon_loads  (O) (inner : text -> option jv) (bstruct : text) : option jv
  _CanonicalBase64Serializer.dumps   -> gen_canon_dumps  (inner : jv -> text) (appstruct : jv) : text
  _CanonicalBase64Serializer.__init__   checked literally (self.serializer = serializer)
  SignedCookieSessionFactory         -> gen_signed_factory (a : fargs) : bargs   (which serializer object is built from
                                        which arguments, which argument is handed to which parameter of
                                        BaseCookieSessionFactory)
  class-level option conversion of CookieSession (_cookie_max_age, _timeout, _reissue_time, _cookie_on_exception)
                                     -> gen_config (b : bargs) : cres

Fail-closed like translate.py: anything outside the subset / table is a Problem (broken tie + stored fallback).

=== CONTROL FLOW ===
  assignments to locals (substitution), if / else with early return / raise, `X is [not] None`, conditional
  expressions, try/except whose handler re-raises ValueError, keyword / positional argument binding.
=== PRIMITIVE TABLE (trusted) ===
  b'=' * (-len(x) % 4)                          the padding of x
  base64.urlsafe_b64decode(x + <padding of x>)  unb64 O x      None = binascii.Error (a ValueError)
  base64.urlsafe_b64encode(r).rstrip(b'=')      b64 O r
  a != b, a == b on bytes                       text_eqb
  raise ValueError(..)                          None  (CookieSession.__init__ catches ValueError)
  self.serializer.loads(x) / .dumps(x)          inner x
  JSONSerializer()                              the JSON serializer (deser / ser of the oracle record)
  SignedSerializer(secret, salt, hashalg, serializer=<JSON>)   SSigned secret salt  (hashalg selects mac / ds of O)
  _CanonicalBase64Serializer(s)                 SCanon s
  int(x)                                        oint x   (may raise TypeError / ValueError: the factory call raises)
  x / not x  as a condition on an option value  py_truth x
  x is None                                     is_cnone x
"""
import ast

from harness.c10.translate import Problem, u

TRANSLATED = [
    'pyramid/session.py:_CanonicalBase64Serializer.__init__',
    'pyramid/session.py:_CanonicalBase64Serializer.dumps',
    'pyramid/session.py:_CanonicalBase64Serializer.loads',
    'pyramid/session.py:SignedCookieSessionFactory',
]

SIGNED_PARAMS = ['secret', 'cookie_name', 'max_age', 'path', 'domain', 'secure', 'httponly', 'samesite',
                 'set_on_exception', 'timeout', 'reissue_time', 'hashalg', 'salt', 'serializer']
BASE_PARAMS = ['serializer', 'cookie_name', 'max_age', 'path', 'domain', 'secure', 'httponly', 'samesite', 'timeout',
               'reissue_time', 'set_on_exception']
PASS = ('cookie_name', 'path', 'domain', 'secure', 'httponly', 'samesite')
ATTR_FIELD = {'cookie_name': 'a_name', 'path': 'a_path', 'domain': 'a_domain', 'secure': 'a_secure',
              'httponly': 'a_httponly', 'samesite': 'a_samesite'}
MODELLED = {'max_age': 'max_age', 'timeout': 'timeout', 'reissue_time': 'reissue', 'set_on_exception': 'soe'}


def _body(fn):
    return [b for b in fn.body if not (isinstance(b, ast.Expr) and isinstance(b.value, ast.Constant))]


def _is_none(n):
    return isinstance(n, ast.Constant) and n.value is None


def _none_test(n):
    """(`X is None` -> (X, True)); (`X is not None` -> (X, False)); else None"""
    if isinstance(n, ast.Compare) and len(n.ops) == 1 and isinstance(n.ops[0], (ast.Is, ast.IsNot)) \
            and _is_none(n.comparators[0]):
        return n.left, isinstance(n.ops[0], ast.Is)
    return None


# ------------------------------------------------------------------------------------------ canonical serializer
class Canon:
    def __init__(self, fn):
        self.fn = fn
        self.n = 0

    def fresh(self):
        self.n += 1
        return 'raw%d' % self.n

    def translate(self):
        fn = self.fn
        a = fn.args
        names = [x.arg for x in a.args]
        if len(names) != 2 or a.vararg or a.kwarg or a.kwonlyargs or a.defaults or fn.decorator_list:
            raise Problem('expected def loads(self, bstruct)')
        self.self_ = names[0]
        env = {names[1]: ('bstruct', 'BYTES')}
        return self.block(_body(fn), env, lambda e: self._end())

    def _end(self):
        raise Problem('loads can end without return / raise (returns None: a JSON null)')

    def block(self, stmts, env, k):
        if not stmts:
            return k(env)
        s, rest = stmts[0], stmts[1:]

        def k_next(e2):
            return self.block(rest, e2, k)
        if isinstance(s, ast.Pass):
            return k_next(env)
        if isinstance(s, ast.Assign) and len(s.targets) == 1 and isinstance(s.targets[0], ast.Name):
            return self.bind(s.value, env, lambda e2, res: k_next(dict(e2, **{s.targets[0].id: res})))
        if isinstance(s, ast.Raise):
            return self.raise_(s)
        if isinstance(s, ast.Return):
            if s.value is None:
                raise Problem('bare return in loads')
            return self.bind(s.value, env, lambda e2, res: self.ret(res))
        if isinstance(s, ast.If):
            t, ty = self.expr(s.test, env)
            if ty != 'B':
                raise Problem('condition of a %s: %s' % (ty, u(s.test)))
            return 'if %s\nthen %s\nelse %s' % (t, self.block(list(s.body), env, k_next),
                                                self.block(list(s.orelse), env, k_next))
        if isinstance(s, ast.Try):
            if s.orelse or s.finalbody or len(s.handlers) != 1:
                raise Problem('try statement outside the subset')
            h = s.handlers[0]
            hb = [b for b in h.body if not isinstance(b, ast.Pass)]
            if len(hb) != 1 or not isinstance(hb[0], ast.Raise) or self.raise_(hb[0]) != 'None':
                raise Problem('except handler must re-raise ValueError: %s' % u(h))
            tys = [h.type] if not isinstance(h.type, ast.Tuple) else list(h.type.elts)
            for t in tys:
                if u(t) not in ('binascii.Error', 'TypeError', 'ValueError'):
                    raise Problem('handler for %s is outside the table' % u(t))
            # every raising primitive of the table raises a ValueError subclass; the handler turns it into a
            # ValueError; uncaught it still is one: the result is None either way
            return self.block(list(s.body), env, k_next)
        raise Problem('statement outside the subset: %s' % u(s))

    def raise_(self, s):
        if isinstance(s.exc, ast.Call) and u(s.exc.func) == 'ValueError' and s.cause is None:
            return 'None'
        if isinstance(s.exc, ast.Name) and s.exc.id == 'ValueError' and s.cause is None:
            return 'None'
        raise Problem('raise outside the table: %s' % u(s))

    def ret(self, res):
        t, ty = res
        if ty != 'JVO':
            raise Problem('return of a %s (expected self.serializer.loads(..))' % ty)
        return t

    def bind(self, n, env, k):
        """expression that may contain the raising primitive"""
        if isinstance(n, ast.Call) and u(n.func) == 'base64.urlsafe_b64decode' and len(n.args) == 1 and not n.keywords:
            t, ty = self.expr(n.args[0], env)
            if ty != 'PADDED':
                raise Problem('urlsafe_b64decode of a %s (expected x + padding of x)' % ty)
            r = self.fresh()
            return 'match unb64 O %s with\n| None => None\n| Some %s => %s\nend' % (t, r, k(env, (r, 'RAW')))
        return k(env, self.expr(n, env))

    def expr(self, n, env):
        if isinstance(n, ast.Name):
            if n.id in env:
                return env[n.id]
            raise Problem('name %s is unbound here or outside the table' % n.id)
        if isinstance(n, ast.BinOp) and isinstance(n.op, ast.Mult):
            # b'=' * (-len(x) % 4)
            lit, cnt = n.left, n.right
            if isinstance(lit, ast.Constant) and lit.value == b'=' and isinstance(cnt, ast.BinOp) \
                    and isinstance(cnt.op, ast.Mod) and isinstance(cnt.right, ast.Constant) and cnt.right.value == 4 \
                    and isinstance(cnt.left, ast.UnaryOp) and isinstance(cnt.left.op, ast.USub) \
                    and isinstance(cnt.left.operand, ast.Call) and u(cnt.left.operand.func) == 'len' \
                    and len(cnt.left.operand.args) == 1:
                t, ty = self.expr(cnt.left.operand.args[0], env)
                if ty == 'BYTES':
                    return t, 'PAD'
            raise Problem('multiplication outside the table: %s' % u(n))
        if isinstance(n, ast.BinOp) and isinstance(n.op, ast.Add):
            a, aty = self.expr(n.left, env)
            b, bty = self.expr(n.right, env)
            if aty == 'BYTES' and bty == 'PAD' and a == b:
                return a, 'PADDED'
            raise Problem('+ outside the table: %s' % u(n))
        if isinstance(n, ast.Call) and u(n.func).endswith('.rstrip') and len(n.args) == 1 and not n.keywords \
                and isinstance(n.args[0], ast.Constant) and n.args[0].value == b'=' \
                and isinstance(n.func.value, ast.Call) and u(n.func.value.func) == 'base64.urlsafe_b64encode' \
                and len(n.func.value.args) == 1 and not n.func.value.keywords:
            t, ty = self.expr(n.func.value.args[0], env)
            if ty != 'RAW':
                raise Problem('urlsafe_b64encode of a %s' % ty)
            return '(b64 O %s)' % t, 'BYTES'
        if isinstance(n, ast.Compare) and len(n.ops) == 1 and isinstance(n.ops[0], (ast.Eq, ast.NotEq)):
            a, aty = self.expr(n.left, env)
            b, bty = self.expr(n.comparators[0], env)
            if aty != 'BYTES' or bty != 'BYTES':
                raise Problem('comparison between a %s and a %s: %s' % (aty, bty, u(n)))
            t = '(text_eqb %s %s)' % (a, b)
            return ('(negb %s)' % t if isinstance(n.ops[0], ast.NotEq) else t), 'B'
        if isinstance(n, ast.UnaryOp) and isinstance(n.op, ast.Not):
            t, ty = self.expr(n.operand, env)
            if ty != 'B':
                raise Problem('not of a %s' % ty)
            return '(negb %s)' % t, 'B'
        if isinstance(n, ast.Call) and u(n.func) == '%s.serializer.loads' % self.self_ and len(n.args) == 1 \
                and not n.keywords:
            t, ty = self.expr(n.args[0], env)
            if ty != 'BYTES' or t != 'bstruct':
                raise Problem('self.serializer.loads of %s (a %s): expected the presented bytes' % (u(n.args[0]), ty))
            return '(inner %s)' % t, 'JVO'
        raise Problem('expression outside the table: %s' % u(n))


def canon_class(tree, problems):
    """-> (text of gen_canon_loads / gen_canon_dumps, present?)"""
    cls = [c for c in tree.body if isinstance(c, ast.ClassDef) and c.name == '_CanonicalBase64Serializer']
    loads_t = dumps_t = None
    if len(cls) == 1:
        c = cls[0]
        meths = {b.name: b for b in c.body if isinstance(b, ast.FunctionDef)}
        other = [b for b in _body(c) if not isinstance(b, ast.FunctionDef)]
        if c.bases or c.decorator_list or c.keywords or other or sorted(meths) != ['__init__', 'dumps', 'loads']:
            problems.append('translator: _CanonicalBase64Serializer: unexpected bases / members %s' % sorted(meths))
        ini = meths.get('__init__')
        if ini is None or [x.arg for x in ini.args.args][1:] != ['serializer'] or ini.args.defaults or len(_body(ini)) != 1 \
                or u(_body(ini)[0]) != '%s.serializer = serializer' % ini.args.args[0].arg:
            problems.append('translator: _CanonicalBase64Serializer.__init__ is not `self.serializer = serializer`')
        d = meths.get('dumps')
        if d is not None:
            names = [x.arg for x in d.args.args]
            if len(names) == 2 and not d.args.defaults and len(_body(d)) == 1 and \
                    u(_body(d)[0]) == 'return %s.serializer.dumps(%s)' % (names[0], names[1]):
                dumps_t = 'inner appstruct'
            else:
                problems.append('translator: _CanonicalBase64Serializer.dumps is not `return self.serializer.dumps(x)`')
        else:
            problems.append('translator: _CanonicalBase64Serializer.dumps missing')
        ld = meths.get('loads')
        if ld is not None:
            try:
                from harness.c10.translate import indent
                loads_t = indent(Canon(ld).translate())
            except Problem as e:
                problems.append('translator: _CanonicalBase64Serializer.loads: %s' % e)
        else:
            problems.append('translator: _CanonicalBase64Serializer.loads missing')
    elif len(cls) > 1:
        problems.append('translator: _CanonicalBase64Serializer defined twice')
    return loads_t, dumps_t, len(cls) == 1


# ------------------------------------------------------------------------------------------ SignedCookieSessionFactory
def bind_args(call, params, what):
    """positional + keyword arguments -> {param: node}"""
    if any(isinstance(a, ast.Starred) for a in call.args) or any(kw.arg is None for kw in call.keywords):
        raise Problem('* / ** arguments in the call of %s' % what)
    if len(call.args) > len(params):
        raise Problem('too many positional arguments for %s' % what)
    out = dict(zip(params, call.args))
    for kw in call.keywords:
        if kw.arg not in params:
            raise Problem('%s has no parameter %s' % (what, kw.arg))
        if kw.arg in out:
            raise Problem('%s: %s given twice' % (what, kw.arg))
        out[kw.arg] = kw.value
    return out


def cfgv_lit(v):
    if v is None:
        return 'CNone'
    if isinstance(v, bool):
        return '(CBool %s)' % ('true' if v else 'false')
    if isinstance(v, int):
        return '(CInt (%d)%%Z)' % v
    if isinstance(v, str):
        from harness.c10.translate import coq_text
        return '(CStr %s)' % coq_text(v)
    raise Problem('default %r outside the table' % (v,))


class SignedFactory:
    def __init__(self, fn, base_defaults):
        self.fn, self.base_defaults = fn, base_defaults

    def translate(self):
        fn = self.fn
        a = fn.args
        names = [x.arg for x in a.args]
        # the ORDER of the parameters is translated (gen_sig: positional callers), as are the defaults (gen_defaults);
        # only another SET of parameters, * / ** / keyword-only / positional-only markers are outside the subset
        if sorted(names) != sorted(SIGNED_PARAMS) or a.vararg or a.kwarg or a.kwonlyargs or fn.decorator_list \
                or getattr(a, 'posonlyargs', []):
            raise Problem('parameter list of SignedCookieSessionFactory changed: %s' % names)
        self.sig = [SIGNED_PARAMS.index(n) for n in names]
        nd = len(names) - len(a.defaults)
        dflt = {}
        for n, dnode in zip(names[nd:], a.defaults):
            try:
                dflt[n] = 'Some ' + cfgv_lit(ast.literal_eval(dnode))
            except (ValueError, SyntaxError):
                raise Problem('default of %s outside the table: %s' % (n, u(dnode)))
        self.defaults = [dflt.get(n, 'None') for n in SIGNED_PARAMS]
        env = {'secret': ('fa_secret a', 'SECRET'), 'salt': ('fa_salt a', 'SALT'), 'hashalg': ('hashalg', 'HASHALG'),
               'serializer': ('serializer', 'SERARG'), 'max_age': ('fa_max_age a', 'CFGV'), 'timeout': ('fa_timeout a', 'CFGV'),
               'reissue_time': ('fa_reissue a', 'CFGV'), 'set_on_exception': ('fa_soe a', 'CFGV')}
        for p in PASS:
            env[p] = ('(%s (fa_attrs a))' % ATTR_FIELD[p], 'CFGV')
        return self.block(_body(fn), env)

    def block(self, stmts, env):
        if not stmts:
            raise Problem('SignedCookieSessionFactory can end without return')
        s, rest = stmts[0], stmts[1:]
        if isinstance(s, ast.Pass):
            return self.block(rest, env)
        if isinstance(s, ast.Assign) and len(s.targets) == 1 and isinstance(s.targets[0], ast.Name):
            return self.block(rest, dict(env, **{s.targets[0].id: self.expr(s.value, env)}))
        if isinstance(s, ast.If):
            nt = _none_test(s.test)
            if nt is None:
                raise Problem('condition outside the table: %s' % u(s.test))
            t, ty = self.expr(nt[0], env)
            if ty == 'SERARG':
                # the caller's serializer= : None (then the code must supply the JSON serializer) or a custom object
                # with JSON semantics (world assumption) -- both paths must build the same thing
                e_none, e_some = dict(env), dict(env, **{'$ser_not_none': ('', 'FLAG')})
                r1 = self.block(list(s.body) + rest, e_none if nt[1] else e_some)
                r2 = self.block(list(s.orelse) + rest, e_some if nt[1] else e_none)
                if r1 != r2:
                    raise Problem('serializer=None and a given serializer lead to different factories')
                return r1
            if ty == 'NONE':
                taken = nt[1]
            elif ty in ('SER', 'SERJ'):
                taken = not nt[1]
            else:
                raise Problem('`is None` test of a %s: %s' % (ty, u(s.test)))
            return self.block((list(s.body) if taken else list(s.orelse)) + rest, env)
        if isinstance(s, ast.Return):
            return self.ret(s.value, env)
        raise Problem('statement outside the subset: %s' % u(s))

    def expr(self, n, env):
        if isinstance(n, ast.Name):
            if n.id in env:
                return env[n.id]
            raise Problem('name %s is unbound here or outside the table' % n.id)
        if _is_none(n):
            return 'None', 'NONE'
        if isinstance(n, ast.IfExp):
            nt = _none_test(n.test)
            if nt is not None:
                t, ty = self.expr(nt[0], env)
                if ty == 'SERARG':
                    a, b = self.expr(n.body, env), self.expr(n.orelse, env)
                    if {a[1], b[1]} <= {'SERJ', 'SERARG'}:
                        return 'SJson', 'SERJ'
                    raise Problem('conditional expression outside the table: %s' % u(n))
                if ty == 'NONE':
                    return self.expr(n.body if nt[1] else n.orelse, env)
                if ty in ('SER', 'SERJ'):
                    return self.expr(n.orelse if nt[1] else n.body, env)
            raise Problem('conditional expression outside the table: %s' % u(n))
        if isinstance(n, ast.Call):
            f = u(n.func)
            if f == 'JSONSerializer' and not n.args and not n.keywords:
                return 'SJson', 'SERJ'
            if f == 'SignedSerializer':
                b = bind_args(n, ['secret', 'salt', 'hashalg', 'serializer'], 'SignedSerializer')
                want = {'secret': 'SECRET', 'salt': 'SALT', 'hashalg': 'HASHALG', 'serializer': 'SERJ'}
                for p, ty in want.items():
                    if p not in b:
                        raise Problem('SignedSerializer: argument %s is not passed (WebOb default would apply)' % p)
                    got = self.expr(b[p], env)
                    if p == 'serializer' and got[1] == 'SERARG':
                        # the parameter itself, unchecked: only fine where it is known not to be None
                        if not env.get('$ser_not_none'):
                            raise Problem('SignedSerializer: serializer may still be None here')
                        continue
                    if got[1] != ty:
                        raise Problem('SignedSerializer: %s=%s is a %s, expected the factory\'s %s' % (
                            p, u(b[p]), got[1], ty.lower()))
                return '(SSigned (fa_secret a) (fa_salt a))', 'SER'
            if f == '_CanonicalBase64Serializer' and len(n.args) == 1 and not n.keywords:
                t, ty = self.expr(n.args[0], env)
                if ty != 'SER':
                    raise Problem('_CanonicalBase64Serializer of a %s' % ty)
                return '(SCanon %s)' % t, 'SER'
        raise Problem('expression outside the table: %s' % u(n))

    def ret(self, n, env):
        if not (isinstance(n, ast.Call) and u(n.func) == 'BaseCookieSessionFactory'):
            raise Problem('return outside the table: %s' % u(n))
        b = bind_args(n, BASE_PARAMS, 'BaseCookieSessionFactory')
        if 'serializer' not in b:
            raise Problem('BaseCookieSessionFactory: serializer not passed')
        t, ty = self.expr(b['serializer'], env)
        if ty != 'SER':
            raise Problem('BaseCookieSessionFactory: serializer is a %s' % ty)
        fields = ['b_ser := %s' % t.strip()]
        for p, short in MODELLED.items():
            if p in b:
                t, ty = self.expr(b[p], env)
                if ty == 'NONE':
                    t = 'CNone'
                elif ty != 'CFGV':
                    raise Problem('BaseCookieSessionFactory: %s=%s is a %s' % (p, u(b[p]), ty))
            else:
                t = cfgv_lit(self.base_defaults.get(p))
            fields.append('b_%s := %s' % (short, t))
        # the cookie attributes: whichever value is handed to each parameter (crossed ones are translated as crossed)
        at = []
        for p in PASS:
            if p in b:
                t, ty = self.expr(b[p], env)
                if ty == 'NONE':
                    t = 'CNone'
                elif ty != 'CFGV':
                    raise Problem('BaseCookieSessionFactory: %s=%s is a %s' % (p, u(b[p]), ty))
            else:
                t = cfgv_lit(self.base_defaults.get(p))
            at.append('%s := %s' % (ATTR_FIELD[p], t))
        fields.append('b_attrs := {| ' + ';\n                  '.join(at) + ' |}')
        return '{| ' + ';\n     '.join(fields) + ' |}'


# ------------------------------------------------------------------------------------------ class-level conversion
CONFIG_ATTRS = {'_cookie_max_age': 'm', '_reissue_time': 'r', '_timeout': 't'}       # canonical (sorted) order
CONFIG_ATTR = {'_cookie_name': 'a_name', '_cookie_path': 'a_path', '_cookie_domain': 'a_domain',
               '_cookie_secure': 'a_secure', '_cookie_httponly': 'a_httponly', '_cookie_samesite': 'a_samesite'}
CONFIG_PARAM = {'max_age': 'b_max_age b', 'timeout': 'b_timeout b', 'reissue_time': 'b_reissue b',
                'set_on_exception': 'b_soe b'}


class Config:
    def expr(self, n, known_none):
        """-> term of type ores"""
        if _is_none(n):
            return '(OOk None)'
        if isinstance(n, ast.Name):
            if n.id in known_none:
                return '(OOk None)'
            raise Problem('the raw option value %s is stored where it is not known to be None' % n.id)
        if isinstance(n, ast.Call) and u(n.func) == 'int' and len(n.args) == 1 and not n.keywords \
                and isinstance(n.args[0], ast.Name) and n.args[0].id in CONFIG_PARAM:
            return '(oint (%s))' % CONFIG_PARAM[n.args[0].id]
        if isinstance(n, ast.IfExp):
            neg, t = False, n.test
            while isinstance(t, ast.UnaryOp) and isinstance(t.op, ast.Not):
                neg, t = not neg, t.operand
            nt = _none_test(t)
            if nt is not None and isinstance(nt[0], ast.Name) and nt[0].id in CONFIG_PARAM:
                x = nt[0].id
                is_none_branch, other = (n.body, n.orelse) if (nt[1] != neg) else (n.orelse, n.body)
                return '(if is_cnone (%s) then %s else %s)' % (
                    CONFIG_PARAM[x], self.expr(is_none_branch, known_none | {x}), self.expr(other, known_none - {x}))
            if isinstance(t, ast.Name) and t.id in CONFIG_PARAM:
                a, b = (n.orelse, n.body) if neg else (n.body, n.orelse)
                return '(if py_truth (%s) then %s else %s)' % (
                    CONFIG_PARAM[t.id], self.expr(a, known_none), self.expr(b, known_none))
            raise Problem('condition outside the table: %s' % u(n.test))
        raise Problem('expression outside the table: %s' % u(n))

    def translate(self, cls):
        vals = {}
        for st in cls.body:
            if isinstance(st, ast.Assign) and len(st.targets) == 1 and isinstance(st.targets[0], ast.Name):
                nm = st.targets[0].id
                if nm in CONFIG_ATTRS or nm == '_cookie_on_exception' or nm in CONFIG_ATTR:
                    if nm in vals:
                        raise Problem('%s is assigned twice in the class body' % nm)
                    vals[nm] = st.value
        for nm in list(CONFIG_ATTRS) + ['_cookie_on_exception'] + list(CONFIG_ATTR):
            if nm not in vals:
                raise Problem('class attribute %s not found' % nm)
        soe = vals['_cookie_on_exception']
        if not (isinstance(soe, ast.Name) and soe.id == 'set_on_exception'):
            raise Problem('_cookie_on_exception = %s (expected the raw option set_on_exception)' % u(soe))
        out = ''
        for nm, v in CONFIG_ATTRS.items():
            out += 'cfg_bind %s (fun %s =>\n' % (self.expr(vals[nm], frozenset()), v)
        at = []
        for nm, field in CONFIG_ATTR.items():
            v = vals[nm]
            if not (isinstance(v, ast.Name) and v.id in ATTR_FIELD):
                raise Problem('%s = %s (expected one of the raw cookie options)' % (nm, u(v)))
            at.append('%s := %s (b_attrs b)' % (field, ATTR_FIELD[v.id]))
        out += ('CfgOk {| c_max_age := m; c_timeout := t; c_reissue := r; c_soe := b_soe b;\nc_attrs := {| '
                + '; '.join(at) + ' |} |}' + ')' * len(CONFIG_ATTRS))
        return out


DOC_SIG = '  doc_sig'
FALLBACK = {
    'gen_sig': '  doc_sig',
    'gen_defaults': '  doc_defaults',
    'gen_canon_loads': '  canon_loads O inner bstruct',
    'gen_canon_dumps': '  inner appstruct',
    'gen_signed_factory': '  signed_factory a',
    'gen_config': '  config b',
}
SIGS = {
    'gen_sig': ': list nat',
    'gen_defaults': ': list (option cfgv)',
    'gen_canon_loads': '(O : oracles) (inner : text -> option jv) (bstruct : text) : option jv',
    'gen_canon_dumps': '(inner : jv -> text) (appstruct : jv) : text',
    'gen_signed_factory': '(a : fargs) : bargs',
    'gen_config': '(b : bargs) : cres',
}


def translate_source(text, base_defaults):
    """-> (coq text, problems, summary, canonical?)"""
    problems, summary, bodies = [], {}, {}
    canonical = False
    try:
        tree = ast.parse(text)
    except SyntaxError as e:
        tree = None
        problems.append('translator: cannot parse session.py: %s' % e)
    if tree is not None:
        loads_t, dumps_t, present = canon_class(tree, problems)
        if present:
            bodies['gen_canon_loads'], bodies['gen_canon_dumps'] = loads_t, dumps_t
        else:
            summary['gen_canon_loads'] = summary['gen_canon_dumps'] = 'class absent (reference text emitted, unused)'
        if not any(isinstance(st, ast.Import) and [a.name for a in st.names] == ['base64'] for st in tree.body) and present:
            problems.append('translator: `import base64` missing')
        fns = [c for c in tree.body if isinstance(c, ast.FunctionDef) and c.name == 'SignedCookieSessionFactory']
        if len(fns) != 1:
            problems.append('translator: SignedCookieSessionFactory not found (exactly once)')
        else:
            try:
                sf = SignedFactory(fns[0], base_defaults)
                bodies['gen_signed_factory'] = '  ' + sf.translate()
                bodies['gen_sig'] = '  [' + '; '.join('%d' % i for i in sf.sig) + ']%nat'
                bodies['gen_defaults'] = '  [' + ';\n   '.join(sf.defaults) + ']'
                canonical = 'b_ser := (SCanon ' in bodies['gen_signed_factory']
                if canonical and not present:
                    raise Problem('_CanonicalBase64Serializer is used but not defined')
            except Problem as e:
                problems.append('translator: SignedCookieSessionFactory: %s' % e)
                canonical = present
        base = [c for c in tree.body if isinstance(c, ast.FunctionDef) and c.name == 'BaseCookieSessionFactory']
        cls = [c for c in (base[0].body if len(base) == 1 else []) if isinstance(c, ast.ClassDef) and c.name == 'CookieSession']
        if len(cls) != 1:
            problems.append('translator: CookieSession class not found')
        else:
            try:
                from harness.c10.translate import indent
                bodies['gen_config'] = indent(Config().translate(cls[0]))
            except Problem as e:
                problems.append('translator: CookieSession option conversion: %s' % e)
    out = []
    for gen in ('gen_canon_loads', 'gen_canon_dumps', 'gen_signed_factory', 'gen_config', 'gen_sig', 'gen_defaults'):
        body = bodies.get(gen)
        if body is None:
            summary.setdefault(gen, 'FALLBACK (reference model text)')
            body = FALLBACK[gen]
        else:
            summary[gen] = 'translated from source (%d lines of Gallina)' % (body.count('\n') + 1)
        out.append('Definition %s %s :=\n%s.\n' % (gen, SIGS[gen], body))
    return '\n'.join(out), problems, summary, canonical


# ------------------------------------------------------------------------------------------ request.py plumbing
PLUMBING_TRANSLATED = [
    'pyramid/request.py:CallbackMethodsMixin.response_callbacks',
    'pyramid/request.py:CallbackMethodsMixin.add_response_callback',
    'pyramid/request.py:CallbackMethodsMixin._process_response_callbacks',
    'pyramid/request.py:Request.session',
]
PL_FALLBACK = {
    'gen_add_cb': 'Definition gen_add_cb (q : list cb) (callback : cb) : list cb :=\n  q ++ [callback].\n',
    'gen_process_cbs': ('Fixpoint gen_process_cbs {A} (call : cb -> A -> A) (q : list cb) (a : A) : A :=\n'
                        '  match q with [] => a | callback :: q\' => gen_process_cbs call q\' (call callback a) end.\n'),
    'gen_request_session': ('Definition gen_request_session {A} (factory : option (unit -> A)) : option A :=\n'
                            '  match factory with None => None | Some f => Some (f tt) end.\n'),
}


def _find(tree, qual):
    node = tree
    for part in qual.split('.'):
        nxt = [c for c in node.body if isinstance(c, (ast.FunctionDef, ast.ClassDef)) and c.name == part]
        if len(nxt) != 1:
            return None
        node = nxt[0]
    return node


def _tr_add_cb(fn):
    """def add_response_callback(self, callback): self.response_callbacks.append(callback)"""
    names = [x.arg for x in fn.args.args]
    b = _body(fn)
    if len(names) != 2 or fn.args.defaults or fn.args.vararg or fn.args.kwarg or fn.decorator_list or len(b) != 1:
        raise Problem('expected one statement and the parameters (self, callback)')
    for meth, term in (('append', 'q ++ [callback]'), ('appendleft', 'callback :: q')):
        if u(b[0]) == '%s.response_callbacks.%s(%s)' % (names[0], meth, names[1]):
            return 'Definition gen_add_cb (q : list cb) (callback : cb) : list cb :=\n  %s.\n' % term
    raise Problem('statement outside the table: %s' % u(b[0]))


def _tr_process(fn):
    """callbacks = self.response_callbacks; while callbacks: callback = callbacks.popleft(); callback(self, response)
    (the alias is optional; `while len(q):` / `while len(q) > 0:` are the same test)"""
    names = [x.arg for x in fn.args.args]
    if len(names) != 2 or fn.args.defaults or fn.args.vararg or fn.args.kwarg or fn.decorator_list:
        raise Problem('expected the parameters (self, response)')
    b = _body(fn)
    q = '%s.response_callbacks' % names[0]
    if len(b) == 2 and isinstance(b[0], ast.Assign) and len(b[0].targets) == 1 and isinstance(b[0].targets[0], ast.Name) \
            and u(b[0].value) == q:
        q = b[0].targets[0].id
        b = b[1:]
    if len(b) != 1 or not isinstance(b[0], ast.While) or b[0].orelse:
        raise Problem('expected a single while loop over the callback queue')
    w = b[0]
    if u(w.test) not in (q, 'len(%s)' % q, 'len(%s) > 0' % q, 'len(%s) != 0' % q):
        raise Problem('loop condition outside the table: %s' % u(w.test))
    wb = _body(w)
    if len(wb) == 2 and isinstance(wb[0], ast.Assign) and len(wb[0].targets) == 1 and isinstance(wb[0].targets[0], ast.Name) \
            and u(wb[0].value) == '%s.popleft()' % q and u(wb[1]) == '%s(%s, %s)' % (wb[0].targets[0].id, names[0], names[1]):
        return PL_FALLBACK['gen_process_cbs']
    if len(wb) == 1 and u(wb[0]) == '%s.popleft()(%s, %s)' % (q, names[0], names[1]):
        return PL_FALLBACK['gen_process_cbs']
    raise Problem('loop body outside the table (expected: take the OLDEST callback off the queue, call it with '
                  '(self, response)): %s' % '; '.join(u(x) for x in wb))


def _tr_session(fn):
    """@reify def session(self): factory = self.registry.queryUtility(ISessionFactory); if factory is None: raise
    AttributeError(..); return factory(self)"""
    names = [x.arg for x in fn.args.args]
    if len(names) != 1 or [u(d) for d in fn.decorator_list] != ['reify']:
        raise Problem('expected @reify def session(self)')
    me = names[0]
    b = _body(fn)
    lookup = '%s.registry.queryUtility(ISessionFactory)' % me
    if b and isinstance(b[0], ast.Assign) and len(b[0].targets) == 1 and isinstance(b[0].targets[0], ast.Name) \
            and u(b[0].value) == lookup:
        f = b[0].targets[0].id
        rest = b[1:]
        # if f is None: raise AttributeError(..) ; return f(self)      or     if f is not None: return f(self) ; raise
        if len(rest) == 2 and isinstance(rest[0], ast.If) and not rest[0].orelse and len(rest[0].body) == 1:
            nt = _none_test(rest[0].test)
            inner, last = rest[0].body[0], rest[1]
            is_raise = lambda x: isinstance(x, ast.Raise) and isinstance(x.exc, ast.Call) and u(x.exc.func) == 'AttributeError'
            is_ret = lambda x: isinstance(x, ast.Return) and u(x.value) == '%s(%s)' % (f, me)
            if nt is not None and u(nt[0]) == f and ((nt[1] and is_raise(inner) and is_ret(last))
                                                     or (not nt[1] and is_ret(inner) and is_raise(last))):
                return PL_FALLBACK['gen_request_session']
    raise Problem('body outside the table (expected: look the ISessionFactory utility up, AttributeError if there is '
                  'none, else return factory(self))')


def translate_plumbing(text):
    problems, summary, out = [], {}, []
    try:
        tree = ast.parse(text)
    except SyntaxError as e:
        tree = None
        problems.append('translator: cannot parse request.py: %s' % e)
    jobs = [('gen_add_cb', 'CallbackMethodsMixin.add_response_callback', _tr_add_cb),
            ('gen_process_cbs', 'CallbackMethodsMixin._process_response_callbacks', _tr_process),
            ('gen_request_session', 'Request.session', _tr_session)]
    if tree is not None:
        rc = _find(tree, 'CallbackMethodsMixin.response_callbacks')
        if rc is None or [u(d) for d in rc.decorator_list] != ['reify'] or [u(x) for x in _body(rc)] != ['return deque()']:
            problems.append('translator: CallbackMethodsMixin.response_callbacks is not `@reify .. return deque()`')
        if not any(isinstance(st, ast.ImportFrom) and st.module == 'collections' and 'deque' in [a.name for a in st.names]
                   for st in tree.body):
            problems.append('translator: request.py: `from collections import deque` missing')
        cls = _find(tree, 'Request')
        if cls is None or 'CallbackMethodsMixin' not in [u(b) for b in cls.bases]:
            problems.append('translator: Request no longer derives from CallbackMethodsMixin')
    for gen, qual, fn in jobs:
        text_out = None
        if tree is not None:
            node = _find(tree, qual)
            if node is None:
                problems.append('translator: %s not found (exactly once) in request.py' % qual)
            else:
                try:
                    text_out = fn(node)
                    summary[gen] = 'translated from source'
                except Problem as e:
                    problems.append('translator: %s: %s' % (qual, e))
        if text_out is None:
            summary[gen] = 'FALLBACK (reference text)'
            text_out = PL_FALLBACK[gen]
        out.append(text_out)
    return '\n'.join(out), problems, summary


# ------------------------------------------------------------------------------------------ router.py: invoke_request
ROUTER_TRANSLATED = ['pyramid/router.py:Router.invoke_request']
INVOKE_TEXT = ('Definition gen_invoke_request {R} (handle : option R) (has_callbacks : bool) (process : R -> R) '
               ': option R :=\n  match handle with\n  | None => None      (* handle_request raised: no response, no callbacks *)\n'
               '  | Some response => Some (%s)\n  end.\n')
INVOKE_FALLBACK = INVOKE_TEXT % 'if has_callbacks then process response else response'


def _tr_invoke(fn):
    """Router.invoke_request(self, request, _use_tweens=True):
         <locals: registry / has_listeners / notify>; handle_request = self.handle_request | self.orig_handle_request
         try: response = handle_request(request)
              [if request.response_callbacks:] request._process_response_callbacks(response)
              has_listeners and notify(NewResponse(request, response))        (AFTER the callbacks)
              return response
         finally: self.finish_request(request)"""
    names = [x.arg for x in fn.args.args]
    if len(names) != 3 or names[2] != '_use_tweens' or [u(d) for d in fn.args.defaults] != ['True'] or fn.decorator_list:
        raise Problem('expected the parameters (self, request, _use_tweens=True)')
    me, req = names[0], names[1]
    handlers = set()
    body = _body(fn)
    pure = {'%s.registry' % me, 'registry.has_listeners', 'registry.notify', '%s.registry.has_listeners' % me,
            '%s.registry.notify' % me}
    i = 0
    while i < len(body) and not isinstance(body[i], ast.Try):
        st = body[i]
        if isinstance(st, ast.Assign) and len(st.targets) == 1 and isinstance(st.targets[0], ast.Name) and u(st.value) in pure:
            pass
        elif isinstance(st, ast.If) and u(st.test) in ('_use_tweens', 'not _use_tweens') and len(st.body) == 1 \
                and len(st.orelse) == 1 and all(
                    isinstance(x, ast.Assign) and len(x.targets) == 1 and isinstance(x.targets[0], ast.Name)
                    and u(x.value) in ('%s.handle_request' % me, '%s.orig_handle_request' % me)
                    for x in (st.body[0], st.orelse[0])) and st.body[0].targets[0].id == st.orelse[0].targets[0].id \
                and u(st.body[0].value) == ('%s.handle_request' % me if u(st.test) == '_use_tweens'
                                            else '%s.orig_handle_request' % me) \
                and u(st.body[0].value) != u(st.orelse[0].value):
            handlers.add(st.body[0].targets[0].id)
        elif isinstance(st, ast.Assign) and len(st.targets) == 1 and isinstance(st.targets[0], ast.Name) \
                and u(st.value) == '%s.handle_request if _use_tweens else %s.orig_handle_request' % (me, me):
            handlers.add(st.targets[0].id)
        else:
            raise Problem('statement outside the table: %s' % u(st))
        i += 1
    if i != len(body) - 1:
        raise Problem('expected try/finally as the last statement')
    t = body[i]
    if t.handlers or t.orelse or [u(x) for x in t.finalbody] != ['%s.finish_request(%s)' % (me, req)]:
        raise Problem('expected try: .. finally: self.finish_request(request) without except clauses')
    tb = _body(t)
    if len(tb) != 4 or not (isinstance(tb[0], ast.Assign) and len(tb[0].targets) == 1 and isinstance(tb[0].targets[0], ast.Name)
                            and isinstance(tb[0].value, ast.Call) and u(tb[0].value.func) in handlers
                            and [u(a) for a in tb[0].value.args] == [req] and not tb[0].value.keywords):
        raise Problem('try body outside the table (expected: response = handle_request(request); callbacks; '
                      'NewResponse; return response)')
    resp = tb[0].targets[0].id
    call = '%s._process_response_callbacks(%s)' % (req, resp)
    if u(tb[1]) == call:
        term = 'process response'
    elif isinstance(tb[1], ast.If) and not tb[1].orelse and [u(x) for x in tb[1].body] == [call] \
            and u(tb[1].test) in ('%s.response_callbacks' % req, 'len(%s.response_callbacks)' % req,
                                  'len(%s.response_callbacks) > 0' % req):
        term = 'if has_callbacks then process response else response'
    else:
        raise Problem('callback step outside the table: %s' % u(tb[1]))
    if u(tb[2]) not in ('has_listeners and notify(NewResponse(%s, %s))' % (req, resp),
                        'registry.has_listeners and registry.notify(NewResponse(%s, %s))' % (req, resp)) \
            and not (isinstance(tb[2], ast.If) and u(tb[2].test) == 'has_listeners' and not tb[2].orelse
                     and [u(x) for x in tb[2].body] == ['notify(NewResponse(%s, %s))' % (req, resp)]):
        raise Problem('NewResponse step outside the table: %s' % u(tb[2]))
    if u(tb[3]) != 'return %s' % resp:
        raise Problem('expected `return response`: %s' % u(tb[3]))
    return INVOKE_TEXT % term


def translate_router(text):
    problems, summary = [], {}
    out = None
    try:
        tree = ast.parse(text)
        node = _find(tree, 'Router.invoke_request')
        if node is None:
            problems.append('translator: Router.invoke_request not found (exactly once) in router.py')
        else:
            out = _tr_invoke(node)
            summary['gen_invoke_request'] = 'translated from source'
    except SyntaxError as e:
        problems.append('translator: cannot parse router.py: %s' % e)
    except Problem as e:
        problems.append('translator: Router.invoke_request: %s' % e)
    if out is None:
        summary['gen_invoke_request'] = 'FALLBACK (reference text)'
        out = INVOKE_FALLBACK
    return out, problems, summary
