"""C10 translator: Python ast of the session code (src/pyramid/session.py) -> Gallina definitions, re-run on every
check (prop.facts) and emitted into coq/Gen/Prog_C10.v (built on coq/Model/C10_base.v).

Translated: manage_accessed.accessed, manage_changed.changed (with their enclosing decorators' shape), and the
CookieSession methods changed (incl. the nested set_cookie_callback and its registration), invalidate, flash,
pop_flash, peek_flash, new_csrf_token, get_csrf_token, __init__, _set_cookie.

Fail-closed: a statement outside the SUBSET, an expression outside the PRIMITIVE TABLE or a typing surprise is a
Problem; the caller records it as a broken tie and emits the stored fallback (gen_fallback.json: the translation of
the text the reference model was written against) so that the Coq development still builds.

=== CONTROL FLOW (mechanical, continuation passing; nothing is looked up) =====================================
  block s1; s2; ..        s1 receives the translation of the rest as its continuation
  the session object      every store / method call on `self` (`session` in the wrappers) yields a NEW state
                          variable s1, s2, .. bound by `let`; reads refer to the current one
  v = e (also a = b = e)  substitution: v stands for the term of e (side-effecting calls are let-bound first)
  if c: A else: B ; rest  decision tree over the atoms of c (`and`, `or`, `not` split, short-circuit order kept);
                          each branch continues with its own copy of <rest>
  if X is [not] None      X an optional configuration value: match X with Some v => .. | None => .. end (inside,
                          X stands for v);  X a Python value: if is_none X ..;  X the cookie text: match on option
  try: B except (E..): H  every raising primitive inside B jumps to H with the values the locals have AT THAT POINT
                          (so a partially executed try body keeps its assignments, as in Python), if H catches
                          every exception class the primitive may raise; otherwise the raise leaves the function
  raise ValueError(..)    a raise of that class
  return e                the function's result constructor applied to the current state
  def cb(request, response): ..   only the callback of `changed` (its body is checked literally)

=== PRIMITIVE TABLE (trusted: each line is a claim about Python / Pyramid / WebOb semantics) ====================
  time.time()                        now           (float, in ticks of 1/4 s: the clock argument of the model)
  int(time.time())                   int_time now  (whole seconds)
  a - b, a > b (>=, ==, !=)          on ticks: whole seconds z -> z * tick, a stamp t -> tval t, floats as they are;
                                     a < b, a <= b are written b > a, b >= a
  self.created/.accessed/.renewed    created s / accessed s / renewed s ;  stores: set_created s (TF x | TI x) ..
  self.new, self._dirty              isnew s, dirty s ; stores set_new / set_dirty
  self._timeout, ._reissue_time      timeout o, reissue o (option Z, seconds) ; self._cookie_on_exception  soe o
  self.request = request / = None    not modelled (no effect on the observations)
  request.cookies.get(self._cookie_name)   the `cookie` argument (option text)
  serializer.loads(bytes_(c))        loads O (key o) c ; None = ValueError (bad base64 / signature / JSON, and
                                     UnicodeEncodeError of bytes_, a ValueError) ; JSON null = Python None
  a, b, c = v                        unpack3 v ; None = TypeError or ValueError
  float(x)                           float_of x ; FErr = TypeError or ValueError ; FUnm = outside the model
  {} , [] , None, True, False        JObj [], JList [], JNull, true, false
  dict.__init__(self, state)         init_dict s state   (last statement of __init__)
  session.changed() / self.changed() gen_changed s       (the class table must bind `changed` bare: facts)
  wrapped(session, *arg, **kw)       wrapped s
  self.request.add_response_callback(cb)   register_cb s   (represented by the dirty flag, see C10_base.v)
  self.m(..) for m in clear, get, pop, setdefault, __setitem__ (self[k] = v), new_csrf_token
                                     gcall o now M body s: the wrapper the CLASS TABLE gives M around the dict
                                     operation on the session's data (on_state (OClear | OGet k d | ..)) or around
                                     the generated body (gen_new_csrf)
  'lit' + q                          text literal ++ q
  storage = self.setdefault(k, [])   storage is an alias of the list stored under k:
     x in storage / x not in storage py_in x storage (None = not a list: outside the model)
     storage.append(x)               append_at k x s (None = AttributeError)
  text_(binascii.hexlify(os.urandom(N)))   JStr tok  (tok : the `tok` argument; N must be urandom_n)
  getattr(self.request, 'exception', None) is not None     exc   (argument of the model)
  text_(serializer.dumps((self.accessed, self.created, dict(self))))
                                     signed_dumps O (key o) (JList [tjv ..; tjv ..; JObj (st s)])
  len(c) > K                         Z.gtb (Z.of_nat (length c)) K
  response.set_cookie(self._cookie_name, value=c, max_age=self._cookie_max_age, path=.., domain=.., secure=..,
                      httponly=.., samesite=..)     the cookie c is set (keywords must be exactly these)
  return True / False in _set_cookie FCookie c if a cookie was set on this path, else FNone
  raise ValueError in _set_cookie    FOversize
"""
import ast
import json
import os

HERE = os.path.dirname(os.path.abspath(__file__))
FALLBACK = os.path.join(HERE, 'gen_fallback.json')


class Problem(Exception):
    pass


def u(n):
    try:
        return ast.unparse(n).split('\n')[0][:90]
    except Exception:
        return '<%s>' % type(n).__name__


def coq_text(s):
    return '[' + '; '.join(str(ord(c)) for c in s) + ']%N'


FIELDS = {'created': ('created', 'TN'), 'accessed': ('accessed', 'TN'), 'renewed': ('renewed', 'TN'),
          'new': ('isnew', 'B'), '_dirty': ('dirty', 'B')}
SETTERS = {'created': 'set_created', 'accessed': 'set_accessed', 'renewed': 'set_renewed', 'new': 'set_new',
           '_dirty': 'set_dirty'}
CONFIG = {'_timeout': ('timeout o', 'CFGZ'), '_reissue_time': ('reissue o', 'CFGZ'),
          '_cookie_on_exception': ('soe o', 'B')}
COOKIE_KW = {'value': None, 'max_age': '_cookie_max_age', 'path': '_cookie_path', 'domain': '_cookie_domain',
             'secure': '_cookie_secure', 'httponly': '_cookie_httponly', 'samesite': '_cookie_samesite'}
CMPOPS = {'Gt': 'Z.gtb', 'GtE': 'Z.geb', 'Lt': 'Z.ltb', 'LtE': 'Z.leb', 'Eq': 'Z.eqb'}
RAISES = {'unpack': {'TypeError', 'ValueError'}, 'float': {'TypeError', 'ValueError'}, 'loads': {'ValueError'}}


class Tr:
    def __init__(self, fn, spec, urandom_n):
        self.fn, self.spec, self.urandom_n = fn, spec, urandom_n
        self.n = 0
        self.sname = None       # python name of the session object

    def fresh(self, base):
        self.n += 1
        return '%s%d' % (base, self.n)

    # ------------------------------------------------------------------ entry
    def translate(self):
        fn, spec = self.fn, self.spec
        a = fn.args
        if a.kwonlyargs or a.kw_defaults or getattr(a, 'posonlyargs', []):
            raise Problem('unexpected parameter list')
        names = [x.arg for x in a.args]
        if spec.get('wrapper'):
            if not (a.vararg and a.kwarg and len(names) == 1 and not a.defaults):
                raise Problem('wrapper must be def f(session, *arg, **kw)')
            self.star = (a.vararg.arg, a.kwarg.arg)
        elif a.vararg or a.kwarg:
            raise Problem('*args / **kwargs')
        if len(names) != len(spec['params']):
            raise Problem('expected %d parameters, found %d' % (len(spec['params']), len(names)))
        want_defaults = spec.get('defaults', [])
        got_defaults = [ast.dump(d) for d in a.defaults]
        if got_defaults != [ast.dump(ast.parse(d, mode='eval').body) for d in want_defaults]:
            raise Problem('parameter defaults are %s, expected %s' % ([u(d) for d in a.defaults], want_defaults))
        if spec.get('names') is not None and names[1:] != spec['names']:
            raise Problem('public parameter names are %s, the ISession API says %s' % (names[1:], spec['names']))
        if fn.decorator_list and not spec.get('decorated'):
            raise Problem('unexpected decorator')
        env = {}
        for nm, (term, ty) in zip(names, spec['params']):
            env[nm] = (term, ty)
            if ty == 'SESSOBJ':
                self.sname = nm
        for n in ast.walk(fn):
            if isinstance(n, (ast.Global, ast.Nonlocal, ast.Lambda, ast.ListComp, ast.SetComp, ast.DictComp,
                              ast.GeneratorExp, ast.NamedExpr, ast.Await, ast.Yield, ast.YieldFrom, ast.While,
                              ast.For, ast.With, ast.ClassDef, ast.Delete, ast.AugAssign)):
                raise Problem('construct outside the subset: %s' % type(n).__name__)
        env['$s'] = (spec.get('s0', 's0'), 'SESS')
        env['$resp'] = (None, 'RESP')

        def k_end(env2):
            return self.ret(env2, None)
        return self.block(list(fn.body), env, k_end, [])

    # ------------------------------------------------------------------ results
    def ret(self, env, node):
        kind = self.spec['ret']
        s = env['$s'][0]
        if kind == 'SESS':                      # changed(): returns None, the result is the new state
            if node is not None and not self.is_none_const(node):
                raise Problem('return of a value from changed()')
            return s
        if kind == 'METHOD':                    # (state, value)
            if node is None or self.is_none_const(node):
                return '(%s, RV JNull)' % s
            t, ty = self.expr(node, env)
            if ty == 'STOR':
                t = t[0]
            elif ty not in ('JV',):
                raise Problem('return of a %s: %s' % (ty, u(node)))
            return '(%s, RV %s)' % (s, t)
        if kind == 'WRAPPER':
            raise Problem('a wrapper must end with `return wrapped(session, *arg, **kw)`')
        if kind == 'INIT':
            raise Problem('__init__ must end with dict.__init__(self, state)')
        if kind == 'FIN':
            if node is None or not (isinstance(node, ast.Constant) and isinstance(node.value, bool)):
                raise Problem('_set_cookie must return True / False')
            c = env['$resp'][0]
            if node.value != (c is not None):
                raise Problem('_set_cookie returns %s on a path on which a cookie was%s set' % (
                    node.value, '' if c is not None else ' not'))
            return 'FCookie %s' % c if c is not None else 'FNone'
        raise Problem('internal: result kind')

    def raise_(self, kinds, env, H):
        """a primitive raising one of `kinds`: the innermost handler that catches them all, else the function's"""
        for caught, handler in reversed(H):
            if kinds <= caught:
                return handler(env)
            if kinds & caught:
                raise Problem('a handler catches only some of the exceptions %s a primitive may raise' % sorted(kinds))
        onr = self.spec.get('on_raise', {})
        for k, term in onr.items():
            if kinds <= set(k.split('|')):
                return term.replace('$s', env['$s'][0])
        raise Problem('exception %s can leave the function (not in the table for this function)' % sorted(kinds))

    @staticmethod
    def is_none_const(n):
        return isinstance(n, ast.Constant) and n.value is None

    # ------------------------------------------------------------------ statements
    def block(self, stmts, env, k, H):
        if not stmts:
            return k(env)
        s, rest = stmts[0], stmts[1:]

        def k_next(env2):
            return self.block(rest, env2, k, H)

        if isinstance(s, ast.Expr) and isinstance(s.value, ast.Constant) and isinstance(s.value.value, str):
            return k_next(env)
        if isinstance(s, ast.Pass):
            return k_next(env)
        if isinstance(s, ast.Return):
            return self.return_(s, env, H)
        if isinstance(s, ast.Raise):
            if isinstance(s.exc, ast.Call) and isinstance(s.exc.func, ast.Name) and s.cause is None:
                return self.raise_({s.exc.func.id}, env, H)
            raise Problem('raise outside the subset: %s' % u(s))
        if isinstance(s, ast.Assign):
            return self.assign(s, env, k_next, H)
        if isinstance(s, ast.Expr):
            return self.expr_stmt(s, env, k_next, H)
        if isinstance(s, ast.If):
            return self.if_(s, env, k_next, H)
        if isinstance(s, ast.Try):
            return self.try_(s, env, k_next, H)
        if isinstance(s, ast.FunctionDef):
            return k_next(self.callback_def(s, env))
        raise Problem('statement outside the subset: %s' % u(s))

    def return_(self, s, env, H):
        v = s.value
        if self.spec['ret'] == 'WRAPPER':
            ok = (isinstance(v, ast.Call) and isinstance(v.func, ast.Name) and v.func.id == 'wrapped'
                  and len(v.args) == 2 and isinstance(v.args[0], ast.Name) and v.args[0].id == self.sname
                  and isinstance(v.args[1], ast.Starred) and isinstance(v.args[1].value, ast.Name)
                  and v.args[1].value.id == self.star[0] and len(v.keywords) == 1 and v.keywords[0].arg is None
                  and isinstance(v.keywords[0].value, ast.Name) and v.keywords[0].value.id == self.star[1])
            if not ok:
                raise Problem('wrapper return outside the table: %s' % u(s))
            return 'wrapped %s' % env['$s'][0]
        if v is not None and isinstance(v, ast.Call):
            # return self.m(..): bind the call first
            tmp = ast.Name(id='$ret', ctx=ast.Load())
            return self.assign(ast.Assign(targets=[ast.Name(id='$ret', ctx=ast.Store())], value=v), env,
                               lambda e2: self.ret(e2, tmp), H)
        return self.ret(env, v)

    def callback_def(self, s, env):
        """def set_cookie_callback(request, response): self._set_cookie(response); self.request = None"""
        body = [b for b in s.body if not (isinstance(b, ast.Expr) and isinstance(b.value, ast.Constant))]
        ok = (len(s.args.args) == 2 and not s.decorator_list and len(body) == 2
              and u(body[0]) == '%s._set_cookie(%s)' % (self.sname, s.args.args[1].arg)
              and u(body[1]) == '%s.request = None' % self.sname)
        if not ok:
            raise Problem('nested def outside the table (expected the cookie callback): %s' % u(s))
        env = dict(env)
        env[s.name] = (None, 'CB')
        return env

    def bind_state(self, env, term):
        v = self.fresh('s')
        env = dict(env)
        env['$s'] = (v, 'SESS')
        return v, env

    def assign(self, s, env, k, H):
        val = s.value
        tgs = list(s.targets)
        if all(isinstance(t, ast.Attribute) and isinstance(t.value, ast.Name) and t.value.id == self.sname
               and t.attr == 'request' for t in tgs) and (self.is_none_const(val) or (
                   isinstance(val, ast.Name) and env.get(val.id, (None, None))[1] == 'REQUEST')):
            return k(env)                                    # self.request = request / None: not modelled
        # ---- side-effecting right-hand sides
        if isinstance(val, ast.Call) and self.is_self_method(val):
            return self.self_call(val, env, lambda e2, res: self.store_all(tgs, res, e2, k, H, s), H)
        # ---- tuple unpacking of a Python value
        if len(tgs) == 1 and isinstance(tgs[0], ast.Tuple):
            tg = tgs[0]
            if not (len(tg.elts) == 3 and all(isinstance(e, ast.Name) for e in tg.elts)
                    and len({e.id for e in tg.elts}) == 3):
                raise Problem('unpacking outside the table: %s' % u(s))
            t, ty = self.expr(val, env)
            if ty != 'JV':
                raise Problem('unpacking of a %s: %s' % (ty, u(s)))
            a, b, c = self.fresh('u'), self.fresh('u'), self.fresh('u')
            env2 = dict(env)
            for e, x in zip(tg.elts, (a, b, c)):
                env2[e.id] = (x, 'JV')
            return ('match unpack3 %s with\n| None => %s\n| Some (%s, %s, %s) => %s\nend'
                    % (par(t), self.raise_(RAISES['unpack'], env, H), a, b, c, k(env2)))
        # ---- float(x)
        if isinstance(val, ast.Call) and isinstance(val.func, ast.Name) and val.func.id == 'float' \
                and len(val.args) == 1 and not val.keywords:
            t, ty = self.expr(val.args[0], env)
            if ty != 'JV':
                raise Problem('float() of a %s: %s' % (ty, u(s)))
            z = self.fresh('z')
            return ('match float_of %s with\n| FErr => %s\n| FUnm => %s\n| FOk %s => %s\nend'
                    % (par(t), self.raise_(RAISES['float'], env, H), self.spec.get('unmodelled', 'IUnm'), z,
                       self.store_all(tgs, (z, 'FT'), env, k, H, s)))
        res = self.expr(val, env)
        return self.store_all(tgs, res, env, k, H, s)

    def store_all(self, tgs, res, env, k, H, s):
        """a = b = value: stores left to right"""
        if not tgs:
            return k(env)
        tg, rest = tgs[0], tgs[1:]

        def k2(env2):
            return self.store_all(rest, res, env2, k, H, s)
        term, ty = res
        if isinstance(tg, ast.Name):
            env2 = dict(env)
            env2[tg.id] = (term, ty)
            return k2(env2)
        if isinstance(tg, ast.Attribute) and isinstance(tg.value, ast.Name) and tg.value.id == self.sname:
            if tg.attr == 'request':
                return k2(env)                               # not modelled
            if tg.attr not in SETTERS:
                raise Problem('store to attribute %s of the session is outside the table' % tg.attr)
            want = FIELDS[tg.attr][1]
            if want == 'TN':
                if ty == 'FT':
                    v = '(TF %s)' % par(term)
                elif ty == 'IS':
                    v = '(TI %s)' % par(term)
                elif ty == 'TN':
                    v = par(term)
                else:
                    raise Problem('store of a %s into time stamp %s' % (ty, tg.attr))
            else:
                if ty != 'B':
                    raise Problem('store of a %s into flag %s' % (ty, tg.attr))
                v = par(term)
            s_old = env['$s'][0]
            sv, env2 = self.bind_state(env, None)
            return 'let %s := %s %s %s in\n%s' % (sv, SETTERS[tg.attr], s_old, v, k2(env2))
        if isinstance(tg, ast.Subscript) and isinstance(tg.value, ast.Name) and tg.value.id == self.sname:
            kt, kty = self.expr(tg.slice, env)
            if kty != 'TX' or ty not in ('JV',):
                raise Problem('self[k] = v with k a %s, v a %s' % (kty, ty))
            return self.gcall('MSetItem', 'on_state (OSetItem %s %s)' % (par(kt), par(term)), env,
                              lambda e2, r: k2(e2))
        raise Problem('assignment target outside the subset: %s' % u(s))

    def gcall(self, meth, body, env, k):
        s_old = env['$s'][0]
        r = self.fresh('r')
        sv, env2 = self.bind_state(env, None)
        return ('let %s := gcall o now %s (%s) %s in\nlet %s := fst %s in\n%s'
                % (r, meth, body, s_old, sv, r, k(env2, ('(rv (snd %s))' % r, 'JV'))))

    def is_self_method(self, c):
        return isinstance(c.func, ast.Attribute) and isinstance(c.func.value, ast.Name) and c.func.value.id == self.sname

    def self_call(self, c, env, k, H):
        """self.m(args) -> k(env', (value term, type))"""
        m = c.func.attr
        if c.keywords:
            raise Problem('keyword arguments in %s' % u(c))
        args = [self.expr(a, env) for a in c.args]
        tys = [t for _, t in args]

        def jv(i):
            t, ty = args[i]
            if ty != 'JV':
                raise Problem('argument %d of %s is a %s' % (i, u(c), ty))
            return par(t)

        def tx(i):
            t, ty = args[i]
            if ty != 'TX':
                raise Problem('argument %d of %s is a %s' % (i, u(c), ty))
            return par(t)
        if m == 'changed' and not args:
            s_old = env['$s'][0]
            sv, env2 = self.bind_state(env, None)
            return 'let %s := gen_changed %s in\n%s' % (sv, s_old, k(env2, ('JNull', 'JV')))
        if self.spec.get('wrapper') or self.spec['ret'] == 'SESS':
            raise Problem('method call outside the table here: %s' % u(c))
        if m == 'clear' and not args:
            return self.gcall('MClear', 'on_state OClear', env, k)
        if m == 'get' and len(args) == 2:
            return self.gcall('MGet', 'on_state (OGet %s %s)' % (tx(0), jv(1)), env, k)
        if m == 'pop' and len(args) == 2:
            return self.gcall('MPop', 'on_state (OPop %s (Some %s))' % (tx(0), jv(1)), env, k)
        if m == 'setdefault' and len(args) == 2:
            key = tx(0)
            is_list = isinstance(c.args[1], ast.List) and not c.args[1].elts

            def k2(env2, res):
                return k(env2, ((res[0], key), 'STOR') if is_list else res)
            return self.gcall('MSetDefault', 'on_state (OSetDefault %s %s)' % (key, jv(1)), env, k2)
        if m == 'new_csrf_token' and not args:
            if 'tok' not in self.spec.get('extra', ()):
                raise Problem('new_csrf_token() called where no token argument is available')
            return self.gcall('MNewCsrf', 'gen_new_csrf o now tok', env, k)
        raise Problem('method call outside the table: %s' % u(c))

    def expr_stmt(self, s, env, k, H):
        c = s.value
        if not isinstance(c, ast.Call):
            raise Problem('expression statement outside the subset: %s' % u(s))
        # dict.__init__(self, state)
        if u(c.func) == 'dict.__init__' and self.spec['ret'] == 'INIT':
            if len(c.args) != 2 or c.keywords or not (isinstance(c.args[0], ast.Name) and c.args[0].id == self.sname):
                raise Problem('dict.__init__ call outside the table: %s' % u(s))
            t, ty = self.expr(c.args[1], env)
            if ty != 'JV':
                raise Problem('dict.__init__ with a %s' % ty)
            self.saw_init_dict = True
            rest = k(dict(env, **{'$done': (None, 'DONE')}))
            if rest != '$END':
                raise Problem('statements after dict.__init__(self, state)')
            return 'init_dict %s %s' % (env['$s'][0], par(t))
        # self.request.add_response_callback(cb)
        if u(c.func) == '%s.request.add_response_callback' % self.sname:
            if len(c.args) == 1 and not c.keywords and isinstance(c.args[0], ast.Name) \
                    and env.get(c.args[0].id, (None, None))[1] == 'CB':
                s_old = env['$s'][0]
                sv, env2 = self.bind_state(env, None)
                return 'let %s := register_cb %s in\n%s' % (sv, s_old, k(env2))
            raise Problem('add_response_callback outside the table: %s' % u(s))
        # storage.append(x)
        if isinstance(c.func, ast.Attribute) and c.func.attr == 'append' and isinstance(c.func.value, ast.Name) \
                and env.get(c.func.value.id, (None, None))[1] == 'STOR' and len(c.args) == 1 and not c.keywords:
            (_, key), _ = env[c.func.value.id]
            t, ty = self.expr(c.args[0], env)
            if ty != 'JV':
                raise Problem('append of a %s' % ty)
            s_old = env['$s'][0]
            sv, env2 = self.bind_state(env, None)
            return ('match append_at %s %s %s with\n| None => %s\n| Some %s => %s\nend'
                    % (key, par(t), s_old, self.raise_({'AttributeError'}, env, H), sv, k(env2)))
        # response.set_cookie(...)
        if self.spec['ret'] == 'FIN' and isinstance(c.func, ast.Attribute) and c.func.attr == 'set_cookie' \
                and isinstance(c.func.value, ast.Name) and env.get(c.func.value.id, (None, None))[1] == 'RESPONSE':
            if len(c.args) != 1 or u(c.args[0]) != '%s._cookie_name' % self.sname:
                raise Problem('set_cookie: first argument must be self._cookie_name')
            kws = {kw.arg: kw.value for kw in c.keywords}
            if set(kws) != set(COOKIE_KW):
                raise Problem('set_cookie keywords are %s, expected %s' % (sorted(kws), sorted(COOKIE_KW)))
            for kname, attr in COOKIE_KW.items():
                if attr is not None and u(kws[kname]) != '%s.%s' % (self.sname, attr):
                    raise Problem('set_cookie: %s=%s, expected self.%s' % (kname, u(kws[kname]), attr))
            t, ty = self.expr(kws['value'], env)
            if ty != 'COOKIE':
                raise Problem('set_cookie: value is a %s' % ty)
            if env['$resp'][0] is not None:
                raise Problem('set_cookie called twice on a path')
            env2 = dict(env)
            env2['$resp'] = (t, 'RESP')
            return k(env2)
        if self.is_self_method(c):
            return self.self_call(c, env, lambda e2, res: k(e2), H)
        raise Problem('call statement outside the table: %s' % u(s))

    def try_(self, s, env, k, H):
        if s.orelse or s.finalbody or len(s.handlers) != 1 or s.handlers[0].name is not None:
            raise Problem('try statement outside the subset: %s' % u(s))
        ty = s.handlers[0].type
        if isinstance(ty, ast.Name):
            caught = {ty.id}
        elif isinstance(ty, ast.Tuple) and all(isinstance(e, ast.Name) for e in ty.elts):
            caught = {e.id for e in ty.elts}
        else:
            raise Problem('except clause outside the subset: %s' % u(s.handlers[0]))
        if caught - {'ValueError', 'TypeError'}:
            raise Problem('handler for %s is outside the table' % sorted(caught))

        def handler(env_at_raise):
            return self.block(list(s.handlers[0].body), env_at_raise, k, H)
        return self.block(list(s.body), env, k, H + [(caught, handler)])

    def if_(self, s, env, k, H):
        def k_then(env2):
            return self.block(list(s.body), env2, k, H)

        def k_else(env2):
            return self.block(list(s.orelse), env2, k, H)
        return self.cond(s.test, env, k_then, k_else, H)

    # ------------------------------------------------------------------ conditions (decision trees)
    def cond(self, n, env, kt, ke, H):
        if isinstance(n, ast.UnaryOp) and isinstance(n.op, ast.Not):
            return self.cond(n.operand, env, ke, kt, H)
        if isinstance(n, ast.BoolOp):
            vals = list(n.values)
            if isinstance(n.op, ast.And):
                def go(i, env2):
                    if i == len(vals):
                        return kt(env2)
                    return self.cond(vals[i], env2, lambda e3: go(i + 1, e3), ke, H)
            else:
                def go(i, env2):
                    if i == len(vals):
                        return ke(env2)
                    return self.cond(vals[i], env2, kt, lambda e3: go(i + 1, e3), H)
            return go(0, env)
        if isinstance(n, ast.Compare) and len(n.ops) == 1 and isinstance(n.ops[0], (ast.Is, ast.IsNot)) \
                and self.is_none_const(n.comparators[0]):
            is_not = isinstance(n.ops[0], ast.IsNot)
            t, ty = self.expr(n.left, env)
            k_some, k_none = (kt, ke) if is_not else (ke, kt)
            if ty == 'CFGZ':
                v = self.fresh('cfg')
                env2 = dict(env)
                env2['$cfg:' + t] = (v, 'SECZ')
                return 'match %s with\n| Some %s => %s\n| None => %s\nend' % (t, v, k_some(env2), k_none(env))
            if ty == 'OTX':
                v = self.fresh('c')
                env2 = dict(env)
                if isinstance(n.left, ast.Name):
                    env2[n.left.id] = (v, 'TX')
                return 'match %s with\n| Some %s => %s\n| None => %s\nend' % (t, v, k_some(env2), k_none(env))
            if ty == 'JV':
                if t == 'JNull':
                    return k_none(env)
                return 'if is_none %s\nthen %s\nelse %s' % (par(t), k_none(env), k_some(env))
            if ty == 'EXC':
                return 'if exc\nthen %s\nelse %s' % (k_some(env), k_none(env))
            raise Problem('`is None` test of a %s: %s' % (ty, u(n)))
        if isinstance(n, ast.Compare) and len(n.ops) == 1 and isinstance(n.ops[0], (ast.In, ast.NotIn)):
            x, xty = self.expr(n.left, env)
            st, sty = self.expr(n.comparators[0], env)
            if xty != 'JV' or sty != 'STOR':
                raise Problem('`in` between a %s and a %s is outside the table: %s' % (xty, sty, u(n)))
            k_in, k_out = (kt, ke) if isinstance(n.ops[0], ast.In) else (ke, kt)
            return ('match py_in %s %s with\n| None => %s\n| Some true => %s\n| Some false => %s\nend'
                    % (par(x), par(st[0]), self.spec.get('unmodelled', 'IUnm').replace('$s', env['$s'][0]),
                       k_in(env), k_out(env)))
        t, ty = self.expr(n, env)
        if ty != 'B':
            raise Problem('truth value of a %s is outside the table: %s' % (ty, u(n)))
        if t == 'true':
            return kt(env)
        if t == 'false':
            return ke(env)
        return 'if %s\nthen %s\nelse %s' % (t, kt(env), ke(env))

    # ------------------------------------------------------------------ expressions (pure)
    def ticks(self, t, ty, n):
        if ty == 'FT':
            return t
        if ty in ('IS', 'SECZ'):
            return '(%s * tick)' % par(t)
        if ty == 'TN':
            return '(tval %s)' % par(t)
        if ty == 'TICK':
            return t
        raise Problem('a %s is not a time: %s' % (ty, u(n)))

    def expr(self, n, env):
        s = env['$s'][0]
        if isinstance(n, ast.Name):
            if n.id == '$ret':
                return env['$ret']
            if n.id in env and not n.id.startswith('$'):
                t, ty = env[n.id]
                if ty in ('SESSOBJ', 'CB', 'REQUEST'):
                    raise Problem('the object %s is used as a value' % n.id)
                return t, ty
            raise Problem('name %s is unbound here or outside the table' % n.id)
        if isinstance(n, ast.Constant):
            if n.value is None:
                return 'JNull', 'JV'
            if isinstance(n.value, bool):
                return ('true' if n.value else 'false'), 'B'
            if isinstance(n.value, str):
                return coq_text(n.value), 'TX'
            if isinstance(n.value, int):
                return '(%d)%%Z' % n.value, 'INT'
            raise Problem('constant outside the table: %s' % u(n))
        if isinstance(n, ast.Dict) and not n.keys:
            return '(JObj [])', 'JV'
        if isinstance(n, ast.List) and not n.elts:
            return '(JList [])', 'JV'
        if isinstance(n, ast.Attribute) and isinstance(n.value, ast.Name) and n.value.id == self.sname:
            if n.attr in FIELDS:
                f, ty = FIELDS[n.attr]
                return '%s %s' % (f, s), ty
            if n.attr in CONFIG:
                t, ty = CONFIG[n.attr]
                if '$cfg:' + t in env:
                    return env['$cfg:' + t]
                return t, ty
            raise Problem('attribute %s of the session is outside the table' % n.attr)
        if isinstance(n, ast.BinOp) and isinstance(n.op, ast.Sub):
            a, aty = self.expr(n.left, env)
            b, bty = self.expr(n.right, env)
            return '(%s - %s)' % (self.ticks(a, aty, n), self.ticks(b, bty, n)), 'TICK'
        if isinstance(n, ast.BinOp) and isinstance(n.op, ast.Add):
            a, aty = self.expr(n.left, env)
            b, bty = self.expr(n.right, env)
            if aty == 'TX' and bty == 'TX':
                return '(%s ++ %s)' % (a, b), 'TX'
            raise Problem('+ between a %s and a %s: %s' % (aty, bty, u(n)))
        if isinstance(n, ast.Compare) and len(n.ops) == 1 and type(n.ops[0]).__name__ in CMPOPS or \
                (isinstance(n, ast.Compare) and len(n.ops) == 1 and isinstance(n.ops[0], ast.NotEq)):
            a, aty = self.expr(n.left, env)
            b, bty = self.expr(n.comparators[0], env)
            if aty == 'INT' and bty == 'INT':
                x, y = a, '%s' % b
            else:
                x, y = self.ticks(a, aty, n), self.ticks(b, bty, n)
            if isinstance(n.ops[0], ast.NotEq):
                return '(negb (Z.eqb %s %s))' % (par(x), par(y)), 'B'
            opn = type(n.ops[0]).__name__
            if opn in ('Lt', 'LtE'):                      # a < b is written b > a (one normal form)
                x, y, opn = y, x, {'Lt': 'Gt', 'LtE': 'GtE'}[opn]
            return '(%s %s %s)' % (CMPOPS[opn], par(x), par(y)), 'B'
        if isinstance(n, ast.BoolOp) or (isinstance(n, ast.UnaryOp) and isinstance(n.op, ast.Not)):
            raise Problem('boolean expression used as a value: %s' % u(n))
        if isinstance(n, ast.Tuple) and self.spec['ret'] == 'FIN' and len(n.elts) == 3:
            want = ['%s.accessed' % self.sname, '%s.created' % self.sname, 'dict(%s)' % self.sname]
            got = [u(e) for e in n.elts]
            ok = all(g in ('%s.accessed' % self.sname, '%s.created' % self.sname, '%s.renewed' % self.sname,
                           'dict(%s)' % self.sname) for g in got)
            if not ok:
                raise Problem('payload tuple outside the table: %s (expected the shape %s)' % (got, want))
            parts = []
            for g in got:
                if g.endswith(')'):
                    parts.append('JObj (st %s)' % s)
                else:
                    parts.append('tjv (%s %s)' % (g.split('.')[1], s))
            return '(JList [%s])' % '; '.join(parts), 'PAYLOAD'
        if isinstance(n, ast.Call):
            return self.call(n, env)
        raise Problem('expression outside the table: %s' % u(n))

    def call(self, n, env):
        f = u(n.func)
        s = env['$s'][0]
        if self.is_self_method(n):
            raise Problem('a method call on the session inside an expression (bind it with an assignment): %s' % u(n))
        if f == 'time.time' and not n.args and not n.keywords:
            return 'now', 'FT'
        if f == 'int' and len(n.args) == 1 and not n.keywords and u(n.args[0]) == 'time.time()':
            return '(int_time now)', 'IS'
        reqs = [nm for nm, (_, ty) in env.items() if ty == 'REQUEST']
        if reqs and f == '%s.cookies.get' % reqs[0] and self.spec['ret'] == 'INIT' and len(n.args) == 1 \
                and not n.keywords and u(n.args[0]) == '%s._cookie_name' % self.sname:
            return 'cookie', 'OTX'
        if f == 'getattr' and len(n.args) == 3 and not n.keywords and self.spec['ret'] == 'FIN' \
                and u(n.args[0]) == '%s.request' % self.sname and isinstance(n.args[1], ast.Constant) \
                and n.args[1].value == 'exception' and self.is_none_const(n.args[2]):
            return 'exc', 'EXC'
        if f == 'text_' and len(n.args) == 1 and not n.keywords:
            inner = n.args[0]
            if u(inner) == 'binascii.hexlify(os.urandom(%d))' % self.urandom_n and 'tok' in self.spec.get('extra', ()):
                return '(JStr tok)', 'JV'
            if isinstance(inner, ast.Call) and u(inner.func) == 'serializer.dumps' and len(inner.args) == 1 \
                    and not inner.keywords and self.spec['ret'] == 'FIN':
                t, ty = self.expr(inner.args[0], env)
                if ty != 'PAYLOAD':
                    raise Problem('serializer.dumps of a %s' % ty)
                return '(signed_dumps O (key o) %s)' % t, 'COOKIE'
            raise Problem('text_(..) outside the table: %s' % u(n))
        if f == 'len' and len(n.args) == 1 and not n.keywords:
            t, ty = self.expr(n.args[0], env)
            if ty != 'COOKIE':
                raise Problem('len of a %s' % ty)
            return '(Z.of_nat (length %s))' % t, 'INT'
        raise Problem('call outside the table: %s' % u(n))


def par(t):
    t = t.strip()
    if ' ' not in t and '\n' not in t:
        return t
    if t.startswith('(') and t.endswith(')'):
        depth = 0
        for i, ch in enumerate(t):
            depth += ch == '('
            depth -= ch == ')'
            if depth == 0 and i < len(t) - 1:
                break
        else:
            return t
    return '(' + t + ')'


# ---------------------------------------------------------------------- loads idiom inside __init__
class InitTr(Tr):
    """adds: value = serializer.loads(bytes_(cookieval)) (raises ValueError)"""

    def assign(self, s, env, k, H):
        v = s.value
        if isinstance(v, ast.Call) and u(v.func) == 'serializer.loads' and len(v.args) == 1 and not v.keywords:
            a = v.args[0]
            if not (isinstance(a, ast.Call) and u(a.func) == 'bytes_' and len(a.args) == 1 and not a.keywords):
                raise Problem('serializer.loads argument outside the table: %s' % u(s))
            t, ty = self.expr(a.args[0], env)
            if ty != 'TX':
                raise Problem('serializer.loads(bytes_(..)) of a %s (cookie text expected, after `is not None`)' % ty)
            x = self.fresh('v')
            return ('match loads O (key o) %s with\n| None => %s\n| Some %s => %s\nend'
                    % (par(t), self.raise_(RAISES['loads'], env, H), x,
                       self.store_all(list(s.targets), (x, 'JV'), env, k, H, s)))
        return Tr.assign(self, s, env, k, H)

    def block(self, stmts, env, k, H):
        if not stmts and '$done' not in env and not H and getattr(self, '_top', True):
            pass
        return Tr.block(self, stmts, env, k, H)


# every source function whose control flow is regenerated on every run (tools/coverage_map.py).  The two decorators
# are listed because their whole body (inner def, __doc__ copy, return) is checked by check_outer; the callback nested
# in `changed` is compared literally by callback_def.
TRANSLATED = [
    'pyramid/session.py:manage_accessed', 'pyramid/session.py:manage_accessed.accessed',
    'pyramid/session.py:manage_changed', 'pyramid/session.py:manage_changed.changed',
    'pyramid/session.py:BaseCookieSessionFactory.CookieSession.__init__',
    'pyramid/session.py:BaseCookieSessionFactory.CookieSession.changed',
    'pyramid/session.py:BaseCookieSessionFactory.CookieSession.invalidate',
    'pyramid/session.py:BaseCookieSessionFactory.CookieSession.flash',
    'pyramid/session.py:BaseCookieSessionFactory.CookieSession.pop_flash',
    'pyramid/session.py:BaseCookieSessionFactory.CookieSession.peek_flash',
    'pyramid/session.py:BaseCookieSessionFactory.CookieSession.new_csrf_token',
    'pyramid/session.py:BaseCookieSessionFactory.CookieSession.get_csrf_token',
    'pyramid/session.py:BaseCookieSessionFactory.CookieSession._set_cookie',
    # factory layer (harness/c10/translate_factory.py)
    'pyramid/session.py:_CanonicalBase64Serializer.__init__',
    'pyramid/session.py:_CanonicalBase64Serializer.dumps',
    'pyramid/session.py:_CanonicalBase64Serializer.loads',
    'pyramid/session.py:SignedCookieSessionFactory',
    # request plumbing (translate_factory.translate_plumbing)
    'pyramid/request.py:CallbackMethodsMixin.response_callbacks',
    'pyramid/request.py:CallbackMethodsMixin.add_response_callback',
    'pyramid/request.py:CallbackMethodsMixin._process_response_callbacks',
    'pyramid/request.py:Request.session',
    'pyramid/router.py:Router.invoke_request',
]

SESS = ('s0', 'SESSOBJ')
FUNCS = [
    dict(qual='BaseCookieSessionFactory.CookieSession.changed', gen='gen_changed', ret='SESS',
         params=[SESS], sig='(s0 : sess) : sess'),
    dict(qual='manage_accessed.accessed', outer='manage_accessed', gen='gen_manage_accessed', ret='WRAPPER', wrapper=True,
         params=[SESS], sig='(o : opts) (now : Z) (wrapped : sess -> sess * res) (s0 : sess) : sess * res'),
    dict(qual='manage_changed.changed', outer='manage_changed', gen='gen_manage_changed', ret='WRAPPER', wrapper=True,
         params=[SESS], sig='(o : opts) (now : Z) (wrapped : sess -> sess * res) (s0 : sess) : sess * res'),
    'GLUE',
    dict(qual='BaseCookieSessionFactory.CookieSession.invalidate', gen='gen_invalidate', ret='METHOD',
         params=[SESS], sig='(o : opts) (now : Z) (s0 : sess) : sess * res'),
    dict(qual='BaseCookieSessionFactory.CookieSession.flash', gen='gen_flash', ret='METHOD', decorated=True,
         params=[SESS, ('msg', 'JV'), ('queue', 'TX'), ('allow_duplicate', 'B')], defaults=["''", 'True'],
         names=['msg', 'queue', 'allow_duplicate'],
         sig='(o : opts) (now : Z) (msg : jv) (queue : text) (allow_duplicate : bool) (s0 : sess) : sess * res',
         on_raise={'AttributeError': '($s, RErr 2%N)'}, unmodelled='($s, RUnm)'),
    dict(qual='BaseCookieSessionFactory.CookieSession.pop_flash', gen='gen_pop_flash', ret='METHOD', decorated=True,
         params=[SESS, ('queue', 'TX')], defaults=["''"], names=['queue'],
         sig='(o : opts) (now : Z) (queue : text) (s0 : sess) : sess * res'),
    dict(qual='BaseCookieSessionFactory.CookieSession.peek_flash', gen='gen_peek_flash', ret='METHOD', decorated=True,
         params=[SESS, ('queue', 'TX')], defaults=["''"], names=['queue'],
         sig='(o : opts) (now : Z) (queue : text) (s0 : sess) : sess * res'),
    dict(qual='BaseCookieSessionFactory.CookieSession.new_csrf_token', gen='gen_new_csrf', ret='METHOD', decorated=True,
         params=[SESS], extra=('tok',), sig='(o : opts) (now : Z) (tok : text) (s0 : sess) : sess * res'),
    dict(qual='BaseCookieSessionFactory.CookieSession.get_csrf_token', gen='gen_get_csrf', ret='METHOD', decorated=True,
         params=[SESS], extra=('tok',), sig='(o : opts) (now : Z) (tok : text) (s0 : sess) : sess * res'),
    dict(qual='BaseCookieSessionFactory.CookieSession.__init__', gen='gen_init', ret='INIT', cls=InitTr,
         params=[SESS, (None, 'REQUEST')], s0='blank_sess', on_raise={},
         sig='(O : oracles) (o : opts) (cookie : option text) (now : Z) : ires'),
    dict(qual='BaseCookieSessionFactory.CookieSession._set_cookie', gen='gen_set_cookie', ret='FIN',
         params=[SESS, (None, 'RESPONSE')], on_raise={'ValueError': 'FOversize'},
         sig='(O : oracles) (o : opts) (exc : bool) (s0 : sess) : fin'),
]

GLUE = '''(* attribute lookup of method M on the session: the wrapper the class table gives M NOW, around its body *)
Definition gcall (o : opts) (now : Z) (m : meth) (body : sess -> sess * res) : sess -> sess * res :=
  wrap_with (gen_manage_accessed o now) (gen_manage_changed o now) (wrapper_of m) body.
'''

DEFAULTS = {'gen_changed': 's0', 'gen_manage_accessed': 'wrapped s0', 'gen_manage_changed': 'wrapped s0',
            'gen_init': 'IUnm', 'gen_set_cookie': 'FNone'}


def find(tree, qual):
    node = tree
    for part in qual.split('.'):
        nxt = [c for c in node.body if isinstance(c, (ast.FunctionDef, ast.ClassDef)) and c.name == part]
        if len(nxt) != 1:
            return None
        node = nxt[0]
    return node


def check_outer(tree, name, inner, problems):
    """def manage_X(wrapped): <doc>; def inner(..): ..; inner.__doc__ = wrapped.__doc__; return inner"""
    fn = find(tree, name)
    if fn is None:
        problems.append('translator: %s not found' % name)
        return
    body = [b for b in fn.body if not (isinstance(b, ast.Expr) and isinstance(b.value, ast.Constant))]
    ok = ([a.arg for a in fn.args.args] == ['wrapped'] and not fn.decorator_list and len(body) == 3
          and isinstance(body[0], ast.FunctionDef) and body[0].name == inner
          and u(body[1]) == '%s.__doc__ = wrapped.__doc__' % inner and u(body[2]) == 'return %s' % inner)
    if not ok:
        problems.append('translator: decorator %s no longer has the shape def %s(wrapped): def %s(..): ..; '
                        '%s.__doc__ = wrapped.__doc__; return %s' % (name, name, inner, inner, inner))


def check_module(tree, problems):
    """module-level names the table relies on"""
    imports = {}
    for st in tree.body:
        if isinstance(st, ast.Import):
            for al in st.names:
                imports[al.asname or al.name] = 'import ' + al.name
        elif isinstance(st, ast.ImportFrom):
            for al in st.names:
                imports[al.asname or al.name] = 'from %s import %s' % (st.module, al.name)
        elif isinstance(st, (ast.Assign, ast.FunctionDef, ast.ClassDef)):
            names = [st.name] if not isinstance(st, ast.Assign) else [t.id for t in st.targets if isinstance(t, ast.Name)]
            for nm in names:
                if nm in ('time', 'os', 'binascii', 'text_', 'bytes_', 'float', 'int', 'len', 'dict', 'getattr'):
                    problems.append('translator: module-level rebinding of %s' % nm)
    want = {'time': 'import time', 'os': 'import os', 'binascii': 'import binascii',
            'text_': 'from pyramid.util import text_', 'bytes_': 'from pyramid.util import bytes_'}
    for nm, w in want.items():
        if imports.get(nm) != w:
            problems.append('translator: %s is bound by %r, expected %r' % (nm, imports.get(nm), w))
    # serializer inside BaseCookieSessionFactory must be the parameter, SignedCookieSessionFactory is pinned
    f = find(tree, 'BaseCookieSessionFactory')
    if f is None or 'serializer' not in [a.arg for a in f.args.args]:
        problems.append('translator: serializer is no longer a parameter of BaseCookieSessionFactory')


def indent(term, n=2):
    """pretty indentation of the nested match/if/let text"""
    out, depth = [], 0
    for line in term.split('\n'):
        line = line.strip()
        if line.startswith('end'):
            depth -= 1
        out.append(' ' * (n + 2 * max(depth, 0)) + line)
        if line.startswith('match '):
            depth += 1
    return '\n'.join(out)


def load_fallback():
    try:
        with open(FALLBACK) as f:
            return json.load(f)
    except (OSError, ValueError):
        return {}


def translate_source(text, urandom_n=20):
    problems, out, summary = [], [], {}
    fb = load_fallback()
    try:
        tree = ast.parse(text)
    except SyntaxError as e:
        tree = None
        problems.append('translator: cannot parse session.py: %s' % e)
    if tree is not None:
        check_module(tree, problems)
    for spec in FUNCS:
        if spec == 'GLUE':
            out.append(GLUE)
            continue
        gen, body = spec['gen'], None
        if tree is not None:
            fn = find(tree, spec['qual'])
            if fn is None:
                problems.append('translator: %s not found (exactly once) in session.py' % spec['qual'])
            else:
                if spec.get('outer'):
                    check_outer(tree, spec['outer'], spec['qual'].split('.')[1], problems)
                tr = spec.get('cls', Tr)(fn, spec, urandom_n)
                try:
                    if spec['ret'] == 'INIT':
                        body = translate_init(tr)
                    else:
                        body = tr.translate()
                    body = indent(body)
                except Problem as e:
                    problems.append('translator: %s: %s' % (spec['qual'], e))
                except RecursionError:
                    problems.append('translator: %s: nesting too deep' % spec['qual'])
        if body is None:
            summary[gen] = 'FALLBACK (stored translation of the reference text)'
            body = fb.get(gen)
            if body is None:
                problems.append('translator: no stored fallback for %s' % gen)
                body = '  ' + DEFAULTS.get(gen, '(s0, RUnm)')
        else:
            summary[gen] = 'translated from source (%d lines of Gallina)' % (body.count('\n') + 1)
        out.append('Definition %s %s :=\n%s.\n' % (gen, spec['sig'], body))
    return '\n'.join(out), problems, summary


def translate_init(tr):
    """__init__ has no return: its last statement must be dict.__init__(self, state)"""
    fn, spec = tr.fn, tr.spec
    orig_ret = tr.ret

    def ret(env, node):
        if node is None and '$done' in env:
            return '$END'
        if node is None:
            raise Problem('__init__ can end without dict.__init__(self, state)')
        raise Problem('return inside __init__')
    tr.ret = ret
    return tr.translate()


HEADER = '''(* GENERATED on every run by harness/c10/translate.py from src/pyramid/session.py -- do not edit.
   Control flow translated mechanically; leaves through the primitive table of that file onto
   coq/Model/C10_base.v. *)
From Coq Require Import List NArith ZArith Bool.
Import ListNotations.
Require Import Verif.Lib.Wire Verif.Gen.Facts_C10 Verif.Model.C10_base.
Local Open Scope Z_scope.

'''


def translate_tree(src_root, urandom_n=20):
    path = os.path.join(src_root, 'pyramid/session.py')
    try:
        with open(path) as f:
            text = f.read()
    except OSError as e:
        coq, problems, summary = translate_source('', urandom_n)
        return HEADER + coq, ['translator: cannot read %s: %s' % (path, e)] + problems, summary
    coq, problems, summary = translate_source(text, urandom_n)
    return HEADER + coq, problems, summary


if __name__ == '__main__':
    import sys
    root = sys.argv[1] if len(sys.argv) > 1 and not sys.argv[1].startswith('--') else '/repo/src'
    if '--write-fallback' in sys.argv:
        with open(os.path.join(root, 'pyramid/session.py')) as f:
            tree = ast.parse(f.read())
        fbs = {}
        for spec in FUNCS:
            if spec == 'GLUE':
                continue
            tr = spec.get('cls', Tr)(find(tree, spec['qual']), spec, 20)
            fbs[spec['gen']] = indent(translate_init(tr) if spec['ret'] == 'INIT' else tr.translate())
        with open(FALLBACK, 'w') as f:
            json.dump(fbs, f, indent=1, sort_keys=True)
        print('wrote', FALLBACK)
    else:
        coq, problems, summary = translate_tree(root)
        print(coq)
        for p in problems:
            print('PROBLEM:', p)
        print(summary)
