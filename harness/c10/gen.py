"""C10 case generator: chains of requests with cookie sources, clocks, operations, options."""
import json

KEYS = ['a', 'b', 'k', 'user', '_f_', '_f_q', '_csrft_', 'é', 'x y', '']
QUEUES = ['', '', 'q', 'err']
STRS = ['', 'v', 'hello', 'a"b\\c', 'lüné', '€', '\U0001f600', 'tab\tnl\n', '\x00\x1f\x7f', '\ud800', 'x' * 40]
SECRETS = ['seekrit', 's' * 64, 'päss', 'k1', '€key']      # latin-1 / not latin-1: WebOb encodes the key differently
SALTS = ['pyramid.session.', 'pyramid.session.', '', None, 'salt.', 'sält', 'sa€']
ALGS = ['sha512', 'sha512', 'sha256', 'sha1', 'md5', 'sha384']
B64 = 'ABCDEFGHIJKLMNOPQRSTUVWXYZabcdefghijklmnopqrstuvwxyz0123456789-_'
ACC_OPS = ['get', 'getitem', 'items', 'values', 'keys', 'contains', 'len', 'iter', 'peek_flash', 'get_csrf_token']
MUT_OPS = ['clear', 'update', 'setdefault', 'pop', 'popitem', 'setitem', 'delitem', 'flash', 'pop_flash',
           'new_csrf_token', 'invalidate', 'changed', 'ior']


def gen_value(rng, depth=0):
    r = rng.random()
    if depth >= 3 or r < 0.55:
        k = rng.randrange(6)
        if k == 0:
            return None
        if k == 1:
            return rng.random() < 0.5
        if k == 2:
            return rng.choice([0, 1, -1, 7, 255, -1000, 2 ** 31, 10 ** 15, -(2 ** 53)])
        return rng.choice(STRS)
    if r < 0.8:
        return [gen_value(rng, depth + 1) for _ in range(rng.choice([0, 1, 2, 3]))]
    return {rng.choice(KEYS): gen_value(rng, depth + 1) for _ in range(rng.choice([0, 1, 2]))}


def gen_tok(rng):
    return ''.join(rng.choice('0123456789abcdef') for _ in range(40))


def gen_op(rng, t, mostly_acc=False):
    if mostly_acc:
        n = rng.choice(ACC_OPS) if rng.random() < 0.85 else rng.choice(MUT_OPS)
    else:
        n = rng.choice(ACC_OPS + MUT_OPS + ['setitem', 'setitem', 'flash', 'get'])
    o = {'op': n, 't': t}
    if n in ('get', 'setdefault'):
        o['k'] = rng.choice(KEYS)
        if rng.random() < 0.7:
            o['v'] = gen_value(rng, 2)
    elif n in ('getitem', 'contains', 'delitem'):
        o['k'] = rng.choice(KEYS)
    elif n in ('update', 'ior'):
        o['v'] = {rng.choice(KEYS): gen_value(rng, 1) for _ in range(rng.choice([0, 1, 2, 3]))}
        if rng.random() < 0.4:
            o['how'] = rng.choice(['pairs', 'iter', 'kwargs', 'both']) if n == 'update' else 'pairs'
    elif n == 'pop':
        o['k'] = rng.choice(KEYS)
        if rng.random() < 0.6:
            o['v'] = gen_value(rng, 2)
    elif n == 'setitem':
        o['k'] = rng.choice(KEYS)
        o['v'] = gen_value(rng)
    elif n == 'flash':
        # few distinct messages, so that an equal message is often already queued; optional arguments are left out
        # in a third of the calls each (the defaults are part of the API: ISession.flash(msg, queue='', allow_duplicate=True))
        o['v'] = rng.choice(['m', 'm', 'warn', 1, True, ['m'], None]) if rng.random() < 0.6 else gen_value(rng, 2)
        if rng.random() < 0.65:
            o['q'] = rng.choice(QUEUES)
        if rng.random() < 0.6:
            o['dup'] = rng.random() < 0.6
        if rng.random() < 0.3:
            o['kw'] = True
    elif n in ('pop_flash', 'peek_flash'):
        if rng.random() < 0.65:
            o['q'] = rng.choice(QUEUES)
        if rng.random() < 0.3:
            o['kw'] = True
    elif n in ('new_csrf_token', 'get_csrf_token'):
        o['tok'] = gen_tok(rng)
    if 'k' in o and rng.random() < 0.1:
        o['ksub'] = True
    return o


def gen_opts(rng):
    if rng.random() < 0.08:
        return {'secret': rng.choice(SECRETS), 'defaults': True}
    o = {'secret': rng.choice(SECRETS), 'salt': rng.choice(SALTS), 'hashalg': rng.choice(ALGS),
         'timeout': rng.choice([None, 1200, 1200, 60, 5, 1, 0, 30]),
         'reissue': rng.choice([None, 0, 0, 0, 3, 10, 120, 2000]),
         'soe': rng.random() < 0.65}
    # option values of other types than the documented int / bool (the code converts with int() / tests truth once,
    # at configuration time): bool-is-int, floats (truncated), digit strings, falsy-but-set values, refused strings
    if rng.random() < 0.22:
        o['timeout'] = rng.choice(ODD_TIMEOUTS)
    if rng.random() < 0.22:
        o['reissue'] = rng.choice(ODD_REISSUES)
    if rng.random() < 0.15:
        o['soe'] = rng.choice([0, 1, None, '', 'no', 0.0, 2.5, 7])
    # how the factory is called: some of the leading arguments POSITIONALLY, in the documented order (9..11 reach
    # set_on_exception / timeout / reissue_time, 12 / 13 hashalg / salt)
    # a custom serializer= (documented option): JSON wire format, but strict about the container types it is handed
    if rng.random() < 0.15:
        o['serializer'] = rng.choice(['strict', 'strict', 'pickle'])
    if rng.random() < 0.3:
        o['npos'] = rng.choice([2, 3, 8, 9, 9, 10, 10, 11, 11, 11, 12, 13])
    if rng.random() < 0.3:
        o['cookie_name'] = rng.choice(['session', 'sid', 'my.session'])
        o['max_age'] = rng.choice([None, None, 3600, 3600, 10, 10, 0, True, 10.75, '3600', '10', 'soon'])
        o['path'] = rng.choice(['/', '/app'])
        o['domain'] = rng.choice([None, 'example.com'])
        o['secure'] = rng.random() < 0.5
        o['httponly'] = rng.random() < 0.5
        o['samesite'] = rng.choice(['Lax', 'Strict', None])
    return o


ODD_TIMEOUTS = [True, False, 0, 0.0, 5.75, 1.25, '5', '60', '0', -3, 0.5, 'never', '', ' 5', 60.5, '1200']
ODD_REISSUES = [True, False, 0.0, 3.5, 0.75, '3', '0', -1, 'x', '10']


def gen_src(rng, i, malformed):
    if i == 0:
        r = rng.random()
        if r < 0.8:
            return {'kind': 'none'}
        if r < 0.9:
            return gen_garbage(rng)
        return gen_forged(rng)
    r = rng.random()
    if r < (0.45 if malformed else 0.8):
        return {'kind': 'last'}
    k = rng.choice(['flip', 'flip', 'trunc', 'trunc', 'append', 'append', 'insert', 'insert', 'insert', 'swapalpha', 'lastbits',
                    'other-secret', 'other-salt', 'other-alg',
                    'garbage', 'forged', 'stale', 'none'])
    if k == 'flip':
        return {'kind': 'flip', 'pos': rng.choice([0, 1, 5, 84, 85, 86, 87, 88, 100, -1, -2, -3, rng.randrange(0, 400)]),
                'ch': rng.choice(B64 + B64 + '=.!* é€')}
    if k == 'trunc':
        return {'kind': 'trunc', 'n': rng.choice([0, 1, 2, 3, 10, 86, rng.randrange(0, 300)]), 'end': rng.random() < 0.7}
    if k == 'append':
        return {'kind': 'append', 'text': rng.choice(APPENDS)}
    if k == 'insert':
        return {'kind': 'insert', 'pos': rng.choice([0, 1, 2, 3, 4, 10, 43, 85, 86, 87, 88, -1, -2, -3, -4, rng.randrange(0, 400)]),
                'text': rng.choice(INSERTS)}
    if k == 'swapalpha':
        return {'kind': 'swapalpha', 'n': rng.choice([1, 1, 2, 1000])}
    if k == 'lastbits':
        return {'kind': 'lastbits', 'bit': rng.randrange(0, 3)}
    if k == 'garbage':
        return gen_garbage(rng)
    if k == 'forged':
        return gen_forged(rng)
    if k == 'stale':
        return {'kind': 'stale', 'i': rng.randrange(0, 4)}
    return {'kind': k}


# what base64.urlsafe_b64decode / binascii.a2b_base64 (non-strict) tolerate: characters outside both alphabets are
# discarded anywhere (punctuation, whitespace, bytes >= 128), '=' is ignored unless it completes a quantum (then the
# rest is ignored), '+' '/' are accepted beside '-' '_'; data characters are NOT ignored (one or two more change or
# break the decoding); non-latin-1 text cannot even be encoded
INSERTS = ['!', '!!!!', '~', '.', '*', ' ', '\n', '\r\n', '\t', '\xe9', '\xff\xfe', '\u20ac', '=', '==', '===', '====',
           'A', 'AA', 'AAAA', '+', '/', '-', '!A', '=A']
APPENDS = ['=', '==', '===', '====', '!!!!', '=!!!!', '==AAAA', '=A', '\n', ' ', '.', 'A', 'AA', 'AAA', 'AAAA', 'xy',
           '\xe9', '\u20ac']


def gen_garbage(rng):
    return {'kind': 'garbage', 'text': rng.choice(
        ['', 'A', 'AAAA', 'garbage', '!!!!', 'e30', 'bnVsbA', '€€', 'a b', '=' * 4,
         ''.join(rng.choice(B64) for _ in range(rng.choice([3, 20, 86, 87, 120])))])}


def gen_forged(rng):
    t = 1000000
    p = rng.choice([
        None, 5, True, 'abc', 'ab', [], [1, 2], [1, 2, 3, 4], {'a': 1, 'b': 2, 'c': 3}, {'1': 0, '2': 0, '3': 0},
        [t, t, {'a': 1}], [t, t, []], [t, t, ''], [t, t, 'zz'], [t, t, 5], [t, t, None], [str(t), t, {}],
        ['x!', t, {}], [None, t, {}], [t, 'x!', {'a': 1}], [t, None, {'a': 1}], [[1], t, {}], [True, False, {}],
        [t + 0.0, t - 5.0, {'k': [1, 2]}], ['12', '34', {}], [t, {}, {}], '123', '1!3',
    ])
    return {'kind': 'forged', 'payload': p}


FRACS = [0, 0, 0, 0.25, 0.5, 0.75]


def advance(rng, opts):
    from harness.c10.prop import eff_int, opt
    to, ri = eff_int(opt(opts, 'timeout')), eff_int(opt(opts, 'reissue'))
    c = [0, 0, 1, 1, 2, 7]
    if ri is not None and ri != 'raises':
        c += [ri - 1, ri, ri + 1, ri + 1]
    if to is not None and to != 'raises':
        c += [to - 1, to, to, to + 1, to + 1, to + 500]
    d = max(0, rng.choice(c)) if rng.random() < 0.97 else -rng.choice([1, 5, 2000])
    if rng.random() < 0.45:
        d += rng.choice([0.25, 0.5, 0.75, -0.25, -0.5, -0.75])
    return d


def gen_chain(rng):
    opts = gen_opts(rng)
    n = rng.choice([1, 2, 2, 3, 3, 4, 5, 6])
    malformed = rng.random() < 0.3
    t = rng.choice([1000000, 1700000000, 5000]) + rng.choice(FRACS)
    reqs = []
    for i in range(n):
        t = max(0, t + (advance(rng, opts) if i else 0))
        mostly_acc = i > 0 and rng.random() < 0.35
        ops = []
        tt = t
        for _ in range(rng.choice([0, 1, 1, 2, 3, 4, 6])):
            if rng.random() < 0.15:
                tt = max(0, tt + advance(rng, opts))
            ops.append(gen_op(rng, tt, mostly_acc))
        if i == 0 and rng.random() < 0.8 and not any(o['op'] in MUT_OPS for o in ops):
            ops.append({'op': 'setitem', 'k': rng.choice(KEYS), 'v': gen_value(rng), 't': tt})
        reqs.append({'src': gen_src(rng, i, malformed), 't': t, 'ops': ops, 'exc': rng.random() < 0.15})
        if rng.random() < 0.2:       # other response callbacks of the application, registered before / after
            reqs[-1]['cbs'] = [rng.choice([0, 1, 2]), rng.choice([0, 1, 3])]
        t = tt
    if opts.get('serializer') == 'pickle':
        # the legacy serializer is judged against the JSON twin: sources that do not depend on the cookie text
        for r in reqs:
            if r['src']['kind'] not in ('none', 'last', 'garbage', 'stale'):
                r['src'] = {'kind': 'last'} if reqs.index(r) else {'kind': 'none'}
    case = {'opts': opts, 'reqs': reqs}
    if rng.random() < 0.25:
        # through a real Router (request.session, exception view, Set-Cookie header); the factory configured through
        # the Configurator constructor or through config.set_session_factory
        case['router'] = True if rng.random() < 0.7 else 'setter'
    return case


def gen_oversize(rng):
    """one big value placed so that the cookie length lands within a few characters of the limit"""
    import hashlib
    from harness.c10 import prop
    opts = gen_opts(rng)
    opts.pop('defaults', None)
    if opts.get('serializer') == 'pickle':
        del opts['serializer']
    opts.setdefault('hashalg', 'sha512')
    limit = prop.SPEC_LIMIT
    ds = hashlib.new(opts['hashalg']).digest_size
    t = 1000000
    target = limit + rng.choice([-3, -2, -1, 0, 0, 1, 1, 2, 3, 4])
    base = len(json.dumps((t, float(t), {'big': ''})))
    # cookie length = ceil(4 * (ds + payload) / 3)
    L = max(0, (target * 3) // 4 - ds - base + rng.choice([0, 0, 1]))
    reqs = [{'src': {'kind': 'none'}, 't': t, 'exc': False,
             'ops': [{'op': 'setitem', 'k': 'big', 'v': 'x' * L, 't': t}]}]
    if rng.random() < 0.7:
        reqs.append({'src': {'kind': 'last'}, 't': t + 1, 'exc': False,
                     'ops': [gen_op(rng, t + 1) for _ in range(rng.choice([1, 2]))]})
    if rng.random() < 0.5:
        reqs.insert(0, {'src': {'kind': 'none'}, 't': t - 1, 'exc': False,
                        'ops': [{'op': 'setitem', 'k': 'a', 'v': 1, 't': t - 1}]})
        reqs[1]['src'] = {'kind': 'last'}
    return {'opts': opts, 'reqs': reqs}


def generate(rng, tier, n):
    for i in range(n):
        if rng.random() < 0.06:
            yield gen_oversize(rng)
        else:
            yield gen_chain(rng)


SRC_KINDS = {'none', 'last', 'flip', 'trunc', 'append', 'insert', 'swapalpha', 'lastbits', 'other-secret', 'other-salt', 'other-alg', 'garbage', 'forged', 'stale'}


def _okt(t):
    return isinstance(t, (int, float)) and not isinstance(t, bool) and 0 <= t <= 2 ** 40 and t * 4 == int(t * 4)


def _okv(v):
    """an option value the model knows: None, bool, int, float on the 1/4 grid, short str"""
    if v is None or isinstance(v, bool):
        return True
    if isinstance(v, int):
        return abs(v) < 2 ** 40
    if isinstance(v, float):
        return abs(v) < 2 ** 40 and v * 4 == int(v * 4)
    return isinstance(v, str) and len(v) <= 20


def valid(case):
    try:
        o = case['opts']
        if not isinstance(o.get('secret'), str) or not o['secret']:
            return False
        if o.get('hashalg', 'sha512') not in ALGS:
            return False
        for k in ('timeout', 'reissue', 'max_age', 'soe'):
            if k in o and not _okv(o[k]):
                return False
        if o.get('serializer') == 'pickle' and any(r['src'].get('kind') not in ('none', 'last', 'garbage', 'stale')
                                                   for r in case['reqs']):
            return False
        if o.get('serializer') not in (None, 'strict', 'pickle') or (o.get('defaults') and 'serializer' in o):
            return False
        if 'npos' in o and not (isinstance(o['npos'], int) and not isinstance(o['npos'], bool) and 1 <= o['npos'] <= 13):
            return False
        if not case['reqs']:
            return False
        if 'router' in case and case['router'] is not True and case['router'] != 'setter':
            return False
        if o.get('salt', '') not in SALTS or o.get('cookie_name', 'session') not in ('session', 'sid', 'my.session'):
            return False
        if o.get('path', '/') not in ('/', '/app') or o.get('domain') not in (None, 'example.com'):
            return False
        if o.get('samesite', 'Lax') not in ('Lax', 'Strict', None):
            return False
        for k in ('secure', 'httponly', 'defaults'):
            if k in o and not isinstance(o[k], bool):
                return False
        from harness.c10.prop import OPCODE, op_wire
        for r in case['reqs']:
            s = r['src']
            if s['kind'] not in SRC_KINDS:
                return False
            if s['kind'] == 'flip' and (not isinstance(s['ch'], str) or len(s['ch']) != 1 or not isinstance(s['pos'], int)):
                return False
            if s['kind'] in ('garbage', 'append', 'insert') and not isinstance(s['text'], str):
                return False
            if s['kind'] == 'insert' and not isinstance(s.get('pos'), int):
                return False
            if s['kind'] == 'trunc' and not isinstance(s['n'], int):
                return False
            if not _okt(r['t']):
                return False
            if 'cbs' in r and not (isinstance(r['cbs'], list) and len(r['cbs']) == 2 and all(
                    isinstance(x, int) and not isinstance(x, bool) and 0 <= x <= 5 for x in r['cbs'])):
                return False
            for op in r['ops']:
                if op['op'] not in OPCODE or not _okt(op['t']):
                    return False
                if ('kw' in op and op['kw'] is not True) or ('q' in op and not isinstance(op['q'], str)) \
                        or ('dup' in op and not isinstance(op['dup'], bool)):
                    return False
                if 'k' in op and not isinstance(op['k'], str):
                    return False
                if ('ksub' in op and op['ksub'] is not True) or op.get('how') not in (None, 'pairs', 'iter', 'kwargs', 'both'):
                    return False
                if op.get('how') and (op['op'] not in ('update', 'ior') or (op['op'] == 'ior' and op['how'] != 'pairs')):
                    return False
                if 'tok' in op and (len(op['tok']) != 40 or any(c not in '0123456789abcdef' for c in op['tok'])):
                    return False
                if op['op'] in ('new_csrf_token', 'get_csrf_token') and 'tok' not in op:
                    return False
                if op['op'] in ('update', 'ior') and not isinstance(op.get('v'), dict):
                    return False
                if op['op'] in ('setitem', 'flash') and 'v' not in op:
                    return False
                if op['op'] in ('getitem', 'contains', 'delitem', 'setitem', 'pop', 'get', 'setdefault') and 'k' not in op:
                    return False
                op_wire(op)
        return True
    except Exception:
        return False


def targeted(broken, disagreements, rng):
    """small exhaustive-ish families around each mechanism: every operation alone after a stored
    value, at the reissue/timeout boundaries, with and without exception, and the size boundary."""
    out = []
    t = 1000000
    first = {'src': {'kind': 'none'}, 't': t, 'exc': False, 'ops': [
        {'op': 'setitem', 'k': 'a', 'v': [1, 'x'], 't': t}, {'op': 'flash', 'v': 'm', 'q': '', 'dup': True, 't': t},
        {'op': 'new_csrf_token', 'tok': 'ab' * 20, 't': t}]}
    for to, ri in [(1200, 0), (60, 10), (None, None), (5, 120), (60, None)]:
        opts = {'secret': 'seekrit', 'timeout': to, 'reissue': ri, 'soe': True}
        for name in ACC_OPS + MUT_OPS:
            for dt in sorted({0, 0.75, 1, (ri or 0), (ri or 0) + 0.25, (ri or 0) + 1, (to or 0), (to or 0) + 0.25, (to or 0) + 1}):
                op = {'op': name, 't': t + dt}
                if name in ('get', 'setdefault', 'getitem', 'contains', 'delitem', 'pop', 'setitem'):
                    op['k'] = 'a'
                if name in ('setdefault', 'setitem', 'flash'):
                    op['v'] = 'w'
                if name in ('update', 'ior'):
                    op['v'] = {'a': 2}
                if name in ('new_csrf_token', 'get_csrf_token'):
                    op['tok'] = 'cd' * 20
                for exc in (False, True):
                    for soe in (True, False):
                        o2 = dict(opts, soe=soe)
                        out.append({'opts': o2, 'reqs': [first, {'src': {'kind': 'last'}, 't': t + dt, 'exc': exc, 'ops': [op]},
                                                         {'src': {'kind': 'last'}, 't': t + dt + 1, 'exc': False,
                                                          'ops': [{'op': 'items', 't': t + dt + 1}]}]})
    for _ in range(300):
        out.append(gen_oversize(rng))
    rng.shuffle(out)
    return out[:6000]
