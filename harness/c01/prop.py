"""C01 -- URL dispatch picks the first declared route whose pattern and predicates match."""
import os
import re
import json

from harness.c01 import c01facts
from harness.c01 import gen as G

ID = 'C01'
HERE = os.path.dirname(os.path.abspath(__file__))
CASES = {'quick': 6000, 'thorough': 150000}
PARALLEL = True
PROOF_TIMEOUT = 900
ALLOWED_AXIOMS = ()
RULE = ('1-6 route declarations (literals over an alphabet with every regex metacharacter, %, space, non-ASCII and astral '
        'characters; {n}, {n:regex} in the supported sublanguage, old-style :n, *remainder, 0-3 placeholders per segment, '
        'duplicate names, static routes, predicates const/method/match-value) x PATH_INFO obtained by instantiating a '
        'declared route and applying 0-2 edits (char insert/delete/replace, case flip, slash add/remove, appended '
        'newline/CR/NUL, percent-encoding, invalid UTF-8 splices) or fully random; non-trivial = some declared route has a '
        'placeholder AND (the outcome is a match with a non-empty match dictionary OR the path is an edited instantiation, '
        'i.e. a near-miss); distinct by full case; thorough tier additionally runs the exhaustive small-scope '
        'enumeration described in coverage.exhaustive_subruns (gen.EXH_SPACE); histories on ONE long-lived mapper/app: earlier '
        'dispatches whose match dictionary is then mutated, and listings (get_routes(include_static), has_routes, get_route) '
        'before the final dispatch; router mode declares routes inside nested config.include(route_prefix=..) and uses the real '
        'request_method / xhr / request_param / header predicates, plain and wrapped in not_(); both modes: REAL request_param= '
        "(forms 'k', 'k=v', 'k=' i.e. present-and-empty, blanks around the halves, '=k=v', several values, negated) and xhr= "
        'predicates evaluated on requests with a query string (required value given / another / empty / key missing / key twice) and '
        'X-Requested-With, per history step; custom predicates answering with non-bool truthy / falsy values (None, 0, \'\', (), [], {}, '
        "0.0 / 1, 'y', (0,), [0], {..}, 1.5, an object); traverse= hybrid routes (TraversePredicate) whose captures contain characters "
        "URL quoting changes and *remainder tuples, also with a placeholder itself called 'traverse'; round 6: REAL header= "
        "predicates ('Name', 'Name:regex', SEQUENCES of 1-3 requirements, negated) on requests with headers (required header "
        'missing / present with matching or non-matching value, names in other case or with _ for -), REAL request_method= predicates '
        '(single and tuples) on GET / POST / HEAD / PUT requests (GET implies HEAD), placeholders and remainders NAMED subpath / traverse '
        '(names the traverser reads) observed through request.matchdict in the view; the router-mode observation is handed over '
        'in-process (HEAD responses have no body); round 7: router mode re-declares a route name that an include declared (the '
        'top-level declaration overrides, at its own place in declaration order, usually AFTER other overlapping routes; also two '
        'includes + override, and conflicting declarations), and passes the legacy path= argument (alone, or together with a '
        'different / the same pattern=); routes are identified by a per-declaration pregenerator tag')
ASSUMPTIONS = [
    'route patterns are str; {name:regex} regexes outside the sublanguage (a non-empty sequence of atoms \\d \\w . [set] [^set] or a '
    'plain character, each with quantifier none + * ? {n} {n,} {,m} {n,m}) are classified Unsupported by the model and excluded',
    'Unicode classification of non-ASCII characters by \\w and \\d is an oracle computed with re itself per case; '
    'theorems hold for every oracle',
    'route predicates are modelled as pure functions of (request method, match dictionary, query parameters, X-Requested-With, headers); '
    'header regexes outside the sublanguage of {name:regex} are Unsupported (excluded); header names Content-Type / Content-Length / Host '
    'are not used; header lookup = WSGI key HTTP_ + upper-cased name with - replaced by _ (modelled, validated by correspondence); '
    'the VALUE a traverse= route stores under matchdict[\'traverse\'] (URL generation + traversal_path: C06 / C02) is not compared, '
    'only the presence of the key and every captured entry',
    "WebOb's parsing of the query string into request.params is not modelled: the model receives the (key, value) pairs the harness "
    'urlencoded; params.get = last value is modelled (validated by correspondence)',
    'PATH_INFO is a WSGI latin-1 string (code points < 256)',
]
TRUSTED = [
    'the PRIMITIVE TABLE of harness/c01/translate.py (about 45 lines: each maps one Python/WebOb/Pyramid leaf expression or '
    'statement onto a primitive of coq/Model/C01.v) and the translator itself (fail-closed Python-ast -> Gallina, control '
    'flow mechanical); its output is proved equal to the hand-written reference model on every run',
    'hand-written model of the parts NOT translated: the pattern parser part of _compile_route (masked shape pin + '
    'regenerated string literals), Router.handle_request, RoutesMapper.__init__, update_pattern, the rest of add_route / '
    'route_prefix_context with the translated fragments cut out, the request chain of Router, get_routes_mapper, the predicate '
    'list machinery of config/predicates.py and the predicate classes the runs use (shape pins: RequestParamPredicate.__init__ -- '
    'hand-modelled as param_parse --, HeaderPredicate.__init__ -- header_parse --, RequestMethodPredicate.__init__ -- method_init_model --, '
    'XHRPredicate.__init__, TraversePredicate, CustomPredicate, Notted)',
    'the conflict resolution of the commit (config/actions.py: resolveConflicts, ActionState.execute_actions / action, '
    'ActionConfiguratorMixin.action: shape pins) hand-modelled as resolve_overrides for the include shapes of the harness (own include '
    'chain per nested declaration; the root configurator overrides)',
    'the fail-closed scan c01facts.matchdict_sites (which functions of the package write to or hand on the live match dictionary)',
    "CPython re for the supported sublanguage and re.escape, WebOb's PATH_INFO decoding (modelled, validated by the "
    'correspondence run, not verified)',
]
TECHNIQUE = ('control-flow model REGENERATED from the source on every run by a fail-closed Python-ast -> Gallina translator '
             '(RoutesMapper.__call__, RoutesMapper.connect, Route.__init__, the matcher closure of _compile_route, split_path_info, '
             'decode_path_info, the listings get_routes / has_routes / get_route, the __call__ of RequestParamPredicate / HeaderPredicate / '
             'XHRPredicate / RequestMethodPredicate, the legacy path= statement and the route-prefix '
             'fragments of Configurator.add_route / route_prefix_context) + Coq proofs that the regenerated program equals the hand-written reference model and satisfies '
             'the property theorems + regenerated string facts + differential correspondence of the extracted regenerated program')
LEVEL_TEXT = ('Machine-checked theorems for every pattern of the modelled sublanguage, every path and every route list: the '
              'backtracking matcher of the compiled pattern is sound, complete and greedy w.r.t. a declarative decomposition '
              'of the WHOLE path (this depends on the regenerated anchor and remainder-group facts), it equals the executable '
              'specification, and the program regenerated from RoutesMapper.__call__ / connect / Route.__init__ / the matcher '
              'closure / split_path_info on this run is proved equal to the reference model and to return exactly the first route '
              'in declaration order (last declaration of a name wins) whose pattern matches and whose predicates hold (none if no '
              'route qualifies; URLDecodeError before any matching for invalid UTF-8), independently of earlier dispatches. Request '
              'predicates: the regenerated RequestParamPredicate.__call__ holds iff every required key is present (last value) and every '
              'required value, the empty one included, equals it; resolving request predicates on the request and dispatching with the '
              'regenerated program equals the declarative specification; a traverse= route keeps every captured entry. The regenerated '
              'HeaderPredicate.__call__ holds iff EVERY requirement holds (order irrelevant), request_method= adds HEAD exactly when GET is '
              'listed; only the matcher closure and TraversePredicate.__call__ write to the match dictionary (structural fact). pattern= wins '
              'over the legacy path= (regenerated statement); the declarations surviving include overrides are characterised (each at the '
              'index of its own declaration, in order) and the regenerated program on them equals the specification. For ANY '
              'anchor and DOTALL flag a match decomposes the path along the pattern up to what the end of the regex accepts; with the old '
              '$ anchor that is at most ONE final newline (C01_match_sound_dollar). End to end: a route selected by the regenerated __call__ '
              'decomposes the whole decoded path, its predicates hold and no earlier route qualifies; none is selected iff none qualifies. The '
              'extracted regenerated program is run against RoutesMapper and Router.')
LEVEL_NOTE = ('Trusted: Coq kernel; the translator and its primitive table (harness/c01/translate.py); the hand-written model of the '
              'pattern parser (masked pin + regenerated literals) and the link between the matcher closure\'s groupdict and the '
              'AST-level matcher (validated by correspondence); Python harness; re / re.escape / WebOb decoding modelled not '
              'verified; arbitrary user regexes inside {name:regex} are outside the model; Router.handle_request is pinned, not '
              'translated; the __init__ of the predicate classes (param_parse, header_parse, method_init_model) and TraversePredicate are '
              'hand-modelled and pinned; the value stored under matchdict[traverse] and accept / path_info / match_param predicates are '
              'not modelled; '
              'pregenerators and debug_routematch logging not covered.')

facts = c01facts.facts

# ------------------------------------------------------------ generation
generate = G.generate


def valid(case):
    try:
        if not isinstance(case.get('decls'), list) or not case['decls'] or len(case['decls']) > 8:
            return False
        for d in case['decls']:
            if not (isinstance(d['name'], str) and d['name'] and isinstance(d['pattern'], str)):
                return False
            if d['static'] not in (0, 1):
                return False
            if d.get('levels') or d.get('inherit'):
                # route prefixes exist only behind Configurator.include; inherit_slash is only legal with an empty pattern;
                # a name declared twice at different include depths is resolved, not refused (C04's business)
                if case['mode'] != 'router' or not all(isinstance(x, str) for x in d.get('levels') or []):
                    return False
                if d.get('inherit') and d['pattern'] != '':
                    return False
            if d.get('path') is not None or d.get('nopat'):
                # the legacy path= argument of add_route (pattern= given as well, or left out: then d['pattern'] repeats the path text)
                if case['mode'] != 'router' or not isinstance(d.get('path'), str) or (d.get('nopat') and d['pattern'] != d['path']):
                    return False
            for p in d['preds']:
                if p[0] == 'const':
                    if p[1] not in (0, 1) or len(p) > 3:
                        return False
                elif p[0] == 'method':
                    if not isinstance(p[1], str) or len(p) > 3:
                        return False
                elif p[0] == 'eq':
                    if not (isinstance(p[1], str) and isinstance(p[2], str)) or len(p) > 4:
                        return False
                elif p[0] == 'param':
                    if len(p) != 3 or p[1] not in (0, 1) or not p[2] or not all(isinstance(x, str) and x for x in p[2]):
                        return False
                elif p[0] == 'xhr':
                    if len(p) != 3 or p[1] not in (0, 1) or p[2] not in (0, 1):
                        return False
                elif p[0] == 'rmethod':
                    if len(p) != 3 or p[1] not in (0, 1) or not p[2] or not all(x in ('GET', 'POST', 'HEAD', 'PUT') for x in p[2]):
                        return False
                elif p[0] == 'header':
                    # 'Name' / 'Name:regex'; the regex must compile (else add_route raises ConfigurationError)
                    if len(p) != 3 or p[1] not in (0, 1) or not p[2] or not all(_header_val_ok(x) for x in p[2]):
                        return False
                elif p[0] == 'traverse':
                    # the traverse pattern may only use names the route pattern captures (else the generator raises KeyError)
                    if len(p) != 2 or not isinstance(p[1], str) or not _traverse_ok(d['pattern'], p[1]):
                        return False
                else:
                    return False
                if p[0] in ('const', 'method', 'eq') and not isinstance(p[-1], (int, str)):
                    return False
        for rq in [case.get('req')] + [st.get('req') for st in case.get('history') or []]:
            if rq is not None and not (rq['xhr'] in (0, 1) and all(isinstance(k, str) and isinstance(v, str) for k, v in rq['q'])):
                return False
            if rq is not None and not _hdrs_ok(rq.get('hdr') or []):
                return False
        if case['path'] is not None:
            if not isinstance(case['path'], str) or any(ord(c) > 255 for c in case['path']):
                return False
        if case['mode'] == 'router' and not G.router_ok(case):
            return False
        for st in case.get('history') or []:
            if 'list' in st:
                if st['list'][0] not in ('routes', 'has', 'get') or (st['list'][0] == 'get' and not isinstance(st['list'][1], str)):
                    return False
                continue
            if not isinstance(st['path'], str) or any(ord(c) > 255 for c in st['path']) or st['method'] not in ('GET', 'POST', 'HEAD', 'PUT'):
                return False
            for op in st['mutate']:
                if op[0] not in ('set', 'add', 'del', 'conv') or not isinstance(op[1], int):
                    return False
        return case['mode'] in ('mapper', 'router') and case['method'] in ('GET', 'POST', 'HEAD', 'PUT')
    except Exception:
        return False


_HNAME = re.compile(r'[A-Za-z][A-Za-z0-9_-]*\Z')


def _header_val_ok(x):
    if not isinstance(x, str):
        return False
    name, _, rx = x.partition(':')
    if not _HNAME.match(name) or name.upper().replace('_', '-') in ('CONTENT-TYPE', 'CONTENT-LENGTH', 'X-REQUESTED-WITH', 'HOST'):
        return False
    try:
        re.compile(rx)
    except re.error:
        return False
    return True


def _hdr_key(name):
    return 'HTTP_' + name.upper().replace('-', '_')


def _hdrs_ok(hdr):
    # request headers: ASCII names and values, distinct WSGI keys (the environ is a dict)
    try:
        keys = [_hdr_key(n) for n, v in hdr]
        return all(_header_val_ok(n) and isinstance(v, str) and v.isascii() and '\n' not in v and '\r' not in v for n, v in hdr) \
            and len(set(keys)) == len(keys)
    except Exception:
        return False


_NAMES = G.NAMES
_traverse_ok = G.traverse_ok


# ------------------------------------------------------------ wire
_W = re.compile(r'\w')
_D = re.compile(r'\d')


def _dec(path):
    if path is None:
        return ''
    try:
        return path.encode('latin-1').decode('utf-8', 'ignore')
    except Exception:
        return ''


def _decoded(case):
    return _dec(case['path']) + ''.join(_dec(st['path']) for st in case.get('history') or [] if 'list' not in st)


def _oracle(case):
    chars = set()
    for d in case['decls']:
        chars.update(c for c in d['pattern'] + (d.get('path') or '') if ord(c) > 127)
    chars.update(c for c in _decoded(case) if ord(c) > 127)
    chars = sorted(chars)
    return [''.join(c for c in chars if _W.match(c)), ''.join(c for c in chars if _D.match(c))]


def _pred_wire(p):
    # the model sees whether a custom predicate holds; WHICH truthy / falsy Python value it answers with (the optional
    # last element, an index into TRUTHY / FALSY) is the implementation's business
    if p[0] == 'const':
        return [0, int(p[1])]
    if p[0] == 'method':
        return [1, p[1]]
    if p[0] == 'param':
        return [3, int(p[1]), list(p[2])]
    if p[0] == 'xhr':
        return [4, int(p[1]), int(p[2])]
    if p[0] == 'traverse':
        return [6, p[1]]
    if p[0] == 'header':
        return [5, int(p[1]), list(p[2])]
    if p[0] == 'rmethod':
        return [7, int(p[1]), list(p[2])]
    return [2, p[1], p[2]]


def _req_wire(rq):
    rq = rq or {'q': [], 'xhr': 0}
    return [[[k, v] for k, v in rq['q']], int(rq['xhr']), [[n, v] for n, v in rq.get('hdr') or []]]


def _step_wire(st):
    if 'list' in st:
        op = st['list']
        return [1, int(op[1])] if op[0] == 'routes' else [2] if op[0] == 'has' else [3, op[1]]
    if st.get('req') is not None:
        return [[st['path']], st['method'], _req_wire(st['req'])]
    return [[st['path']], st['method']]


def _router_real_method(d):
    """router mode: a declaration's single plain `method` predicate is passed as the REAL request_method= argument
    (RequestMethodPredicate: GET implies HEAD), so that is what the model is told"""
    meth = [p for p in d['preds'] if p[0] == 'method']
    if len(meth) == 1 and len(meth[0]) == 2 and not any(p[0] == 'rmethod' for p in d['preds']):
        return meth[0]
    return None


def to_wire(case):
    def pw(d, p):
        if case['mode'] == 'router' and p is _router_real_method(d):
            return [7, 0, [p[1]]]
        return _pred_wire(p)
    decls = [[d['name'], [] if d.get('nopat') else [d['pattern']], int(d['static']), [pw(d, p) for p in d['preds']],
              list(d.get('levels') or []), int(d.get('inherit') or 0), [] if d.get('path') is None else [d['path']]]
             for d in case['decls']]
    raw = [] if case['path'] is None else [case['path']]
    return [_oracle(case), decls, raw, case['method'], 1 if case['mode'] == 'router' else 0,
            [_step_wire(st) for st in case.get('history') or []], _req_wire(case.get('req'))]


def _canon_outcome(o):
    if len(o) == 3 and o[0] == 1:
        return [1, o[1], sorted([[k, v] for k, v in o[2]])]
    return o


def from_wire(case, raw):
    if not (isinstance(raw, list) and len(raw) == 4 and isinstance(raw[0], list) and len(raw[0]) == 5):
        return {'model': ['MODEL-BAD', raw], 'spec': None}
    (sts, rl, st, out, tr), spec, hm, hs = raw
    router = case['mode'] == 'router'
    model = [[] if router else sts, rl, st, _canon_outcome(out), [t for t in tr if t[1] > 0]]
    hist = case.get('history')
    if hist:
        model.append([_canon_outcome(o) for o in hm] if out != [3] else [])
    if any(s >= 2 for s in sts) or hm == ['drift']:
        model = ['unsupported', sts]
    sp = None
    if spec:
        sp = _canon_outcome(spec[0])
        if hist:
            if all(x for x, st in zip(hs, hist) if 'list' not in st):
                sp = [sp, [None if 'list' in st else _canon_outcome(x[0]) for x, st in zip(hs, hist)]]
            else:
                sp = None
    return {'model': model, 'spec': sp}


def equiv(case, obs, model):
    # patterns outside the modelled regex sublanguage: the model says so and is not compared
    return bool(model) and model[0] == 'unsupported'


# ------------------------------------------------------------ implementation
_impl = {}


def setup(tier):
    import warnings
    warnings.simplefilter('ignore')
    from pyramid.urldispatch import RoutesMapper
    from pyramid.request import Request
    from pyramid.exceptions import URLDecodeError
    from pyramid.config import Configurator
    from pyramid.response import Response
    _impl.update(RoutesMapper=RoutesMapper, Request=Request, URLDecodeError=URLDecodeError,
                 Configurator=Configurator, Response=Response)


class _Obj:
    pass


# what a custom predicate may answer with when it does not hold / holds (`return rx.match(..)`, `return d.get(..)`, ...)
FALSY = [False, None, 0, '', (), [], {}, 0.0]
TRUTHY = [True, 1, 'y', (0,), [0], {'a': 1}, 1.5, _Obj()]
_BASELEN = {'const': 2, 'method': 2, 'eq': 3}


def _mk_pred(p, ridx, calls):
    kind = p[0]
    if kind in ('param', 'xhr', 'traverse', 'header', 'rmethod'):
        # the REAL predicate classes, built the way PredicateList.make builds them
        from pyramid import predicates as P
        if kind == 'param':
            real = P.RequestParamPredicate(p[2][0] if len(p[2]) == 1 else tuple(p[2]), None)
        elif kind == 'xhr':
            real = P.XHRPredicate(bool(p[2]), None)
        elif kind == 'rmethod':
            real = P.RequestMethodPredicate(p[2][0] if len(p[2]) == 1 else tuple(p[2]), None)
        elif kind == 'header':
            real = P.HeaderPredicate(p[2][0] if len(p[2]) == 1 else tuple(p[2]), None)
        else:
            real = P.TraversePredicate(p[1], None)
        if kind != 'traverse' and p[1]:
            real = P.Notted(real)

        def counted(info, request):
            calls.append(ridx)
            return real(info, request)
        return counted
    flav = p[-1] if len(p) > _BASELEN[kind] else 0

    def pred(info, request):
        calls.append(ridx)
        if kind == 'const':
            b = bool(p[1])
        elif kind == 'method':
            b = request.method == p[1]
        else:
            b = info['match'].get(p[1]) == p[2]
        return (TRUTHY if b else FALSY)[flav % len(FALSY)]
    return pred


def _has_traverse(d):
    return any(p[0] == 'traverse' for p in d['preds'])


def _canon_traverse(case, idx, obs_dict):
    """The VALUE stored under 'traverse' by a traverse= route is URL generation + traversal_path (C06 / C02), not this
    property: it is replaced by the empty tuple (the model does the same); the key itself is kept."""
    if 0 <= idx < len(case['decls']) and _has_traverse(case['decls'][idx]) \
            and 'traverse' not in _NAMES.findall(case['decls'][idx]['pattern']):     # a captured 'traverse' is compared as it is
        return sorted([[k, [1, []]] if k == 'traverse' else [k, v] for k, v in obs_dict])
    return obs_dict


def _environ_extra(environ, rq):
    from urllib.parse import urlencode
    rq = rq or {'q': [], 'xhr': 0}
    environ['QUERY_STRING'] = urlencode([(k, v) for k, v in rq['q']])
    if rq['xhr']:
        environ['HTTP_X_REQUESTED_WITH'] = 'XMLHttpRequest'
    else:
        environ.pop('HTTP_X_REQUESTED_WITH', None)
    for n, v in rq.get('hdr') or []:
        environ[_hdr_key(n)] = v


def _dict_obs(match):
    out = []
    for k, v in match.items():
        if isinstance(v, tuple):
            out.append([k, [1, list(v)]])
        else:
            out.append([k, [0, v]])
    return sorted(out)


def _trace(calls):
    tr = []
    for r in calls:
        if tr and tr[-1][0] == r:
            tr[-1][1] += 1
        else:
            tr.append([r, 1])
    return tr


def _mutate(d, ops):
    """In-place edits of a match dictionary the caller was handed: replace a value, add a key, delete a key, convert."""
    for op in ops:
        keys = sorted(d)
        if op[0] == 'add':
            d['zz_added%d' % op[1]] = 'ADDED'
        elif keys:
            k = keys[op[1] % len(keys)]
            if op[0] == 'set':
                d[k] = 'REPLACED'
            elif op[0] == 'del':
                del d[k]
            elif op[0] == 'conv':
                d[k] = d[k].upper() + '!' if isinstance(d[k], str) else tuple(x.upper() for x in d[k]) + ('!',)


def _run_mapper(case):
    mapper = _impl['RoutesMapper']()
    calls = []
    sts = []
    for i, d in enumerate(case['decls']):
        preds = [_mk_pred(p, i, calls) for p in d['preds']]
        try:
            r = mapper.connect(d['name'], d['pattern'], predicates=preds, static=bool(d['static']))
            r._verif_idx = i
            sts.append(0)
        except re.error:
            sts.append(1)
        except Exception as e:
            sts.append('EXC:' + type(e).__name__)
    rl = [r._verif_idx for r in mapper.routelist]
    st = [r._verif_idx for r in mapper.static_routes]
    def one(path, method, ops, rq):
        environ = {'REQUEST_METHOD': method}
        if path is not None:
            environ['PATH_INFO'] = path
        _environ_extra(environ, rq)
        request = _impl['Request'](environ)
        try:
            info = mapper(request)
            if info['route'] is None:
                return [2]
            out = [1, info['route']._verif_idx, _canon_traverse(case, info['route']._verif_idx, _dict_obs(info['match']))]
            _mutate(info['match'], ops)      # what a view (request.matchdict) or a predicate (info['match']) may do
            return out
        except _impl['URLDecodeError']:
            return [0]
    def listing(op):
        # what proutes / introspection tooling does on the long-lived mapper between requests
        if op[0] == 'routes':
            return [4, [r._verif_idx for r in mapper.get_routes(include_static=bool(op[1]))]]
        if op[0] == 'has':
            return [5, int(bool(mapper.has_routes()))]
        r = mapper.get_route(op[1])
        return [6, [] if r is None else [r._verif_idx]]
    hist = [listing(h['list']) if 'list' in h else one(h['path'], h['method'], h['mutate'], h.get('req') or case.get('req'))
            for h in case.get('history') or []]
    del calls[:]
    out = one(case['path'], case['method'], [], case.get('req'))
    rl = [r._verif_idx for r in mapper.routelist]
    st = [r._verif_idx for r in mapper.static_routes]
    res = [sts, rl, st, out, _trace(calls)]
    if case.get('history'):
        res.append(hist)
    return res


def _add_route_nested(config, levels, name, pattern, kw):
    """config.include(.., route_prefix=levels[0]) around an include with levels[1] ... around the add_route call"""
    if not levels:
        config.add_route(name, pattern, **kw)
        return

    def included(c, rest=levels[1:]):
        _add_route_nested(c, rest, name, pattern, kw)
    # Configurator.include skips a callable whose module:name it has already processed
    _impl['ninc'] = _impl.get('ninc', 0) + 1
    included.__name__ = included.__qualname__ = 'included_%d' % _impl['ninc']
    config.include(included, route_prefix=levels[0])


def _run_router(case):
    from webob import Request as WRequest
    Response = _impl['Response']
    calls = []
    seen = {}
    viewed = set()

    cur = {'ops': []}

    def view(request):
        body = json.dumps({'name': request.matched_route.name, 'idx': request.matched_route.pregenerator.idx,
                           'match': _dict_obs(request.matchdict)})
        cur['seen'] = body          # (a HEAD response has no body: the observation is handed over in-process)
        _mutate(request.matchdict, cur['ops'])
        return Response(body=body.encode('utf-8'), content_type='application/json')

    def notfound(request):
        mr = getattr(request, 'matched_route', None)
        cur['seen'] = json.dumps({'name': None, 'matched': mr.name if mr is not None else None})
        return Response(body=json.dumps({'name': None, 'matched': mr.name if mr is not None else None}).encode('utf-8'),
                        content_type='application/json')

    class Node:
        # hybrid routes (traverse=, *traverse): traversal finds a resource for every name, so the route's view is found
        def __init__(self, request=None):
            pass

        def __getitem__(self, name):
            return Node()
    allreq = [case.get('req')] + [h.get('req') for h in case.get('history') or []]
    any_xhr = any(rq and rq['xhr'] for rq in allreq)
    try:
        hybrid = any(_has_traverse(d) or 'traverse' in d['pattern'] for d in case['decls'])
        config = _impl['Configurator'](root_factory=Node) if hybrid else _impl['Configurator']()
        for i, d in enumerate(case['decls']):
            # real predicates where the model's predicate language allows it: exactly one method predicate ->
            # request_method= ; constants -> predicates of different kinds whose outcome is fixed for the requests of the
            # harness (no X-Requested-With, no query string, no X-Nope header), plain or wrapped in not_(); the rest as
            # custom predicates.  Kind order in the predicate list: xhr, request_method, request_param, header, custom.
            from pyramid.config import not_
            rm = _router_real_method(d)
            real = {id(rm): ('request_method', rm[1])} if rm is not None else {}
            kinds_free = [('xhr', True), ('request_param', 'zz_nope'), ('header', 'X-Nope')]
            for p in d['preds']:
                # request predicates proper: the real request_param= / xhr= / traverse= arguments
                if p[0] == 'param':
                    v = p[2][0] if len(p[2]) == 1 else tuple(p[2])
                    real[id(p)] = ('request_param', not_(v) if p[1] else v)
                elif p[0] == 'xhr':
                    real[id(p)] = ('xhr', not_(bool(p[2])) if p[1] else bool(p[2]))
                elif p[0] == 'header':
                    v = p[2][0] if len(p[2]) == 1 else tuple(p[2])
                    real[id(p)] = ('header', not_(v) if p[1] else v)
                elif p[0] == 'rmethod':
                    v = p[2][0] if len(p[2]) == 1 else tuple(p[2])
                    real[id(p)] = ('request_method', not_(v) if p[1] else v)
                elif p[0] == 'traverse':
                    real[id(p)] = ('traverse', p[1])
            taken = set(k for k, _ in real.values())
            kinds_free = [kf for kf in kinds_free if kf[0] not in taken and not (kf[0] == 'xhr' and any_xhr)]
            for j, p in enumerate(d['preds']):
                if p[0] == 'const' and len(p) == 2 and kinds_free:
                    kname, falseval = kinds_free.pop((i + j) % len(kinds_free))
                    # falseval is a predicate value that does NOT hold for the harness's requests
                    real[id(p)] = (kname, not_(falseval) if p[1] else falseval)
            preds = [_mk_pred(p, i, calls) for p in d['preds'] if id(p) not in real]
            def tag(request, elements, kw2):       # pregenerator: no part in dispatch; identifies the DECLARATION
                return elements, kw2
            tag.idx = i
            kw = dict(static=bool(d['static']), custom_predicates=preds, pregenerator=tag)
            if d.get('path') is not None:
                kw['path'] = d['path']
            for kname, val in real.values():
                kw[kname] = val
            if d.get('inherit'):
                kw['inherit_slash'] = True
            _add_route_nested(config, list(d.get('levels') or []), d['name'], None if d.get('nopat') else d['pattern'], kw)
            if not d['static'] and d['name'] not in viewed:
                config.add_view(view, route_name=d['name'])
                viewed.add(d['name'])       # (an overridden declaration of the name may have been static)
            seen[d['name']] = i
        config.add_notfound_view(notfound)
        app = config.make_wsgi_app()
    except Exception as e:
        from pyramid.exceptions import ConfigurationError
        if isinstance(e, (ConfigurationError, re.error)):
            return [[], [], [], [3], []] + ([[]] if case.get('history') else [])
        raise
    mapper = config.get_routes_mapper()
    rl = [r.pregenerator.idx for r in mapper.routelist]
    st = [r.pregenerator.idx for r in mapper.static_routes]
    def start_response(status, headers, exc_info=None):
        pass

    def one(path, method, ops, rq):
        environ = WRequest.blank('/').environ
        environ['REQUEST_METHOD'] = method
        environ['PATH_INFO'] = path
        _environ_extra(environ, rq)
        cur['ops'] = ops
        cur['seen'] = None
        try:
            b''.join(app(environ, start_response))
            j = json.loads(cur['seen'])
            if j['name'] is None:
                return [2] if not j.get('matched') else ['route-matched-but-no-view', j['matched']]
            return [1, j['idx'], _canon_traverse(case, j['idx'], j['match'])]
        except _impl['URLDecodeError']:
            return [0]
    def listing(op):
        if op[0] == 'routes':
            return [4, [r.pregenerator.idx for r in mapper.get_routes(include_static=bool(op[1]))]]
        if op[0] == 'has':
            return [5, int(bool(mapper.has_routes()))]
        r = mapper.get_route(op[1])
        return [6, [] if r is None else [r.pregenerator.idx]]
    hist = [listing(h['list']) if 'list' in h else one(h['path'], h['method'], h['mutate'], h.get('req') or case.get('req'))
            for h in case.get('history') or []]
    out = one(case['path'], case['method'], [], case.get('req'))
    rl = [r.pregenerator.idx for r in mapper.routelist]
    st = [r.pregenerator.idx for r in mapper.static_routes]
    res = [[], rl, st, out, []]
    if case.get('history'):
        res.append(hist)
    return res


def run_impl(case):
    if not _impl:
        setup('quick')
    if case['mode'] == 'router':
        return _run_router(case)
    return _run_mapper(case)


# ------------------------------------------------------------ judging
def spec_holds(case, obs, spec):
    """The observed selection (route index + match dictionary, none, or decode error) must be the
    one the declarative specification computes from the declarations and the raw path."""
    if spec is None or spec == []:
        return None
    if not isinstance(obs, list) or len(obs) not in (5, 6):
        return False
    out = obs[3]
    if out == [3]:
        return None     # configuration refused (conflicting names / bad pattern): nothing was dispatched
    if any(s != 0 for s in obs[0]):
        # a connect() call raised: the property is about declarations that were made; what a failing declaration
        # does to an earlier route of the same name is model territory (C01_connect_last_wins_general, checked by
        # the correspondence), not something the property prescribes
        return None
    if case.get('history'):
        # every dispatch of the history, and the final one, must be the specification's answer for ITS path
        if len(obs) != 6 or out != spec[0] or len(obs[5]) != len(spec[1]):
            return False
        return all(sp == [] or o == sp for o, sp in zip(obs[5], spec[1]))   # [] (canon of None): a listing, nothing to judge
    return out == spec


def _dollar_symptoms():
    """Does the implementation under test show the two symptoms of the finding (public seam: _compile_route)?"""
    if 'dollar' not in _impl:
        from pyramid.urldispatch import _compile_route
        _impl['dollar'] = (_compile_route('/x')[0]('/x\n') is not None) or (_compile_route('/*r')[0]('/a\nb') is None)
    return _impl['dollar']


def classify(case, obs, spec):
    # DESIGN section 5 item 1: '$' anchor / '.*?' without DOTALL.  Exactly that finding: the implementation shows
    # the symptom on the two-line probe above AND the decoded path of this case contains a newline (by
    # C01_match_whole_partial a newline-free path cannot be affected by the anchor or the remainder group).
    if '\n' in _decoded(case) and _dollar_symptoms():
        return 'C01-dollar-newline'
    return None


def _has_placeholder(case):
    return any(('{' in d['pattern'] or ':' in d['pattern'] or '*' in d['pattern']) for d in case['decls'])


def nontrivial(case, obs):
    if not (isinstance(obs, list) and len(obs) in (5, 6)) or not _has_placeholder(case):
        return False
    out = obs[3]
    if out and out[0] == 1 and out[2]:
        return True
    meta = case.get('meta') or {}
    return meta.get('kind') == 'inst' and meta.get('edits', 0) >= 1 and out in ([2], [0]) or \
        (meta.get('kind') == 'inst' and meta.get('edits', 0) >= 1 and bool(out) and out[0] == 1)


def kinds(case, obs):
    k = ['mode-' + case['mode']]
    if not (isinstance(obs, list) and len(obs) in (5, 6)):
        return k + ['harness-exc']
    sts, rl, st, out, tr = obs[:5]
    if len(obs) == 6:
        k.append('history-%d' % len(obs[5]))
        if any('list' in h for h in case['history']):
            k.append('history-listing')
            if st and any(h.get('list', [0, 0])[:2] == ['routes', 1] for h in case['history']):
                k.append('history-listing-with-static-routes')
        same = [h for h, o in zip(case['history'], obs[5]) if 'list' not in h and h['path'] == case['path'] and o and o[0] == 1 and o[2]]
        if same and out[0] == 1:
            k.append('history-same-path-matched-then-mutated' if any(h['mutate'] for h in same) else 'history-same-path-matched')
    k.append({0: 'decode-error', 1: 'match', 2: 'no-route', 3: 'config-error'}.get(out[0], '?'))
    if out[0] == 1:
        pos = rl.index(out[1]) if out[1] in rl else -1
        k.append('match-first' if pos == 0 else 'match-later')
        k.append('dict-empty' if not out[2] else 'dict-nonempty')
        if any(v[0] == 1 for _, v in out[2]):
            k.append('match-with-remainder')
        if tr and any(t[0] != out[1] for t in tr):
            k.append('earlier-route-matched-but-predicate-failed')
    elif out[0] == 2 and tr:
        k.append('no-route-after-predicate-failure')
    if any(s == 1 for s in sts):
        k.append('compile-error-decl')
    if st:
        k.append('has-static')
    if len(set(d['name'] for d in case['decls'])) < len(case['decls']):
        k.append('dup-names')
    allp = [p for d in case['decls'] for p in d['preds']]
    if any(p[0] == 'param' for p in allp):
        k.append('pred-request_param')
        if any(p[0] == 'param' and any(_param_empty(v) for v in p[2]) for p in allp):
            k.append('pred-request_param-empty-required-value')
            q = dict((case.get('req') or {'q': []})['q'])
            if any(p[0] == 'param' and any(_param_empty(v) and q.get(v.split('=')[0].strip()) for v in p[2]) for p in allp):
                k.append('pred-request_param-empty-required-but-nonempty-given')
        if any(p[0] == 'param' and p[1] for p in allp):
            k.append('pred-request_param-negated')
    if any(p[0] == 'xhr' for p in allp):
        k.append('pred-xhr')
    if any(p[0] == 'rmethod' for p in allp):
        k.append('pred-request_method')
        if case['method'] == 'HEAD' and any(p[0] == 'rmethod' and 'GET' in p[2] and 'HEAD' not in p[2] for p in allp):
            k.append('pred-request_method-GET-on-HEAD-request')
    k.append('method-' + case['method'])
    if any(p[0] == 'header' for p in allp):
        k.append('pred-header')
        if any(p[0] == 'header' and len(p[2]) > 1 for p in allp):
            k.append('pred-header-sequence')
            hk = set(_hdr_key(n) for n, _ in (case.get('req') or {}).get('hdr') or [])
            for p in allp:
                if p[0] == 'header' and len(p[2]) > 1:
                    present = [_hdr_key(x.partition(':')[0]) in hk for x in sorted(p[2])]
                    if present[0] and not all(present):
                        k.append('pred-header-sequence-first-present-other-missing')
                        break
    if any(v.get('hdr') for v in [case.get('req') or {}]):
        k.append('request-with-headers')
    if any(n in ('subpath', 'traverse') for d in case['decls'] for n in _NAMES.findall(d['pattern'])):
        k.append('placeholder-named-subpath-or-traverse')
        if out[0] == 1 and any(kk in ('subpath', 'traverse') for kk, _ in out[2]):
            k.append('matchdict-with-key-subpath-or-traverse-' + case['mode'])
    if (case.get('req') or {}).get('q'):
        k.append('request-with-query')
    if any(p[0] in _BASELEN and len(p) > _BASELEN[p[0]] and p[-1] % len(FALSY) for p in allp):
        k.append('pred-custom-nonbool-answer')
    if any(p[0] == 'traverse' for p in allp):
        k.append('pred-traverse')
        if out[0] == 1 and _has_traverse(case['decls'][out[1]]):
            k.append('traverse-route-selected')
            if any(v != [1, []] and (v[0] == 1 or any(c in v[1] for c in ' %') or any(ord(c) > 127 for c in v[1])) for _, v in out[2]):
                k.append('traverse-route-selected-with-quotable-capture')
    if any(d.get('path') is not None for d in case['decls']):
        k.append('legacy-path-argument')
        if any(d.get('path') is not None and not d.get('nopat') and d['path'] != d['pattern'] for d in case['decls']):
            k.append('legacy-path-and-pattern-differ')
    names = [d['name'] for d in case['decls']]
    if case['mode'] == 'router' and len(set(names)) < len(names) and out[0] != 3:
        k.append('include-override-resolved')
        # the overriding (top-level) declaration comes after another declaration that follows the overridden one
        for i, d in enumerate(case['decls']):
            if not d.get('levels') and any(e['name'] == d['name'] and e.get('levels') and j < i - 1
                                           for j, e in enumerate(case['decls'][:i])):
                k.append('include-override-declared-later-with-routes-between')
                break
    if any(d.get('levels') for d in case['decls']):
        k.append('route-prefix')
        if any(d.get('levels') and d['pattern'].endswith('/') and d['pattern'].strip('/') for d in case['decls']):
            k.append('route-prefix-pattern-with-trailing-slash')
        if any(len(d.get('levels') or []) > 1 for d in case['decls']):
            k.append('route-prefix-nested')
    dec = _decoded(case)
    if '\n' in dec:
        k.append('path-newline')
    if any(ord(c) > 127 for c in dec):
        k.append('path-nonascii')
    meta = case.get('meta') or {}
    k.append('gen-%s' % meta.get('kind', '?'))
    if meta.get('kind') == 'inst':
        k.append('edits-%d' % meta.get('edits', 0))
    if meta.get('unsupported'):
        k.append('gen-unsupported-regex')
    k.append('routes-%d' % len(case['decls']))
    return k


def _param_empty(v):
    return v.rstrip().endswith('=') and v.strip() != '='


def describe(case):
    return case


def explain(item):
    return ('observed selection differs from the declarative specification (first declared route whose pattern '
            'matches the WHOLE decoded path and whose predicates hold)')


def evidence_extra(stats, tier):
    if tier != 'thorough':
        return {}
    done = (stats.get('kinds') or {}).get('gen-exh', 0)
    clean = not stats.get('violations') and not stats.get('disagreements')
    return {'exhaustive_subruns': [{
        'name': 'small-scope enumeration', 'space': G.EXH_SPACE, 'cases_in_space': G.exhaustive_count(),
        'cases_evaluated': done, 'exhaustive': bool(clean and done == G.exhaustive_count()),
        'note': "the design's full space (all pairs of <= 3-item patterns x paths <= 5, about 1.3e8 evaluations) does not "
                'fit the tier budget; pairs are restricted as stated'}]}


def targeted(broken, disagreements, rng):
    return list(G.targeted(rng))
