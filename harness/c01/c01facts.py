"""Facts extractor for C01 (urldispatch): shape pins + value facts, fail-closed."""
import ast
import os
from harness.common import facts as F

HERE = os.path.dirname(os.path.abspath(__file__))

DEFAULTS = {
    'default_hole_regex': '[^/]+',
    'remainder_group_fmt': '(?P<%s>(?s:.*?))',
    'anchor_suffix': '\\Z',
    'named_group_fmt': '(?P<{name}>{reg})',
    'old_route_re_src': '(\\:[_a-zA-Z]\\w*)',
    'star_at_end_src': '\\*(\\w*)$',
    'route_re_src': '(\\{[_a-zA-Z][^{}]*(?:\\{[^{}]*\\}[^{}]*)*\\})',
    'path_default': '/',
    'name_reg_sep': ':',
}
NUM_DEFAULTS = {'compile_extra_args': 0, 'module_re_flags': 0, 'name_reg_maxsplit': 1, 'matcher_fresh_dict': 1,
                'matchdict_single_writer': 1}


def _str(node):
    if isinstance(node, ast.Constant) and isinstance(node.value, str):
        return node.value
    raise ValueError('not a str literal: %s' % ast.dump(node)[:80])


def _module_regex(m, name):
    """NAME = re.compile(<str literal>)  ->  (source, number of extra args)"""
    e = m.const_expr(name)
    if not (isinstance(e, ast.Call) and isinstance(e.func, ast.Attribute) and e.func.attr == 'compile'
            and isinstance(e.func.value, ast.Name) and e.func.value.id == 're' and e.args):
        raise ValueError('%s is not re.compile(...)' % name)
    return _str(e.args[0]), len(e.args) - 1 + len(e.keywords)


def extract(src, problems):
    vals = dict(DEFAULTS)
    nums = dict(NUM_DEFAULTS)

    def attempt(key, fn):
        try:
            v = fn()
            if key in vals:
                if not isinstance(v, str):
                    raise ValueError('not a string')
                vals[key] = v
            else:
                nums[key] = int(v)
        except Exception as e:  # fail closed: report, keep the default so that Coq still type-checks
            problems.append('fact %s unrecognised in urldispatch.py: %s' % (key, e))
            if key == 'matcher_fresh_dict':
                nums[key] = 0   # not shown to be fresh: the purity lemma must not go through

    try:
        m = F.Module(src, 'pyramid/urldispatch.py')
    except Exception as e:
        problems.append('cannot parse urldispatch.py: %r' % e)
        return vals, nums
    flags = []
    for nm, key in (('old_route_re', 'old_route_re_src'), ('star_at_end', 'star_at_end_src'), ('route_re', 'route_re_src')):
        def f(nm=nm):
            s, extra = _module_regex(m, nm)
            flags.append(extra)
            return s
        attempt(key, f)
    attempt('module_re_flags', lambda: sum(flags))
    fn = m.find('_compile_route')
    if fn is None:
        problems.append('_compile_route not found')
        return vals, nums
    nodes = list(ast.walk(fn))

    def default_reg():
        # if ':' in name: name, reg = name.split(':', 1)  else: reg = '<default>'
        for n in nodes:
            if isinstance(n, ast.If) and isinstance(n.test, ast.Compare) and len(n.test.ops) == 1 \
                    and isinstance(n.test.ops[0], ast.In) and isinstance(n.test.comparators[0], ast.Name) \
                    and n.test.comparators[0].id == 'name' and len(n.orelse) == 1:
                a = n.orelse[0]
                if isinstance(a, ast.Assign) and len(a.targets) == 1 and isinstance(a.targets[0], ast.Name) \
                        and a.targets[0].id == 'reg':
                    sep = _str(n.test.left)
                    call = n.body[0].value if len(n.body) == 1 and isinstance(n.body[0], ast.Assign) else None
                    if not (isinstance(call, ast.Call) and isinstance(call.func, ast.Attribute) and call.func.attr == 'split'
                            and len(call.args) == 2 and _str(call.args[0]) == sep):
                        raise ValueError('name/regex split has another shape')
                    return _str(a.value), sep, ast.literal_eval(call.args[1])
        raise ValueError('no "if \':\' in name ... else: reg = ..." found')
    attempt('default_hole_regex', lambda: default_reg()[0])
    attempt('name_reg_sep', lambda: default_reg()[1])
    attempt('name_reg_maxsplit', lambda: default_reg()[2])

    def remainder_fmt():
        # if remainder: rpat.append('<fmt>' % remainder)
        for n in nodes:
            if isinstance(n, ast.If) and isinstance(n.test, ast.Name) and n.test.id == 'remainder':
                for st in n.body:
                    c = st.value if isinstance(st, ast.Expr) else None
                    if isinstance(c, ast.Call) and isinstance(c.func, ast.Attribute) and c.func.attr == 'append' \
                            and isinstance(c.func.value, ast.Name) and c.func.value.id == 'rpat':
                        b = c.args[0]
                        if isinstance(b, ast.BinOp) and isinstance(b.op, ast.Mod) and isinstance(b.right, ast.Name) \
                                and b.right.id == 'remainder':
                            return _str(b.left)
        raise ValueError('no rpat.append(fmt % remainder) under "if remainder:"')
    attempt('remainder_group_fmt', remainder_fmt)

    def anchor():
        # pattern = ''.join(rpat) + '<anchor>'
        for n in nodes:
            if isinstance(n, ast.Assign) and len(n.targets) == 1 and isinstance(n.targets[0], ast.Name) \
                    and n.targets[0].id == 'pattern':
                v = n.value
                if isinstance(v, ast.BinOp) and isinstance(v.op, ast.Add) and isinstance(v.left, ast.Call) \
                        and isinstance(v.left.func, ast.Attribute) and v.left.func.attr == 'join' \
                        and _str(v.left.func.value) == '' and len(v.left.args) == 1 \
                        and isinstance(v.left.args[0], ast.Name) and v.left.args[0].id == 'rpat':
                    return _str(v.right)
                raise ValueError('pattern = ... has another shape')
        raise ValueError('no assignment to pattern')
    attempt('anchor_suffix', anchor)

    def compile_args():
        # match = re.compile(pattern).match
        for n in nodes:
            if isinstance(n, ast.Assign) and len(n.targets) == 1 and isinstance(n.targets[0], ast.Name) \
                    and n.targets[0].id == 'match':
                v = n.value
                if isinstance(v, ast.Attribute) and v.attr == 'match' and isinstance(v.value, ast.Call) \
                        and isinstance(v.value.func, ast.Attribute) and v.value.func.attr == 'compile' \
                        and isinstance(v.value.args[0], ast.Name) and v.value.args[0].id == 'pattern':
                    return len(v.value.args) - 1 + len(v.value.keywords)
                raise ValueError('match = ... has another shape')
        raise ValueError('no assignment to match')
    attempt('compile_extra_args', compile_args)

    def group_fmt():
        # name = f'(?P<{name}>{reg})'
        for n in nodes:
            if isinstance(n, ast.Assign) and isinstance(n.value, ast.JoinedStr):
                out = ''
                for p in n.value.values:
                    if isinstance(p, ast.Constant):
                        out += p.value
                    elif isinstance(p, ast.FormattedValue) and isinstance(p.value, ast.Name) \
                            and p.conversion == -1 and p.format_spec is None:
                        out += '{%s}' % p.value.id
                    else:
                        raise ValueError('unexpected f-string part')
                return out
        raise ValueError('no f-string group')
    attempt('named_group_fmt', group_fmt)

    def path_default():
        # path = request.path_info or '/'
        call = m.find('RoutesMapper.__call__')
        for n in ast.walk(call):
            if isinstance(n, ast.Assign) and isinstance(n.value, ast.BoolOp) and isinstance(n.value.op, ast.Or) \
                    and isinstance(n.value.values[0], ast.Attribute) and n.value.values[0].attr == 'path_info':
                return _str(n.value.values[1])
        raise ValueError('no "request.path_info or <default>"')
    attempt('path_default', path_default)

    def fresh_dict():
        # matcher's body is translated mechanically (gen_matcher: it builds its dictionary in the call and returns it);
        # here: no decorator on matcher or any other function of _compile_route, `match` being the compiled
        # pattern's bound method (checked by compile_extra_args), and no cache import used in the module
        inner = [n for n in nodes if isinstance(n, (ast.FunctionDef, ast.AsyncFunctionDef, ast.Lambda)) and n is not fn]
        if fn.decorator_list or any(getattr(n, 'decorator_list', None) for n in inner):
            raise ValueError('a function of _compile_route carries a decorator')
        ms = [n for n in inner if isinstance(n, ast.FunctionDef) and n.name == 'matcher']
        if len(ms) != 1:
            raise ValueError('no single inner function "matcher"')
        # (the body of matcher itself is translated: harness/c01/translate.py, gen_matcher)
        for n in ast.walk(m.tree):
            if isinstance(n, (ast.Import, ast.ImportFrom)):
                names = [a.name for a in n.names] + [getattr(n, 'module', None) or '']
                if any('lru_cache' in x or x == 'functools' or 'cache' == x for x in names):
                    raise ValueError('the module imports a cache decorator')
        rets = [n for n in ast.walk(fn) if isinstance(n, ast.Return) and isinstance(n.value, ast.Tuple)]
        if not (len(rets) == 1 and isinstance(rets[0].value.elts[0], ast.Name) and rets[0].value.elts[0].id == 'matcher'):
            raise ValueError('_compile_route does not return (matcher, generator)')
        return 1
    attempt('matcher_fresh_dict', fresh_dict)
    # what str.strip() (no argument) removes -- RequestParamPredicate.__init__ strips the two halves of 'k=v' with it.
    # A fact about the running Python, not about the source: the characters c with chr(c).isspace()
    vals['py_space_chars'] = ''.join(chr(c) for c in range(0x110000) if chr(c).isspace())
    return vals, nums


MUTATORS = {'update', 'pop', 'popitem', 'clear', 'setdefault', '__setitem__', '__delitem__', '__ior__'}
READERS = {'get', 'items', 'keys', 'values', 'copy', '__getitem__', '__contains__'}
# the only code of the package that may write to / hand on the LIVE match dictionary (modelled: traverse_fix; pinned)
MATCHDICT_WRITERS = {('pyramid/predicates.py', 'TraversePredicate.__call__')}
MATCHDICT_SKIP = ('pyramid/scaffolds', 'pyramid/scripts', 'pyramid/testing.py')


def _is_md_expr(n, aliases):
    """does the expression denote the live match dictionary? (X.matchdict, X['match'], X.get('match'), an alias)"""
    if isinstance(n, ast.Name):
        return n.id in aliases
    if isinstance(n, ast.Attribute):
        return n.attr == 'matchdict'
    if isinstance(n, ast.Subscript):
        return isinstance(n.slice, ast.Constant) and n.slice.value in ('match', 'matchdict', 'bfg.routes.matchdict')
    if isinstance(n, ast.Call) and isinstance(n.func, ast.Attribute) and n.func.attr == 'get' and n.args:
        return isinstance(n.args[0], ast.Constant) and n.args[0].value in ('match', 'matchdict')
    return False


def matchdict_sites(src):
    """Every function of the package in which the dictionary the route matcher produced (request.matchdict /
    info['match']) is WRITTEN (item store / delete, mutating method, augmented assignment) or ESCAPES (passed on as an
    argument, stored in a container, returned, yielded) -- fail-closed: anything that is not a plain read counts."""
    out = {}
    root = os.path.join(src, 'pyramid')
    for dp, dns, fns in os.walk(root):
        for fn in sorted(fns):
            if not fn.endswith('.py'):
                continue
            full = os.path.join(dp, fn)
            rel = os.path.relpath(full, src)
            if rel.startswith(MATCHDICT_SKIP):
                continue
            with open(full) as f:
                tree = ast.parse(f.read())

            def visit(node, qual):
                for ch in ast.iter_child_nodes(node):
                    if isinstance(ch, (ast.FunctionDef, ast.AsyncFunctionDef)):
                        scan(ch, (qual + '.' if qual else '') + ch.name)
                        visit(ch, (qual + '.' if qual else '') + ch.name)
                    elif isinstance(ch, ast.ClassDef):
                        visit(ch, (qual + '.' if qual else '') + ch.name)
                    else:
                        visit(ch, qual)

            def scan(fdef, qual):
                aliases = set(a.arg for a in fdef.args.args if a.arg == 'matchdict')
                changed = True
                while changed:
                    changed = False
                    for n in ast.walk(fdef):
                        if isinstance(n, ast.Assign) and _is_md_expr(n.value, aliases):
                            for tg in n.targets:
                                for el in (tg.elts if isinstance(tg, ast.Tuple) else [tg]):
                                    if isinstance(el, ast.Name) and el.id not in aliases:
                                        aliases.add(el.id)
                                        changed = True
                        # match, route = info['match'], info['route']
                        if isinstance(n, ast.Assign) and isinstance(n.value, ast.Tuple) and len(n.targets) == 1 \
                                and isinstance(n.targets[0], ast.Tuple) and len(n.targets[0].elts) == len(n.value.elts):
                            for el, v in zip(n.targets[0].elts, n.value.elts):
                                if isinstance(el, ast.Name) and _is_md_expr(v, aliases) and el.id not in aliases:
                                    aliases.add(el.id)
                                    changed = True
                why = []
                parents = {}
                for n in ast.walk(fdef):
                    for ch in ast.iter_child_nodes(n):
                        parents[id(ch)] = n
                for n in ast.walk(fdef):
                    if not _is_md_expr(n, aliases) or isinstance(getattr(n, 'ctx', None), (ast.Store, ast.Del)) and isinstance(n, ast.Name):
                        continue
                    par = parents.get(id(n))
                    if isinstance(n, ast.Attribute) and n.attr == 'matchdict' and isinstance(n.ctx, (ast.Store, ast.Del)):
                        continue        # (re)binding the attribute, not changing the dictionary
                    if isinstance(n, ast.Subscript) and isinstance(n.ctx, (ast.Store, ast.Del)):
                        continue        # info['match'] = ..: binding
                    if isinstance(par, ast.Subscript) and par.value is n:
                        if isinstance(par.ctx, (ast.Store, ast.Del)):
                            why.append('item store/delete line %d' % par.lineno)
                        continue
                    if isinstance(par, ast.Attribute) and par.value is n:
                        gp = parents.get(id(par))
                        if isinstance(gp, ast.Call) and gp.func is par and par.attr in READERS:
                            continue
                        why.append('method/attribute .%s line %d' % (par.attr, par.lineno))
                        continue
                    if isinstance(par, ast.Call) and n in par.args + [k.value for k in par.keywords]:
                        f = par.func
                        if isinstance(f, ast.Attribute) and f.attr == 'update' and not _is_md_expr(f.value, aliases):
                            continue    # other.update(matchdict): a read
                        if isinstance(f, ast.Name) and f.id in ('dict', 'len', 'bool', 'sorted', 'list', 'tuple', 'repr', 'str'):
                            continue
                        why.append('passed to %s line %d' % (ast.unparse(f), par.lineno))
                        continue
                    if isinstance(par, (ast.Compare, ast.BoolOp, ast.UnaryOp, ast.If, ast.IfExp, ast.While, ast.Assert, ast.FormattedValue,
                                        ast.JoinedStr)) or (isinstance(par, ast.BinOp) and isinstance(par.op, ast.Mod)):
                        continue        # tested / compared / formatted
                    if isinstance(par, ast.Assign) and par.value is n:
                        bad = [tg for tg in par.targets for el in (tg.elts if isinstance(tg, ast.Tuple) else [tg])
                               if not isinstance(el, ast.Name) and not (isinstance(el, ast.Subscript)
                                                                        and isinstance(el.slice, ast.Constant)
                                                                        and el.slice.value in ('matchdict', 'bfg.routes.matchdict'))]
                        if bad:
                            why.append('stored into %s line %d' % (ast.unparse(bad[0]), par.lineno))
                        continue
                    gpar = parents.get(id(par))
                    if isinstance(par, ast.Tuple) and (isinstance(gpar, ast.Assign) or (
                            isinstance(gpar, ast.BinOp) and isinstance(gpar.op, ast.Mod) and gpar.right is par)):
                        continue        # tuple assignment (aliases were collected above) / '...' % (.., match, ..)
                    if isinstance(par, ast.AugAssign) and par.target is n:
                        why.append('augmented assignment line %d' % par.lineno)
                        continue
                    if isinstance(par, ast.Dict):
                        continue        # {'match': match, 'route': route}: the info dictionary itself
                    if isinstance(par, ast.Expr):
                        continue
                    why.append('%s line %d' % (type(par).__name__, getattr(par, 'lineno', 0)))
                if why:
                    out[(rel, qual)] = why
            visit(tree, '')
    return out


def masked_shape(src, vals):
    """Shape of _compile_route with the string literals that are value facts masked out, so that a
    change of such a literal changes the fact (and the theorems stated over it), not the pin."""
    m = F.Module(src, 'pyramid/urldispatch.py')
    fn = F.strip_doc(m.find('_compile_route'))
    for n in ast.walk(fn):      # the matcher closure is translated, not pinned
        if isinstance(n, ast.FunctionDef) and n.name == 'matcher':
            n.body = [ast.Pass()]
    masked = {vals[k]: k for k in ('default_hole_regex', 'remainder_group_fmt', 'anchor_suffix')}
    for n in ast.walk(fn):
        if isinstance(n, ast.Constant) and isinstance(n.value, str) and n.value in masked:
            n.value = '<fact:%s>' % masked[n.value]
            n.kind = None
    import hashlib
    return hashlib.sha1(ast.dump(fn).encode()).hexdigest()[:16]


def masked_config_shapes(src):
    """add_route and route_prefix_context with the translated fragments cut out (harness/c01/translate.py FRAGS)"""
    import hashlib
    from harness.c01 import translate
    m = F.Module(src, 'pyramid/config/routes.py')
    out = {}
    for spec in translate.FRAGS:
        fn = m.find(spec['qual'])
        if fn is None:
            raise ValueError('%s not found' % spec['qual'])
        cut = spec['select'](fn)
        ids = {id(x) for x in cut}

        class Cut(ast.NodeTransformer):
            def generic_visit(self, node):
                for field in ('body', 'orelse', 'finalbody'):
                    v = getattr(node, field, None)
                    if isinstance(v, list):
                        setattr(node, field, [ast.Pass() if id(x) in ids else x for x in v])
                return super().generic_visit(node)
        Cut().visit(fn)
        out[spec['qual']] = F.shape(fn)
    return out


def facts(src):
    import json
    problems = []
    summary = F.check_shapes(src, os.path.join(HERE, 'pins.json'), problems)
    vals, nums = extract(src, problems)
    from harness.c01 import translate
    from harness.common import build
    prog, tproblems, tsummary = translate.translate_tree(src)
    if not tsummary.get('gen_matcher', '').startswith('translated'):
        nums['matcher_fresh_dict'] = 0      # the closure could not be translated: its purity is not shown
    try:
        with open(os.path.join(HERE, 'pins_masked.json')) as f:
            want = json.load(f)['pyramid/urldispatch.py']['_compile_route']
        got = masked_shape(src, vals)
        summary['pyramid/urldispatch.py:_compile_route(masked)'] = got
        if got != want:
            problems.append('shape pin pyramid/urldispatch.py:_compile_route changed (%s -> %s, value-fact literals '
                            'masked): the hand-written model follows the previous text of this function' % (want, got))
    except Exception as e:
        problems.append('masked shape pin of _compile_route could not be computed: %r' % e)
    try:
        with open(os.path.join(HERE, 'pins_masked.json')) as f:
            wants = json.load(f)
        for q, got in masked_config_shapes(src).items():
            k = 'pyramid/config/routes.py:%s(fragment cut)' % q
            summary[k] = got
            want = wants.get('pyramid/config/routes.py', {}).get(q)
            if got != want:
                problems.append('shape pin %s changed (%s -> %s): the hand-written model follows the previous text of '
                                'this function' % (k, want, got))
    except Exception as e:
        problems.append('masked shape pins of config/routes.py could not be computed: %r' % e)
    try:
        sites = matchdict_sites(src)
        extra = {k: v for k, v in sites.items() if k not in MATCHDICT_WRITERS}
        nums['matchdict_single_writer'] = 0 if extra else 1
        summary['matchdict_writers'] = sorted('%s:%s' % k for k in sites)
        for (rel, qual), why in sorted(extra.items()):
            problems.append('the live match dictionary is written or handed on in %s:%s (%s): the model lets only the mapper '
                            '(matcher closure) and TraversePredicate.__call__ touch it' % (rel, qual, '; '.join(why[:3])))
    except Exception as e:
        nums['matchdict_single_writer'] = 0
        problems.append('match dictionary writers could not be determined: %r' % e)
    coq = F.HEADER
    for k in sorted(vals):
        coq += 'Definition %s : text := %s.  (* %r *)\n' % (k, F.coq_text(vals[k]), vals[k].replace('*)', '* )').replace('(*', '( *'))
    for k in sorted(nums):
        coq += 'Definition %s : N := %d%%N.\n' % (k, nums[k])
    summary.update(vals)
    summary.update(nums)
    # the control-flow program regenerated from the source (second generated file: it needs the data types of
    # Model/C01.v, which itself imports Facts_C01.v)
    problems.extend(tproblems)
    summary.update({'translator:' + k: v for k, v in tsummary.items()})
    build.write_if_changed(os.path.join(build.COQ, 'Gen', 'Prog_C01.v'), prog)
    return {'coq': coq, 'summary': summary, 'problems': problems}
