"""C01 translator: Python ast -> Gallina, re-run on every check (prop.facts) and written to coq/Gen/Prog_C01.v
(which imports the hand-written reference model coq/Model/C01.v for its data types and primitives):

  pyramid/urldispatch.py  RoutesMapper.__call__   -> gen_call (mt) (m : mapper) (method : text) (raw : option text) : tracedout
                          RoutesMapper.connect    -> gen_connect (parse) (m : mapper) (id : nat) (d : decl) : mapper * res unit
                          Route.__init__          -> gen_route_init (parse) (id : nat) (name pattern : text) (preds : list pred) : res route
                          _compile_route.matcher  -> gen_matcher (groups) (rem : option text) (path : text) : option matchdict
  pyramid/config/routes.py  add_route, the `elif self.route_prefix:` statement  -> gen_prefix_pattern (prefix : option text) (inherit : bool) (pattern : text) : text
                          route_prefix_context, the statements before self.begin()  -> gen_nest_prefix (old new : option text) : option text
                          (fragments; the rest of both functions is shape-pinned with the fragment cut out)
  pyramid/traversal.py    split_path_info         -> gen_split_path_info (p : text) : list text
                          decode_path_info        -> gen_decode_path_info (p : text) : option text

Fail-closed: a statement outside the SUBSET, an expression outside the PRIMITIVE TABLE, a typing surprise, a changed
module-level binding the table relies on -> Problem; the caller records it as a broken tie and emits the stored
fallback text (harness/c01/gen_fallback.json = the translation of the reference text) so that the Coq file still
type-checks.  (Adapted from harness/c11/translate.py: the term language, decision trees and loops are the same scheme.)

=== CONTROL FLOW (translated mechanically, continuation-passing, nothing is looked up) ==================
  block s1; s2; ...      the translation of s1 receives the translation of the rest as its continuation
  for T in E: B ; rest   (fix loopN (lN : list elem) (c_v.. : carried) {struct lN} : ret :=
                            match lN with [] => <rest> | x :: tN => <B> end) E v..
                         carried = variables assigned in B that are bound at loop entry, by first occurrence in B
     continue / end of B recursive call loopN tN v.. ; break: <rest> with the current carried values ; return e: e
     variables first assigned in B are local to one iteration
  if c: A else: B ; rest decision tree over the ATOMS of c (`and`/`or`/`not` split, elif = nested if, a test repeated
                         on a path resolved, equal branches merged), each branch followed by its own copy of <rest>
  X is None / is not None   (X of an Optional type)  match X with None => .. | Some b => .. (X := b there) end
  K in D  (D a dict attribute)                        match assoc_get D K with None => .. | Some b => .. end; on the
                         Some path the subscript D[K] is b (elsewhere D[K] may raise KeyError: Problem)
  an atom whose evaluation has an observable effect (the predicate calls of all(..))
                         emit <event> (if atom then .. else ..): the event is recorded on exactly the paths that
                         evaluate the atom, in evaluation order (short-circuit of `and`/`or` respected)
  try: v = E[request.path_info]            match req_path_info raw with
  except KeyError: H1                      | PI_missing => <H1 ; rest> | PI_undecodable => <H2>
  except UnicodeDecodeError as e: H2       | PI_text t => <v = E[t] ; rest> end
                         (exactly one read of .path_info in E; handlers in either order)
  v = CALL ; rest        CALL of type res T (may raise re.error): match CALL with Ok x => <rest, v := x>
                         | e => <the function's failure result for e, with the state reached so far> end
  v = e                  substitution (no let is emitted; names of locals occur only in binders)
  self.attr = e / self.attr.append(x) / self.attr.remove(x) / self.attr[k] = v   (connect)
                         the mapper is threaded as a state term: m := set_attr m <new value>
  self.attr = e  (Route.__init__)   collected; the end of __init__ builds mkRoute from the collected fields

=== PRIMITIVE TABLE (trusted: each line is a claim about Python / Pyramid / WebOb semantics) =============
  str / tuple-or-list of str        text = code points / list text ; a str literal is its code points ; () [] -> []
  x.strip(c) x.split(c)             strip_char c x ; split_on c x        (c a one-character literal; Lib/Text)
  truth value of a str, list, tuple negb (l_is_nil x)  ;  `x or y` (str) = if l_is_nil x then y else x
  a == b / a != b  (str)            text_eqb a b (a constant operand second) / negated
  l = [] ; l.append(x) ; del l[-1] ; tuple(l)
                                    [] ; l := l_snoc l x ; l := l_drop_last l (ONLY where `l` was tested true) ; l
  x.encode('latin-1') ; y.decode('utf-8')   latin1_encode x : option ; utf8_decode_opt y (strict CPython UTF-8 = Lib/Utf8;
                                    an exception is None: decode_path_info's callers see UnicodeError)
  request.path_info                 req_path_info raw (WebOb: KeyError / UnicodeDecodeError / text), only in the try shape
  raise URLDecodeError(e.<attr>,..) ret_decode_error        (inside `except UnicodeDecodeError as e`)
  self.routelist / .static_routes / .routes      routelist m / statics m / routes m
  route.match(path)                 mt (r_pat route) path : option matchdict   (mt = the compiled matcher, a parameter)
  route.predicates                  r_preds route
  {'match': a, 'route': b}          the result pair (any key order) ; return of it = ret_match b a ;
  {'route': None, 'match': None}    ret_none
  all(p(info, request) for p in preds)   atom preds_verdict method d preds, event (r_id route, preds_called method d preds)
                                    (info = {'match': d, 'route': route}; Python's all() stops at the first false)
  name in self.routes / self.routes[name]   assoc_get (routes m) name (see control flow)
  r in self.routelist               mem_id (r_id r) (routelist m)         (routes compare by identity)
  self.routelist.remove(r)          set_routelist m (remove_id (r_id r) (routelist m))  ONLY where `r in self.routelist` is true
  self.routelist.append(r)          set_routelist m (l_snoc (routelist m) r)   (same for static_routes)
  self.routes[name] = r             set_routes m (assoc_set (routes m) name r)
  Route(name, pattern, factory, predicates, pregenerator)   gen_route_init parse id name pattern predicates : res route
                                    (positional; factory / pregenerator are not modelled; id = identity of the new object)
  _compile_route(pattern)           parse pattern : res pat  (first component = matcher; the second, the generator, is
                                    not modelled here -- C06); unpacked as `a, b = _compile_route(..)`
  matcher closure of _compile_route (free variables match, remainder):
    match(path)                     groups path : option (items of m.groupdict(), in order)  (the compiled pattern's .match)
    m.groupdict().items()           the items ; loop target `k, v` = fst / snd of an item
    d = {} ; d[k] = e ; return d    [] ; d := md_put d k (MText e | MSegs e) ; Some d      (a dict created in this call)
    k == remainder                  is_remainder k rem        split_path_info(v)   gen_split_path_info v
  self.route_prefix (configurator) old / prefix : option text ; truth value of an Optional str = Some non-empty
  x.rstrip(c) x.lstrip(c) ; a + b ; '{}/{}'.format(a, b)    rstrip_char c x ; lstrip_char c x ; app a b ; fmt_slash a b
  observers get_routes / has_routes / get_route (no state term: any store, augmented assignment or mutating method is a Problem)
    x is True (x a bool parameter) -> x ; a + b (lists of routes) -> app a b (a NEW list) ; bool(x) -> truth value ;
    self.routes.get(k) -> assoc_get (routes m) k
  RequestParamPredicate.__call__ (observer): self.reqs -> reqs : list (key, optional value), loop target `k, v` = fst / snd ;
    request.params.get(k) -> params_get params k : option text (WebOb: the LAST value of the key, None when absent) ;
    a != v (v an optional str) -> negb (is_remainder a v), i.e. "v is a str equal to a" negated ; both optional -> otext_eqb
  HeaderPredicate.__call__ (observer): self.val -> reqs : list hreq, loop target `name, val, _` = the three components ;
    name in request.headers -> hdr_mem headers name ; request.headers.get(name) -> hdr_get headers name : option text
    (WebOb EnvironHeaders: key HTTP_ + upper-cased name with '-' -> '_') ; val.match(value) is None -> negb (re_match O val value)
    (val a compiled regex of the modelled sublanguage: prefix match, greedy with backtracking)
  RequestMethodPredicate.__call__ (observer): request.method -> method ; self.val -> val : list text ; a in l -> mem_text a l
  XHRPredicate.__call__ (observer): request.is_xhr -> xhr ; self.val -> val ; bool(a) is b -> Bool.eqb a b
  add_route, the statement before `if pattern is None: raise ..` (fragment): pattern / path -> option text parameters
  connect parameters by position    name -> d_name d, pattern -> d_src d, predicates -> d_preds d, static -> d_static d (bool)
  return route (connect)            connected m        a failing Route(..)  ->  connect_failed m e
"""
import ast
import json
import os

HERE = os.path.dirname(os.path.abspath(__file__))
FALLBACK = os.path.join(HERE, 'gen_fallback.json')

SELFCFG, NONE = 'self (configurator)', 'None'
MDICTOWN, GROUPS, ITEMS, PAIR, MATCHFN = ('match dict (own)', 'match object', 'items of groupdict', 'pair of str', 'compiled match')
SELFP, REQS, PAIRO = 'self (request_param predicate)', 'list of (key, optional value)', 'pair of str and optional str'
SELFH, HREQS, TRIPLE, REGEX, SELFX = ('self (header predicate)', 'list of (name, optional compiled regex, optional str)',
                                      'header requirement', 'compiled regex', 'self (xhr predicate)')
TEXT, SEGS, SEGSOWN, BOOL, ERASED, REQ, SELFM, SELFR, ROUTE, ROUTES, PREDS, MDICT, PAT, GEN, INFO, INFONONE, EXCV = (
    'str', 'tuple of str', 'list of str (own)', 'bool', 'erased', 'request', 'self (mapper)', 'self (route)', 'route',
    'list of routes', 'predicates', 'match dict', 'compiled matcher', 'generator', 'info dict', 'empty info dict',
    'caught exception')


def OPT(t):
    return 'optional ' + t


def RES(t):
    return 'res ' + t


COQTY = {TEXT: 'text', SEGS: 'list text', SEGSOWN: 'list text', BOOL: 'bool', ROUTE: 'route', ROUTES: 'list route',
         PREDS: 'list pred', MDICT: 'matchdict', PAT: 'pat', MDICTOWN: 'matchdict', PAIR: 'text * text',
         PAIRO: 'text * option text', TRIPLE: 'hreq', REGEX: 'list hre'}
ELEM = {SEGS: TEXT, SEGSOWN: TEXT, ROUTES: ROUTE, ITEMS: PAIR, REQS: PAIRO, HREQS: TRIPLE}


class Problem(Exception):
    pass


def u(node):
    try:
        return ast.unparse(node)
    except Exception:
        return '<%s>' % type(node).__name__


# ---- Gallina terms
class Term:
    pass


class V(Term):
    def __init__(self, name):
        self.name = name

    def key(self):
        return ('V', self.name)


class K(Term):
    def __init__(self, text):
        self.text = text

    def key(self):
        return ('K', self.text)


class A(Term):
    def __init__(self, fn, args):
        self.fn, self.args = fn, list(args)

    def key(self):
        return ('A', self.fn) + tuple(a.key() for a in self.args)


class If(Term):
    def __init__(self, atom, t, e):
        self.atom, self.t, self.e = atom, t, e

    def key(self):
        return ('If', self.atom.key(), self.t.key(), self.e.key())


class Match(Term):
    """match scrut with | pat_i => term_i end ; pats are (constructor text, [binders])"""

    def __init__(self, scrut, arms):
        self.scrut, self.arms = scrut, list(arms)

    def key(self):
        return ('Match', self.scrut.key()) + tuple((c, tuple(bs), t.key()) for (c, bs), t in self.arms)


class Loop:
    def __init__(self, n, elem_ty, ret):
        self.n = n
        self.f, self.l, self.t = 'loop%d' % n, 'l%d' % n, 't%d' % n
        self.elem_ty, self.ret = elem_ty, ret
        self.x = None
        self.carried = []


class Fix(Term):
    def __init__(self, loop, nil, cons, it, init):
        self.loop, self.nil, self.cons, self.it, self.init = loop, nil, cons, it, list(init)

    def key(self):
        return ('Fix', self.loop.n, self.nil.key(), self.cons.key(), self.it.key()) + tuple(a.key() for a in self.init)


class Jump(Term):
    def __init__(self, loop, args):
        self.loop, self.args = loop, list(args)

    def key(self):
        return ('Jump', self.loop.n) + tuple(a.key() for a in self.args)


# ---- conditions:  ('const', b) ('atom', t) ('eatom', t, event) ('opt', scrut, binder) ('not', c) ('and', [..]) ('or', [..])
def implied(b, pol, out):
    k = b[0]
    if k == 'atom':
        out[b[1].key()] = pol
    elif k == 'not':
        implied(b[1], not pol, out)
    elif k == 'and' and pol:
        for x in b[1]:
            implied(x, True, out)
    elif k == 'or' and not pol:
        for x in b[1]:
            implied(x, False, out)
    return out


def narrowings(b, pol, out):
    """('opt', scrut, binder, payload) conditions that certainly hold (pol=True: is Some) when b evaluates to pol"""
    k = b[0]
    if k == 'opt':
        out.append((b, pol))
    elif k == 'not':
        narrowings(b[1], not pol, out)
    elif k == 'and' and pol:
        for x in b[1]:
            narrowings(x, True, out)
    elif k == 'or' and not pol:
        for x in b[1]:
            narrowings(x, False, out)
    return out


def mk_if(b, t, e):
    k = b[0]
    if k == 'const':
        return t if b[1] else e
    if k == 'atom':
        return t if t.key() == e.key() else If(b[1], t, e)
    if k == 'eatom':
        inner = t if t.key() == e.key() else If(b[1], t, e)
        return A('emit', [b[2], inner])
    if k == 'opt':
        return Match(b[1], [(('None', []), e), (('Some', [b[2]]), t)])
    if k == 'not':
        return mk_if(b[1], e, t)
    if k == 'and':
        return t if not b[1] else mk_if(b[1][0], mk_if(('and', b[1][1:]), t, e), e)
    if k == 'or':
        return e if not b[1] else mk_if(b[1][0], t, mk_if(('or', b[1][1:]), t, e))
    raise Problem('internal: condition %r' % (b,))


def b_term(b):
    k = b[0]
    if k == 'const':
        return K('true' if b[1] else 'false')
    if k == 'atom':
        return b[1]
    if k == 'not':
        return A('negb', [b_term(b[1])])
    if k in ('and', 'or') and b[1]:
        ts = [b_term(x) for x in b[1]]
        out = ts[-1]
        for t in reversed(ts[:-1]):
            out = A('andb' if k == 'and' else 'orb', [t, out])
        return out
    raise Problem('condition cannot be used as a value: %r' % (b[0],))


def simplify(t, known):
    if isinstance(t, If):
        ak = t.atom.key()
        if ak in known:
            return simplify(t.t if known[ak] else t.e, known)
        a = simplify(t.t, dict(known, **{}) | {ak: True})
        b = simplify(t.e, dict(known) | {ak: False})
        return a if a.key() == b.key() else If(t.atom, a, b)
    if isinstance(t, Match):
        return Match(t.scrut, [(p, simplify(x, known)) for p, x in t.arms])
    if isinstance(t, Fix):
        return Fix(t.loop, simplify(t.nil, known), simplify(t.cons, known), t.it, t.init)
    if isinstance(t, A) and t.fn == 'emit':
        return A('emit', [t.args[0], simplify(t.args[1], known)])
    return t


# ---- rendering
def render(t, ind):
    sp = ' ' * ind
    if isinstance(t, V):
        return t.name
    if isinstance(t, K):
        return t.text
    if isinstance(t, A):
        if t.fn == 'emit':
            return 'emit %s (%s)' % (paren(t.args[0], ind), render_in(t.args[1], ind + 2).lstrip('\n').lstrip() if not isinstance(
                t.args[1], (If, Match, Fix)) else render_in(t.args[1], ind + 2) + '\n' + sp)
        return '%s %s' % (t.fn, ' '.join(paren(a, ind) for a in t.args))
    if isinstance(t, Jump):
        lp = t.loop
        return '%s %s' % (lp.f, ' '.join([lp.t] + [paren(a, ind) for a in t.args]))
    if isinstance(t, If):
        return 'if %s\n%sthen%s\n%selse%s' % (render(t.atom, ind), sp, render_in(t.t, ind + 2), sp, render_in(t.e, ind + 2))
    if isinstance(t, Match):
        arms = ''.join('\n%s| %s =>%s' % (sp, ' '.join([c] + bs), render_in(x, ind + 4)) for (c, bs), x in t.arms)
        return 'match %s with%s\n%send' % (render(t.scrut, ind), arms, sp)
    if isinstance(t, Fix):
        lp = t.loop
        bind = '(%s : list (%s))' % (lp.l, COQTY[lp.elem_ty])
        for _, b, ty in lp.carried:
            bind += ' (%s : %s)' % (b, COQTY[ty])
        args = [paren(t.it, ind)] + [paren(a, ind) for a in t.init]
        return '(fix %s %s {struct %s} : %s :=\n%s   match %s with\n%s   | [] =>%s\n%s   | %s :: %s =>%s\n%s   end) %s' % (
            lp.f, bind, lp.l, lp.ret, sp, lp.l, sp, render_in(t.nil, ind + 6), sp, lp.x, lp.t,
            render_in(t.cons, ind + 6), sp, ' '.join(args))
    raise Problem('internal: cannot render %r' % (t,))


def render_in(t, ind):
    s = render(t, ind)
    if isinstance(t, (If, Match, Fix)) or (isinstance(t, A) and t.fn == 'emit'):
        return '\n' + ' ' * ind + s
    return ' ' + s


def paren(t, ind):
    s = render(t, ind)
    return s if isinstance(t, (V, K)) and ' ' not in s else '(' + s + ')'


def lit(s):
    return K('[' + '; '.join(str(ord(c)) for c in s) + ']%N' if s else '[]')


def _ident(s):
    if not (s.isascii() and s.isidentifier()):
        raise Problem('identifier %r cannot be used as a binder name' % s)
    return s


# ---- the functions (parameters are bound by POSITION, so they may be renamed; defaults are allowed and ignored)
FUNCS = [
    dict(file='pyramid/traversal.py', qual='split_path_info', gen='gen_split_path_info', kind='pure', ret=SEGS,
         params=[(V('p'), TEXT)], sig='(p : text) : list text', coqret='list text', decorators=['lru_cache'],
         default='[]'),
    dict(file='pyramid/traversal.py', qual='decode_path_info', gen='gen_decode_path_info', kind='pure', ret=OPT(TEXT),
         params=[(V('p'), TEXT)], sig='(p : text) : option text', coqret='option text', default='None'),
    dict(file='pyramid/urldispatch.py', qual='_compile_route.matcher', gen='gen_matcher', kind='matcher', ret=OPT(MDICT),
         params=[(V('path'), TEXT)], free={'match': (None, MATCHFN), 'remainder': (V('rem'), OPT(TEXT))},
         sig='(groups : text -> option (list (text * text))) (rem : option text) (path : text) : option matchdict',
         coqret='option matchdict', default='None'),
    dict(file='pyramid/urldispatch.py', qual='Route.__init__', gen='gen_route_init', kind='init', ret=RES(ROUTE),
         params=[(None, SELFR), (V('name'), TEXT), (V('pattern'), TEXT), (None, ERASED), (V('preds'), PREDS), (None, ERASED)],
         sig='(parse : text -> res pat) (id : nat) (name pattern : text) (preds : list pred) : res route',
         coqret='res route', default='CompileError'),
    dict(file='pyramid/urldispatch.py', qual='RoutesMapper.connect', gen='gen_connect', kind='connect', ret='connect',
         params=[(None, SELFM), (A('d_name', [V('d')]), TEXT), (A('d_src', [V('d')]), TEXT), (None, ERASED),
                 (A('d_preds', [V('d')]), PREDS), (None, ERASED), (('atom', A('d_static', [V('d')])), BOOL)],
         sig='(parse : text -> res pat) (m : mapper) (id : nat) (d : decl) : mapper * res unit',
         coqret='mapper * res unit', default='(m, CompileError)'),
    dict(file='pyramid/urldispatch.py', qual='RoutesMapper.get_routes', gen='gen_get_routes', kind='observer', ret=ROUTES,
         params=[(None, SELFM), (('atom', V('include_static')), BOOL)],
         sig='(m : mapper) (include_static : bool) : list route', coqret='list route', default='routelist m'),
    dict(file='pyramid/urldispatch.py', qual='RoutesMapper.has_routes', gen='gen_has_routes', kind='observer', ret=BOOL,
         params=[(None, SELFM)], sig='(m : mapper) : bool', coqret='bool', default='true'),
    dict(file='pyramid/urldispatch.py', qual='RoutesMapper.get_route', gen='gen_get_route', kind='observer', ret=OPT(ROUTE),
         params=[(None, SELFM), (V('name'), TEXT)], sig='(m : mapper) (name : text) : option route',
         coqret='option route', default='None'),
    dict(file='pyramid/predicates.py', qual='RequestParamPredicate.__call__', gen='gen_param_call', kind='observer', ret=BOOL,
         params=[(None, SELFP), (None, ERASED), (None, REQ)],
         sig='(reqs : list (text * option text)) (params : list (text * text)) : bool', coqret='bool', default='true'),
    dict(file='pyramid/predicates.py', qual='HeaderPredicate.__call__', gen='gen_header_call', kind='observer', ret=BOOL,
         params=[(None, SELFH), (None, ERASED), (None, REQ)],
         sig='(O : oracle) (reqs : list hreq) (headers : list (text * text)) : bool', coqret='bool', default='true'),
    dict(file='pyramid/predicates.py', qual='XHRPredicate.__call__', gen='gen_xhr_call', kind='observer', ret=BOOL,
         params=[(None, SELFX), (None, ERASED), (None, REQ)],
         sig='(val : bool) (xhr : bool) : bool', coqret='bool', default='true'),
    dict(file='pyramid/predicates.py', qual='RequestMethodPredicate.__call__', gen='gen_method_call', kind='observer', ret=BOOL,
         params=[(None, 'self (request_method predicate)'), (None, ERASED), (None, REQ)],
         sig='(val : list text) (method : text) : bool', coqret='bool', default='true'),
    dict(file='pyramid/urldispatch.py', qual='RoutesMapper.__call__', gen='gen_call', kind='call', ret='call',
         params=[(None, SELFM), (None, REQ)],
         sig='(mt : pat -> text -> option matchdict) (m : mapper) (method : text) (raw : option text) : tracedout',
         coqret='tracedout', default='ret_none'),
]
def _frag_add_route(fn):
    """the `elif self.route_prefix:` statement of add_route (the else-branch of `if parsed.hostname:`)"""
    hits = [n for n in ast.walk(fn) if isinstance(n, ast.If) and isinstance(n.test, ast.Attribute) and n.test.attr == 'hostname'
            and len(n.orelse) == 1 and isinstance(n.orelse[0], ast.If)]
    if len(hits) != 1 or hits[0] not in fn.body:
        raise Problem('no single top-level `if parsed.hostname: .. elif ..:` statement')
    return [hits[0].orelse[0]]


def _frag_prefix_context(fn):
    """the statements of route_prefix_context before self.begin(): the computation of the nested prefix"""
    out = []
    for st in fn.body:
        if isinstance(st, ast.Expr) and isinstance(st.value, ast.Call):
            return out
        out.append(st)
    raise Problem('no call statement (self.begin()) ends the prefix computation')


def _frag_legacy_path(fn):
    """the statement of add_route just before `if pattern is None: raise ConfigurationError(..)`: the bw-compat handling of
    the legacy path= argument (`if pattern is None: pattern = path`)"""
    body = fn.body
    for i, st in enumerate(body):
        if isinstance(st, ast.If) and len(st.body) == 1 and isinstance(st.body[0], ast.Raise) and u(st.test) == 'pattern is None' \
                and not st.orelse:
            if i == 0 or not isinstance(body[i - 1], ast.If):
                raise Problem('no `if` statement precedes the `pattern is None` check')
            prev = body[i - 1]
            names = {n.id for n in ast.walk(prev) if isinstance(n, ast.Name)}
            if not names <= {'pattern', 'path'}:
                raise Problem('the statement before the `pattern is None` check mentions %s' % sorted(names - {'pattern', 'path'}))
            return [prev]
    raise Problem('no `if pattern is None: raise ..` statement at the top level of add_route')


FRAGS = [
    dict(file='pyramid/config/routes.py', qual='RoutesConfiguratorMixin.route_prefix_context', gen='gen_nest_prefix', kind='frag',
         select=_frag_prefix_context, result='route_prefix', coqret='option text',
         env={0: (None, SELFCFG), 1: (V('new'), OPT(TEXT))}, attrs={'route_prefix': (V('old'), OPT(TEXT))},
         sig='(old new : option text) : option text', default='None'),
    dict(file='pyramid/config/routes.py', qual='RoutesConfiguratorMixin.add_route', gen='gen_prefix_pattern', kind='frag',
         select=_frag_add_route, result='pattern', coqret='text',
         env={0: (None, SELFCFG), 'pattern': (V('pattern'), TEXT), 'inherit_slash': (('atom', V('inherit')), BOOL)},
         attrs={'route_prefix': (V('prefix'), OPT(TEXT))},
         sig='(prefix : option text) (inherit : bool) (pattern : text) : text', default='pattern'),
    dict(file='pyramid/config/routes.py', qual='RoutesConfiguratorMixin.add_route', gen='gen_legacy_pattern', kind='frag',
         select=_frag_legacy_path, result='pattern', coqret='option text',
         env={0: (None, SELFCFG), 'pattern': (V('pattern'), OPT(TEXT)), 'path': (V('path'), OPT(TEXT))}, attrs={},
         sig='(pattern path : option text) : option text', default='pattern'),
]
# every source function whose control flow is regenerated on every run (fragments: the rest is in pins_masked.json)
TRANSLATED = ['pyramid/urldispatch.py:RoutesMapper.__call__', 'pyramid/urldispatch.py:RoutesMapper.connect',
              'pyramid/urldispatch.py:RoutesMapper.get_routes', 'pyramid/urldispatch.py:RoutesMapper.has_routes',
              'pyramid/urldispatch.py:RoutesMapper.get_route',
              'pyramid/urldispatch.py:Route.__init__', 'pyramid/urldispatch.py:_compile_route.matcher',
              'pyramid/traversal.py:split_path_info', 'pyramid/traversal.py:decode_path_info',
              'pyramid/predicates.py:RequestParamPredicate.__call__', 'pyramid/predicates.py:HeaderPredicate.__call__',
              'pyramid/predicates.py:XHRPredicate.__call__', 'pyramid/predicates.py:RequestMethodPredicate.__call__',
              'pyramid/config/routes.py:RoutesConfiguratorMixin.add_route',
              'pyramid/config/routes.py:RoutesConfiguratorMixin.route_prefix_context']
MAPPER_ATTRS = {'routelist': ('routelist', 'set_routelist', ROUTES), 'static_routes': ('statics', 'set_statics', ROUTES),
                'routes': ('routes', 'set_routes', 'dict of routes')}
RESERVED = {'Route', '_compile_route', 'URLDecodeError', 'all', 'tuple', 'KeyError', 'UnicodeDecodeError'}


class Tr:
    def __init__(self, fn, spec):
        self.fn, self.spec = fn, spec
        self.nloops = 0
        self.nb = 0
        self.used = set()

    def fresh(self, base):
        self.nb += 1
        return '%s_%d' % (_ident(base), self.nb)

    def translate_fragment(self):
        fn, spec = self.fn, self.spec
        stmts = spec['select'](fn)
        names = [a.arg for a in fn.args.args]
        env = {}
        for k, v in spec['env'].items():
            env[names[k] if isinstance(k, int) else k] = v
        for st in stmts:
            for n in ast.walk(st):
                if isinstance(n, (ast.Lambda, ast.ListComp, ast.SetComp, ast.DictComp, ast.GeneratorExp, ast.NamedExpr, ast.Await,
                                  ast.Yield, ast.YieldFrom, ast.While, ast.With, ast.For, ast.Try, ast.FunctionDef, ast.ClassDef,
                                  ast.Return, ast.Raise)):
                    raise Problem('construct outside the subset: %s' % type(n).__name__)

        def k_end(env2, facts):
            obj, ty = env2.get(spec['result'], (None, 'unbound'))
            want = spec['coqret']
            if want == 'text' and ty == TEXT:
                return obj
            if want == 'option text':
                if ty == TEXT:
                    return A('Some', [obj])
                if ty == NONE:
                    return K('None')
                if ty == OPT(TEXT):
                    return obj
            raise Problem('at the end of the fragment %s is a %s' % (spec['result'], ty))
        return simplify(self.block(stmts, env, {}, k_end, None), {})

    # ------------------------------------------------------------ entry
    def translate(self):
        if self.spec['kind'] == 'frag':
            return self.translate_fragment()
        return self._translate_def()

    def _translate_def(self):
        fn, spec = self.fn, self.spec
        if not isinstance(fn, ast.FunctionDef):
            raise Problem('not a plain def')
        decs = [u(d).split('(')[0] for d in fn.decorator_list]
        if decs != spec.get('decorators', []):
            raise Problem('decorators are %s, expected %s' % (decs, spec.get('decorators', [])))
        a = fn.args
        if a.vararg or a.kwarg or a.kwonlyargs or getattr(a, 'posonlyargs', []):
            raise Problem('unexpected parameter list (*args, **kwargs, keyword-only)')
        for dflt in list(a.defaults) + [x for x in a.kw_defaults if x is not None]:
            if not (isinstance(dflt, ast.Constant) or (isinstance(dflt, ast.Tuple) and not dflt.elts)):
                raise Problem('mutable or computed default argument: %s' % u(dflt))
        if len(a.args) != len(spec['params']):
            raise Problem('expected %d parameters, found %d' % (len(spec['params']), len(a.args)))
        env = {}
        for nm, v in spec.get('free', {}).items():      # free variables of a closure (bound by the enclosing function)
            env[nm] = v
        for arg, (obj, ty) in zip(a.args, spec['params']):
            env[arg.arg] = (obj, ty)
        if spec['kind'] == 'connect':
            env['$m'] = (V('m'), 'state')
        if spec['kind'] == 'init':
            env['$fields'] = ({}, 'fields')
        for n in ast.walk(fn):
            if isinstance(n, ast.Name) and isinstance(n.ctx, (ast.Store, ast.Del)) and n.id in RESERVED:
                raise Problem('the name %s of the primitive table is rebound inside the function' % n.id)
            if isinstance(n, ast.arg) and n.arg in RESERVED:
                raise Problem('the name %s of the primitive table is a parameter' % n.arg)
            if isinstance(n, (ast.Global, ast.Nonlocal, ast.Lambda, ast.ListComp, ast.SetComp, ast.DictComp,
                              ast.NamedExpr, ast.Await, ast.Yield, ast.YieldFrom, ast.While, ast.With)) or \
                    (isinstance(n, (ast.FunctionDef, ast.AsyncFunctionDef, ast.ClassDef)) and n is not fn):
                raise Problem('construct outside the subset: %s' % type(n).__name__)

        def k_end(env2, facts):
            if spec['kind'] == 'init':
                f = env2['$fields'][0]
                need = {'name': TEXT, 'match': PAT, 'predicates': PREDS}
                for nm, ty in need.items():
                    if nm not in f or f[nm][1] != ty:
                        raise Problem('at the end of __init__ self.%s is %s, expected a %s' % (
                            nm, f.get(nm, (None, 'unset'))[1], ty))
                return A('Ok', [A('mkRoute', [V('id'), f['name'][0], f['match'][0], f['predicates'][0]])])
            raise Problem('control can reach the end of the function without a return')
        t = self.block(list(fn.body), env, {}, k_end, None)
        return simplify(t, {})

    # ------------------------------------------------------------ statements
    def block(self, stmts, env, facts, k, jumps):
        if not stmts:
            return k(env, facts)
        s, rest = stmts[0], stmts[1:]

        def k_next(env2, facts2):
            return self.block(rest, env2, facts2, k, jumps)

        if isinstance(s, ast.Expr) and isinstance(s.value, ast.Constant) and isinstance(s.value.value, str):
            return k_next(env, facts)
        if isinstance(s, ast.Pass):
            return k_next(env, facts)
        if isinstance(s, ast.Return):
            return self.ret(s, env)
        if isinstance(s, ast.Raise):
            return self.raise_(s, env)
        if isinstance(s, ast.Continue):
            if jumps is None:
                raise Problem('continue outside a loop')
            return jumps[0](env, facts)
        if isinstance(s, ast.Break):
            if jumps is None:
                raise Problem('break outside a loop')
            return jumps[1](env, facts)
        if isinstance(s, ast.Assign):
            return self.assign(s, env, facts, k_next)
        if isinstance(s, ast.Delete):
            return k_next(self.delete(s, env, facts), facts)
        if isinstance(s, ast.Expr):
            return k_next(self.method_stmt(s, env, facts), facts)
        if isinstance(s, ast.If):
            c = self.cond(s.test, env, facts)
            ft = implied(c, True, dict(facts))
            fe = implied(c, False, dict(facts))
            envt, enve = dict(env), dict(env)
            for (cond, pol), target in [(x, envt) for x in narrowings(c, True, [])] + [(x, enve) for x in narrowings(c, False, [])]:
                if pol:
                    cond[3](target, V(cond[2]))
            t = self.block(list(s.body), envt, ft, k_next, jumps)
            e = self.block(list(s.orelse), enve, fe, k_next, jumps)
            return mk_if(c, t, e)
        if isinstance(s, ast.Try):
            return self.try_path_info(s, env, facts, k_next, jumps)
        if isinstance(s, ast.For):
            return self.for_loop(s, env, facts, k_next)
        raise Problem('statement outside the subset: %s' % u(s).split('\n')[0])

    def ret(self, s, env):
        kind = self.spec['kind']
        if s.value is None:
            raise Problem('bare return')
        if kind == 'matcher':
            if isinstance(s.value, ast.Constant) and s.value.value is None:
                return K('None')
            obj, ty = self.expr(s.value, env, {})
            if ty == MDICTOWN:
                return A('Some', [obj])
            raise Problem('matcher must return None or the dictionary it built: %s' % u(s))
        obj, ty = self.expr(s.value, env, {})
        if kind == 'call':
            if ty == INFO:
                return A('ret_match', [obj[1], obj[0]])
            if ty == INFONONE:
                return K('ret_none')
            raise Problem('return of a %s where the info dictionary is expected: %s' % (ty, u(s)))
        if kind == 'connect':
            if ty == ROUTE and isinstance(obj, V) and obj.name == env.get('$new', (None,))[0]:
                return A('connected', [env['$m'][0]])
            raise Problem('connect must return the route it created: %s' % u(s))
        if kind == 'observer':
            want = self.spec['ret']
            if ty == want:
                return b_term(obj) if want == BOOL else obj
            raise Problem('return of a %s where a %s is expected: %s' % (ty, want, u(s)))
        if kind == 'pure':
            want = self.spec['ret']
            if ty == want or (want == SEGS and ty == SEGSOWN):
                return obj
            raise Problem('return of a %s where a %s is expected: %s' % (ty, want, u(s)))
        raise Problem('return outside the subset: %s' % u(s))

    def raise_(self, s, env):
        e = s.exc
        if self.spec['kind'] == 'call' and isinstance(e, ast.Call) and isinstance(e.func, ast.Name) \
                and e.func.id == 'URLDecodeError' and not e.keywords and s.cause is None:
            for a in e.args:
                if not (isinstance(a, ast.Attribute) and isinstance(a.value, ast.Name)
                        and env.get(a.value.id, (None, None))[1] == EXCV):
                    raise Problem('URLDecodeError built from something else than the caught exception: %s' % u(s))
            self.used.add('URLDecodeError')
            return K('ret_decode_error')
        raise Problem('raise outside the table: %s' % u(s))

    def assign(self, s, env, facts, k_next):
        if len(s.targets) != 1:
            raise Problem('chained assignment: %s' % u(s))
        tg = s.targets[0]
        kind = self.spec['kind']
        # a, b = _compile_route(pattern)      (targets: names, or attributes of self in __init__)
        if isinstance(tg, ast.Tuple):
            if not (len(tg.elts) == 2 and isinstance(s.value, ast.Call) and isinstance(s.value.func, ast.Name)
                    and s.value.func.id == '_compile_route' and len(s.value.args) == 1 and not s.value.keywords):
                raise Problem('unpacking outside the table: %s' % u(s))
            aobj, aty = self.expr(s.value.args[0], env, facts)
            if aty != TEXT:
                raise Problem('_compile_route of a %s: %s' % (aty, u(s)))
            self.used.add('_compile_route')
            b = self.fresh('p')
            env2 = dict(env)
            for el, (val, ty) in zip(tg.elts, ((V(b), PAT), (None, GEN))):
                env2 = self.store(el, val, ty, env2, s)
            ok = k_next(env2, facts)
            return self.res_match(A('parse', [aobj]), b, ok, env)
        obj, ty = self.expr(s.value, env, facts)
        if ty.startswith('res '):
            b = self.fresh(tg.id if isinstance(tg, ast.Name) else 'r')
            env2 = self.store(tg, V(b), ty[4:], dict(env), s)
            if ty[4:] == ROUTE and kind == 'connect':
                env2['$new'] = (b, 'marker')
            return self.res_match(obj, b, k_next(env2, facts), env)
        return k_next(self.store(tg, obj, ty, dict(env), s), facts)

    def res_match(self, scrut, binder, ok, env):
        kind = self.spec['kind']
        if kind == 'init':
            fail = {c: K(c) for c in ('CompileError', 'Unsupported', 'FactsDrift')}
        elif kind == 'connect':
            fail = {c: A('connect_failed', [env['$m'][0], K('(@%s route)' % c)]) for c in ('CompileError', 'Unsupported', 'FactsDrift')}
        else:
            raise Problem('a call that may raise re.error in a function without a failure result')
        return Match(scrut, [(('Ok', [binder]), ok)] + [((c, []), fail[c]) for c in ('CompileError', 'Unsupported', 'FactsDrift')])

    def store(self, tg, obj, ty, env, s):
        kind = self.spec['kind']
        if isinstance(tg, ast.Subscript) and kind == 'matcher' and isinstance(tg.value, ast.Name) \
                and env.get(tg.value.id, (0, 0))[1] == MDICTOWN:
            kobj, kty = self.expr(tg.slice, env, {})
            if kty == TEXT and ty in (TEXT, SEGS):
                env[tg.value.id] = (A('md_put', [env[tg.value.id][0], kobj, A('MText' if ty == TEXT else 'MSegs', [obj])]), MDICTOWN)
                return env
        if isinstance(tg, ast.Name):
            if ty == MDICTOWN and not (isinstance(s.value, ast.Dict) and not s.value.keys):
                raise Problem('a second name for a mutable dict (aliasing is not modelled): %s' % u(s))
            if ty == SEGSOWN and not (isinstance(s.value, ast.List) and not s.value.elts):
                raise Problem('a second name for a mutable list (aliasing is not modelled): %s' % u(s))
            env[tg.id] = (obj, ty)
            return env
        if isinstance(tg, ast.Attribute) and isinstance(tg.value, ast.Name) and tg.value.id in env:
            oty = env[tg.value.id][1]
            if oty == SELFR and kind == 'init':
                f = dict(env['$fields'][0])
                f[tg.attr] = (obj, ty)
                env['$fields'] = (f, 'fields')
                return env
        if isinstance(tg, ast.Subscript) and kind == 'connect':
            dobj, dty = self.expr(tg.value, env, {})
            kobj, kty = self.expr(tg.slice, env, {})
            if dty == 'dict of routes' and kty == TEXT and ty == ROUTE and self.is_self_attr(tg.value, env, 'routes'):
                env['$m'] = (A('set_routes', [env['$m'][0], A('assoc_set', [dobj, kobj, obj])]), 'state')
                env.pop('$lookup', None)
                return env
        raise Problem('assignment target outside the subset: %s' % u(s))

    def is_cfg_attr(self, n, env):
        return isinstance(n, ast.Attribute) and isinstance(n.value, ast.Name) and n.value.id in env \
            and env[n.value.id][1] == SELFCFG and n.attr in self.spec.get('attrs', {})

    def is_self_attr(self, n, env, attr=None):
        return isinstance(n, ast.Attribute) and isinstance(n.value, ast.Name) and n.value.id in env \
            and env[n.value.id][1] == SELFM and (attr is None or n.attr == attr)

    def delete(self, s, env, facts):
        # del l[-1]
        if len(s.targets) == 1 and isinstance(s.targets[0], ast.Subscript) and isinstance(s.targets[0].value, ast.Name) \
                and u(s.targets[0].slice) == '-1':
            name = s.targets[0].value.id
            if name in env and env[name][1] == SEGSOWN:
                obj = env[name][0]
                if facts.get(A('l_is_nil', [obj]).key()) is not False:
                    raise Problem('%s: not dominated by a true test of the list (may raise IndexError)' % u(s))
                env = dict(env)
                env[name] = (A('l_drop_last', [obj]), SEGSOWN)
                return env
        raise Problem('del outside the table: %s' % u(s))

    def method_stmt(self, s, env, facts):
        c = s.value
        if not (isinstance(c, ast.Call) and isinstance(c.func, ast.Attribute) and not c.keywords and len(c.args) == 1):
            raise Problem('expression statement outside the subset: %s' % u(s))
        recv, meth = c.func.value, c.func.attr
        aobj, aty = self.expr(c.args[0], env, facts)
        if isinstance(recv, ast.Name) and recv.id in env and env[recv.id][1] == SEGSOWN and meth == 'append':
            if aty != TEXT:
                raise Problem('%s: appending a %s' % (u(s), aty))
            env = dict(env)
            env[recv.id] = (A('l_snoc', [env[recv.id][0], aobj]), SEGSOWN)
            return env
        if self.spec['kind'] == 'connect' and self.is_self_attr(recv, env) and recv.attr in ('routelist', 'static_routes'):
            getter, setter, _ = MAPPER_ATTRS[recv.attr]
            m = env['$m'][0]
            cur = A(getter, [m])
            if aty != ROUTE:
                raise Problem('%s: argument is a %s, expected a route' % (u(s), aty))
            if meth == 'append':
                new = A('l_snoc', [cur, aobj])
            elif meth == 'remove':
                if facts.get(A('mem_id', [A('r_id', [aobj]), cur]).key()) is not True:
                    raise Problem('%s: list.remove not dominated by a true membership test (may raise ValueError)' % u(s))
                new = A('remove_id', [A('r_id', [aobj]), cur])
            else:
                raise Problem('method outside the table: %s' % u(s))
            env = dict(env)
            env['$m'] = (A(setter, [m, new]), 'state')
            return env
        raise Problem('expression statement outside the table: %s' % u(s))

    def try_path_info(self, s, env, facts, k_next, jumps):
        if self.spec['kind'] != 'call' or s.orelse or s.finalbody or len(s.body) != 1 or len(s.handlers) != 2 \
                or not isinstance(s.body[0], ast.Assign):
            raise Problem('try statement outside the table: %s' % u(s).split('\n')[0])
        hs = {}
        for h in s.handlers:
            if not isinstance(h.type, ast.Name) or h.type.id not in ('KeyError', 'UnicodeDecodeError') or h.type.id in hs:
                raise Problem('exception handler outside the table: %s' % u(h).split('\n')[0])
            hs[h.type.id] = h
        if len(hs) != 2:
            raise Problem('expected handlers for KeyError and UnicodeDecodeError')
        reads = [n for n in ast.walk(s.body[0].value) if isinstance(n, ast.Attribute) and n.attr == 'path_info']
        if len(reads) != 1 or not (isinstance(reads[0].value, ast.Name) and env.get(reads[0].value.id, (0, 0))[1] == REQ):
            raise Problem('the try body must read request.path_info exactly once: %s' % u(s.body[0]))
        others = [n for n in ast.walk(s.body[0].value) if isinstance(n, (ast.Call, ast.Subscript))]
        if others:
            raise Problem('the try body may raise for other reasons: %s' % u(s.body[0]))
        self.used |= {'KeyError', 'UnicodeDecodeError'}
        b = self.fresh('t')
        env_ok = dict(env)
        env_ok['$path_info'] = (V(b), TEXT)
        ok = self.block([s.body[0]], env_ok, facts, k_next, jumps)
        env_k = dict(env)
        if hs['KeyError'].name:
            env_k[hs['KeyError'].name] = (None, EXCV)
        missing = self.block(list(hs['KeyError'].body), env_k, facts, k_next, jumps)
        env_u = dict(env)
        if hs['UnicodeDecodeError'].name:
            env_u[hs['UnicodeDecodeError'].name] = (None, EXCV)
        undec = self.block(list(hs['UnicodeDecodeError'].body), env_u, facts, k_next, jumps)
        return Match(A('req_path_info', [V('raw')]),
                     [(('PI_missing', []), missing), (('PI_undecodable', []), undec), (('PI_text', [b]), ok)])

    def for_loop(self, s, env, facts, k_rest):
        if s.orelse:
            raise Problem('for .. else')
        itobj, itty = self.expr(s.iter, env, facts)
        if itty not in ELEM:
            raise Problem('loop over a %s: %s' % (itty, u(s.iter)))
        pair = isinstance(s.target, ast.Tuple) and ELEM[itty] in (PAIR, PAIRO) and len(s.target.elts) == 2 \
            and all(isinstance(e, ast.Name) for e in s.target.elts) and s.target.elts[0].id != s.target.elts[1].id
        triple = isinstance(s.target, ast.Tuple) and ELEM[itty] == TRIPLE and len(s.target.elts) == 3 \
            and all(isinstance(e, ast.Name) for e in s.target.elts) and len(set(e.id for e in s.target.elts)) == 3
        if not isinstance(s.target, ast.Name) and not pair and not triple:
            raise Problem('loop target outside the subset: %s' % u(s.target))
        self.nloops += 1
        lp = Loop(self.nloops, ELEM[itty], self.spec['coqret'])
        lp.x = 'x_%s_%d' % ('kv' if pair else 'req' if triple else _ident(s.target.id), lp.n)
        tname = None if (pair or triple) else s.target.id
        tnames = [e.id for e in s.target.elts] if (pair or triple) else [tname]
        occurs, assigned = [], []
        for st in s.body:
            for n in ast.walk(st):
                if isinstance(n, ast.Name):
                    if n.id not in occurs:
                        occurs.append(n.id)
                    if isinstance(n.ctx, (ast.Store, ast.Del)) and n.id not in assigned:
                        assigned.append(n.id)
                if isinstance(n, ast.Call) and isinstance(n.func, ast.Attribute) and isinstance(n.func.value, ast.Name) \
                        and n.func.value.id not in assigned:
                    assigned.append(n.func.value.id)
                if isinstance(n, ast.Subscript) and isinstance(n.ctx, ast.Store) and isinstance(n.value, ast.Name) \
                        and n.value.id not in assigned:
                    assigned.append(n.value.id)
                if isinstance(n, ast.Delete):
                    for tg in n.targets:
                        for nn in ast.walk(tg):
                            if isinstance(nn, ast.Name) and nn.id not in assigned:
                                assigned.append(nn.id)
                if isinstance(n, ast.Attribute) and isinstance(n.ctx, ast.Store) and self.spec['kind'] == 'connect':
                    raise Problem('mapper state changed inside a loop')
        carried = []
        for nm in occurs:
            if nm in assigned and nm in env and nm not in tnames:
                obj, ty = env[nm]
                if ty not in COQTY or obj is None:
                    raise Problem('loop-carried variable %s has the unmodelled type %s' % (nm, ty))
                carried.append((nm, 'c_%s_%d' % (_ident(nm), lp.n), ty))
        lp.carried = carried
        env_head = dict(env)
        for nm in tnames:
            env_head.pop(nm, None)
        for nm, b, ty in carried:
            env_head[nm] = (V(b), ty)
        facts_head = {}            # tests on carried values made before the loop say nothing inside it

        def after(env2):
            out = dict(env_head)
            for nm, b, ty in carried:
                if nm not in env2 or env2[nm][1] != ty:
                    raise Problem('loop-carried variable %s changes type inside the loop' % nm)
                out[nm] = env2[nm]
            return out

        def k_continue(env2, facts2):
            a = after(env2)
            return Jump(lp, [a[nm][0] for nm, _, _ in carried])

        def k_break(env2, facts2):
            return k_rest(after(env2), {})
        env_body = dict(env_head)
        if triple:
            env_body[tnames[0]] = (A('fst', [A('fst', [V(lp.x)])]), TEXT)
            env_body[tnames[1]] = (A('snd', [A('fst', [V(lp.x)])]), OPT(REGEX))
            env_body[tnames[2]] = (A('snd', [V(lp.x)]), OPT(TEXT))
        elif pair:
            env_body[tnames[0]] = (A('fst', [V(lp.x)]), TEXT)
            env_body[tnames[1]] = (A('snd', [V(lp.x)]), TEXT if ELEM[itty] == PAIR else OPT(TEXT))
        else:
            env_body[tname] = (V(lp.x), lp.elem_ty)
        cons = self.block(list(s.body), env_body, facts_head, k_continue, (k_continue, k_break))
        nil = k_rest(dict(env_head), {})
        return Fix(lp, nil, cons, itobj, [env[nm][0] for nm, _, _ in carried])

    # ------------------------------------------------------------ expressions
    def cond(self, n, env, facts):
        if isinstance(n, ast.UnaryOp) and isinstance(n.op, ast.Not):
            return ('not', self.cond(n.operand, env, facts))
        if isinstance(n, ast.BoolOp):
            # operands are evaluated left to right: a later operand of `and` (`or`) runs only when the earlier ones were
            # true (false), so it sees the Optional narrowings they establish (`x is None or f(x)`, `v is not None and a != v`)
            pol = isinstance(n.op, ast.And)
            cur, out = dict(env), []
            for v in n.values:
                c = self.cond(v, cur, facts)
                out.append(c)
                for (cnd, p) in narrowings(c, pol, []):
                    if p:
                        cnd[3](cur, V(cnd[2]))
            return ('and' if pol else 'or', out)
        if isinstance(n, ast.Compare) and len(n.ops) == 1 and isinstance(n.ops[0], (ast.Is, ast.IsNot)) \
                and isinstance(n.comparators[0], ast.Constant) and n.comparators[0].value is None \
                and isinstance(n.left, ast.Call) and isinstance(n.left.func, ast.Attribute) and n.left.func.attr == 'match' \
                and len(n.left.args) == 1 and not n.left.keywords and isinstance(n.left.func.value, ast.Name) \
                and env.get(n.left.func.value.id, (0, 0))[1] == REGEX:
            aobj, aty = self.expr(n.left.args[0], env, facts)
            if aty != TEXT:
                raise Problem('regex .match of a %s: %s' % (aty, u(n)))
            c = ('atom', A('re_match', [V('O'), env[n.left.func.value.id][0], aobj]))
            return c if isinstance(n.ops[0], ast.IsNot) else ('not', c)
        if isinstance(n, ast.Compare) and len(n.ops) == 1 and isinstance(n.ops[0], (ast.Is, ast.IsNot)) \
                and not isinstance(n.comparators[0], ast.Constant) and self.spec['gen'] == 'gen_xhr_call':
            lobj, lty = self.expr(n.left, env, facts)
            robj, rty = self.expr(n.comparators[0], env, facts)
            if lty == BOOL and rty == BOOL:
                c = ('atom', A('Bool.eqb', [b_term(lobj), b_term(robj)]))
                return c if isinstance(n.ops[0], ast.Is) else ('not', c)
            raise Problem('`is` between a %s and a %s: %s' % (lty, rty, u(n)))
        if isinstance(n, ast.Compare) and len(n.ops) == 1 and isinstance(n.ops[0], (ast.In, ast.NotIn)) \
                and isinstance(n.comparators[0], ast.Attribute) and n.comparators[0].attr == 'headers' \
                and isinstance(n.comparators[0].value, ast.Name) and env.get(n.comparators[0].value.id, (0, 0))[1] == REQ:
            lobj, lty = self.expr(n.left, env, facts)
            if lty != TEXT:
                raise Problem('`in request.headers` of a %s: %s' % (lty, u(n)))
            c = ('atom', A('hdr_mem', [V('headers'), lobj]))
            return ('not', c) if isinstance(n.ops[0], ast.NotIn) else c
        if isinstance(n, ast.Compare) and len(n.ops) == 1 and isinstance(n.ops[0], (ast.Is, ast.IsNot)) \
                and isinstance(n.comparators[0], ast.Constant) and n.comparators[0].value is None:
            if not isinstance(n.left, ast.Name) or n.left.id not in env:
                raise Problem('`is None` test of something that is not a local: %s' % u(n))
            obj, ty = env[n.left.id]
            if not ty.startswith('optional '):
                raise Problem('`is None` test of a %s: %s' % (ty, u(n)))
            name, inner = n.left.id, ty[len('optional '):]
            b = self.fresh(name)

            def narrow(target, val, name=name, inner=inner):
                target[name] = (val, inner)
            c = ('opt', obj, b, narrow)
            return c if isinstance(n.ops[0], ast.IsNot) else ('not', c)
        if isinstance(n, ast.Compare) and len(n.ops) == 1 and isinstance(n.ops[0], (ast.Is, ast.IsNot)) \
                and isinstance(n.comparators[0], ast.Constant) and n.comparators[0].value is True \
                and isinstance(n.left, ast.Name) and env.get(n.left.id, (0, 0))[1] == BOOL:
            c = env[n.left.id][0]
            return c if isinstance(n.ops[0], ast.Is) else ('not', c)
        if isinstance(n, ast.Compare) and len(n.ops) == 1 and isinstance(n.ops[0], (ast.In, ast.NotIn)):
            lobj, lty = self.expr(n.left, env, facts)
            robj, rty = self.expr(n.comparators[0], env, facts)
            if rty == 'dict of routes' and lty == TEXT:
                b = self.fresh('old')
                dk, kk = robj.key(), lobj.key()

                def narrow(target, val, dk=dk, kk=kk):
                    target['$lookup'] = ((dk, kk, val), 'lookup')
                c = ('opt', A('assoc_get', [robj, lobj]), b, narrow)
            elif rty == ROUTES and lty == ROUTE:
                c = ('atom', A('mem_id', [A('r_id', [lobj]), robj]))
            elif rty == SEGS and lty == TEXT:
                c = ('atom', A('mem_text', [lobj, robj]))
            else:
                raise Problem('`in` between a %s and a %s is outside the table: %s' % (lty, rty, u(n)))
            return ('not', c) if isinstance(n.ops[0], ast.NotIn) else c
        obj, ty = self.expr(n, env, facts)
        if ty == BOOL:
            return obj
        if ty == OPT(TEXT) and (isinstance(n, ast.Name) or self.is_cfg_attr(n, env)):
            key = n.id if isinstance(n, ast.Name) else '$attr:' + n.attr
            b = self.fresh(n.id if isinstance(n, ast.Name) else n.attr)

            def narrow(target, val, key=key):
                target[key] = (val, TEXT)
            return ('and', [('opt', obj, b, narrow), ('not', ('atom', A('l_is_nil', [V(b)])))])
        if ty in (TEXT, SEGS, SEGSOWN, PREDS, ROUTES):
            return ('not', ('atom', A('l_is_nil', [obj])))
        raise Problem('truth value of a %s is outside the table: %s' % (ty, u(n)))

    def expr(self, n, env, facts):
        kind = self.spec['kind']
        if isinstance(n, ast.Name):
            if n.id in env:
                return env[n.id]
            raise Problem('name %s is unbound here (or local to a loop iteration), or outside the table' % n.id)
        if isinstance(n, ast.Constant) and isinstance(n.value, str):
            return lit(n.value), TEXT
        if isinstance(n, ast.Constant) and isinstance(n.value, bool):
            return ('const', n.value), BOOL
        if isinstance(n, ast.Constant) and n.value is None and kind == 'frag':
            return K('None'), NONE
        if self.is_cfg_attr(n, env):
            return env.get('$attr:' + n.attr, self.spec['attrs'][n.attr])
        if isinstance(n, ast.BinOp) and isinstance(n.op, ast.Add):
            lobj, lty = self.expr(n.left, env, facts)
            robj, rty = self.expr(n.right, env, facts)
            if lty == TEXT and rty == TEXT:
                return A('app', [lobj, robj]), TEXT
            if lty == ROUTES and rty == ROUTES:
                return A('app', [lobj, robj]), ROUTES        # a NEW list
            raise Problem('+ between a %s and a %s is outside the table: %s' % (lty, rty, u(n)))
        if isinstance(n, (ast.List, ast.Tuple)) and not n.elts:
            return K('[]'), (SEGSOWN if isinstance(n, ast.List) else SEGS)
        if isinstance(n, ast.BoolOp) and isinstance(n.op, ast.Or) and len(n.values) == 2:
            aobj, aty = self.expr(n.values[0], env, facts)
            if aty == TEXT:
                bobj, bty = self.expr(n.values[1], env, facts)
                if bty != TEXT:
                    raise Problem('`or` between a str and a %s: %s' % (bty, u(n)))
                return If(A('l_is_nil', [aobj]), bobj, aobj), TEXT
        if isinstance(n, (ast.UnaryOp, ast.BoolOp)):
            return self.cond(n, env, facts), BOOL
        if isinstance(n, ast.Compare):
            if len(n.ops) != 1:
                raise Problem('chained comparison: %s' % u(n))
            if isinstance(n.ops[0], (ast.Eq, ast.NotEq)):
                lobj, lty = self.expr(n.left, env, facts)
                robj, rty = self.expr(n.comparators[0], env, facts)
                if {lty, rty} == {TEXT, OPT(TEXT)}:
                    if lty != TEXT:
                        lobj, robj = robj, lobj
                    c = ('atom', A('is_remainder', [lobj, robj]))
                    return (('not', c) if isinstance(n.ops[0], ast.NotEq) else c), BOOL
                if lty == OPT(TEXT) and rty == OPT(TEXT):
                    c = ('atom', A('otext_eqb', [lobj, robj]))
                    return (('not', c) if isinstance(n.ops[0], ast.NotEq) else c), BOOL
                if lty == TEXT and rty == TEXT:
                    if isinstance(lobj, K) and not isinstance(robj, K):
                        lobj, robj = robj, lobj
                    c = ('atom', A('text_eqb', [lobj, robj]))
                    return (('not', c) if isinstance(n.ops[0], ast.NotEq) else c), BOOL
                raise Problem('== between a %s and a %s is outside the table: %s' % (lty, rty, u(n)))
            return self.cond(n, env, facts), BOOL
        if isinstance(n, ast.Dict) and not n.keys and kind == 'matcher':
            return K('[]'), MDICTOWN
        if isinstance(n, ast.Dict):
            keys = [k.value if isinstance(k, ast.Constant) else None for k in n.keys]
            if sorted(map(str, keys)) == ['match', 'route'] and kind == 'call':
                vals = dict(zip(keys, n.values))
                if all(isinstance(v, ast.Constant) and v.value is None for v in n.values):
                    return None, INFONONE
                mo, mty = self.expr(vals['match'], env, facts)
                ro, rty = self.expr(vals['route'], env, facts)
                if mty == MDICT and rty == ROUTE:
                    return (mo, ro), INFO
            raise Problem('dictionary outside the table: %s' % u(n))
        if isinstance(n, ast.Attribute) and isinstance(n.value, ast.Name) and n.value.id in env:
            oobj, oty = env[n.value.id]
            if oty == SELFM and n.attr in MAPPER_ATTRS:
                getter, _, ty = MAPPER_ATTRS[n.attr]
                return A(getter, [env['$m'][0] if '$m' in env else V('m')]), ty
            if oty == SELFP and n.attr == 'reqs':
                return V('reqs'), REQS
            if oty == SELFH and n.attr == 'val':
                return V('reqs'), HREQS
            if oty == 'self (request_method predicate)' and n.attr == 'val':
                return V('val'), SEGS
            if oty == REQ and n.attr == 'method' and self.spec['gen'] == 'gen_method_call':
                return V('method'), TEXT
            if oty == SELFX and n.attr == 'val':
                return ('atom', V('val')), BOOL
            if oty == REQ and n.attr == 'is_xhr' and self.spec['gen'] == 'gen_xhr_call':
                return ('atom', V('xhr')), BOOL
            if oty == ROUTE and n.attr == 'predicates':
                return A('r_preds', [oobj]), PREDS
            if oty == REQ and n.attr == 'path_info':
                if '$path_info' not in env:
                    raise Problem('request.path_info outside the try shape of the table (it may raise)')
                return env['$path_info']
            raise Problem('attribute outside the table: %s' % u(n))
        if isinstance(n, ast.Subscript):
            dobj, dty = self.expr(n.value, env, facts)
            kobj, kty = self.expr(n.slice, env, facts)
            if dty == 'dict of routes' and kty == TEXT:
                lk = env.get('$lookup')
                if lk and lk[0][0] == dobj.key() and lk[0][1] == kobj.key():
                    return lk[0][2], ROUTE
                raise Problem('%s may raise KeyError here (not under a true `in` test of the same dict and key)' % u(n))
            raise Problem('subscript outside the table: %s' % u(n))
        if isinstance(n, ast.Call):
            return self.call(n, env, facts)
        raise Problem('expression outside the table: %s' % u(n))

    def call(self, n, env, facts):
        kind = self.spec['kind']
        f = n.func
        if n.keywords:
            raise Problem('keyword arguments: %s' % u(n))
        if isinstance(f, ast.Name) and f.id == 'bool' and f.id not in env and len(n.args) == 1 and not n.keywords:
            return self.cond(n.args[0], env, facts), BOOL
        if isinstance(f, ast.Attribute) and f.attr == 'get' and len(n.args) == 1 and not n.keywords \
                and self.is_self_attr(f.value, env, 'routes'):
            kobj, kty = self.expr(n.args[0], env, facts)
            if kty == TEXT:
                return A('assoc_get', [self.expr(f.value, env, facts)[0], kobj]), OPT(ROUTE)
        if isinstance(f, ast.Attribute) and f.attr == 'get' and len(n.args) == 1 and isinstance(f.value, ast.Attribute) \
                and f.value.attr == 'params' and isinstance(f.value.value, ast.Name) \
                and env.get(f.value.value.id, (0, 0))[1] == REQ:
            kobj, kty = self.expr(n.args[0], env, facts)
            if kty == TEXT:
                return A('params_get', [V('params'), kobj]), OPT(TEXT)
        if isinstance(f, ast.Attribute) and f.attr == 'get' and len(n.args) == 1 and isinstance(f.value, ast.Attribute) \
                and f.value.attr == 'headers' and isinstance(f.value.value, ast.Name) \
                and env.get(f.value.value.id, (0, 0))[1] == REQ:
            kobj, kty = self.expr(n.args[0], env, facts)
            if kty == TEXT:
                return A('hdr_get', [V('headers'), kobj]), OPT(TEXT)
        if isinstance(f, ast.Attribute) and f.attr == 'items' and not n.args and isinstance(f.value, ast.Call) \
                and isinstance(f.value.func, ast.Attribute) and f.value.func.attr == 'groupdict' and not f.value.args \
                and not f.value.keywords:
            gobj, gty = self.expr(f.value.func.value, env, facts)
            if gty == GROUPS:
                return gobj, ITEMS
            raise Problem('groupdict() of a %s: %s' % (gty, u(n)))
        if isinstance(f, ast.Attribute):
            robj, rty = self.expr(f.value, env, facts)
            args = [self.expr(a, env, facts) for a in n.args]
            one_char = len(args) == 1 and args[0][1] == TEXT and isinstance(n.args[0], ast.Constant) and len(n.args[0].value) == 1
            if isinstance(f.value, ast.Constant) and f.value.value == '{}/{}' and f.attr == 'format' and len(args) == 2 \
                    and args[0][1] == TEXT and args[1][1] == TEXT:
                return A('fmt_slash', [args[0][0], args[1][0]]), TEXT
            if rty == TEXT and f.attr in ('rstrip', 'lstrip') and one_char:
                return A(f.attr + '_char', [K('%d%%N' % ord(n.args[0].value)), robj]), TEXT
            if rty == TEXT and f.attr == 'strip' and one_char:
                return A('strip_char', [K('%d%%N' % ord(n.args[0].value)), robj]), TEXT
            if rty == TEXT and f.attr == 'split' and one_char:
                return A('split_on', [K('%d%%N' % ord(n.args[0].value)), robj]), SEGS
            if rty == TEXT and f.attr == 'encode' and len(n.args) == 1 and isinstance(n.args[0], ast.Constant) \
                    and n.args[0].value == 'latin-1':
                return A('latin1_encode', [robj]), OPT('bytes')
            if rty == OPT('bytes') and f.attr == 'decode' and len(n.args) == 1 and isinstance(n.args[0], ast.Constant) \
                    and n.args[0].value == 'utf-8':
                return A('utf8_decode_opt', [robj]), OPT(TEXT)
            if rty == ROUTE and f.attr == 'match' and len(args) == 1 and args[0][1] == TEXT and kind == 'call':
                return A('mt', [A('r_pat', [robj]), args[0][0]]), OPT(MDICT)
            raise Problem('method call outside the table: %s' % u(n))
        if isinstance(f, ast.Name) and f.id in env and env[f.id][1] == MATCHFN and len(n.args) == 1:
            aobj, aty = self.expr(n.args[0], env, facts)
            if aty == TEXT:
                return A('groups', [aobj]), OPT(GROUPS)
        if isinstance(f, ast.Name) and f.id == 'split_path_info' and f.id not in env and kind == 'matcher' and len(n.args) == 1:
            aobj, aty = self.expr(n.args[0], env, facts)
            if aty == TEXT:
                self.used.add('split_path_info')
                return A('gen_split_path_info', [aobj]), SEGS
        if not isinstance(f, ast.Name) or f.id in env:
            raise Problem('call outside the table: %s' % u(n))
        if f.id == 'tuple' and len(n.args) == 1:
            obj, ty = self.expr(n.args[0], env, facts)
            if ty in (SEGS, SEGSOWN):
                self.used.add('tuple')
                return obj, SEGS
        if f.id == 'Route' and kind == 'connect' and len(n.args) == 5:
            a = [self.expr(x, env, facts) for x in n.args]
            if a[0][1] == TEXT and a[1][1] == TEXT and a[3][1] == PREDS:
                self.used.add('Route')
                return A('gen_route_init', [V('parse'), V('id'), a[0][0], a[1][0], a[3][0]]), RES(ROUTE)
        if f.id == 'all' and kind == 'call' and len(n.args) == 1 and isinstance(n.args[0], ast.GeneratorExp):
            g = n.args[0]
            if len(g.generators) == 1 and not g.generators[0].ifs and not g.generators[0].is_async \
                    and isinstance(g.generators[0].target, ast.Name) and isinstance(g.elt, ast.Call) \
                    and isinstance(g.elt.func, ast.Name) and g.elt.func.id == g.generators[0].target.id \
                    and len(g.elt.args) == 2 and not g.elt.keywords:
                pobj, pty = self.expr(g.generators[0].iter, env, facts)
                iobj, ity = self.expr(g.elt.args[0], env, facts)
                qobj, qty = self.expr(g.elt.args[1], env, facts)
                if pty == PREDS and ity == INFO and qty == REQ:
                    self.used.add('all')
                    d, r = iobj
                    return ('eatom', A('preds_verdict', [V('method'), d, pobj]),
                            K('(%s, %s)' % (render(A('r_id', [r]), 0), render(A('preds_called', [V('method'), d, pobj]), 0)))), BOOL
        raise Problem('call outside the table: %s' % u(n))


# ---- module-level bindings the table relies on
def module_binds(tree):
    binds = {}
    for st in tree.body:
        if isinstance(st, (ast.FunctionDef, ast.AsyncFunctionDef)):
            binds.setdefault(st.name, []).append('def')
        elif isinstance(st, ast.ClassDef):
            binds.setdefault(st.name, []).append('class')
        elif isinstance(st, ast.ImportFrom):
            for al in st.names:
                binds.setdefault(al.asname or al.name, []).append('from %s import %s' % (st.module, al.name))
        elif isinstance(st, ast.Import):
            for al in st.names:
                binds.setdefault((al.asname or al.name).split('.')[0], []).append('import')
        else:
            for nn in ast.walk(st):
                if isinstance(nn, ast.Name) and isinstance(nn.ctx, (ast.Store, ast.Del)):
                    binds.setdefault(nn.id, []).append('assign')
    return binds


WANT = {'pyramid/urldispatch.py': {'Route': ['class'], '_compile_route': ['def'],
                                   'URLDecodeError': ['from pyramid.exceptions import URLDecodeError'],
                                   'split_path_info': ['from pyramid.traversal import split_path_info'],
                                   'RoutesMapper': ['class']},
        'pyramid/config/routes.py': {'RoutesConfiguratorMixin': ['class'], 'urlparse': ['from urllib.parse import urlparse']},
        'pyramid/predicates.py': {'RequestParamPredicate': ['class'], 'HeaderPredicate': ['class'], 'XHRPredicate': ['class'],
                                  'RequestMethodPredicate': ['class']},
        'pyramid/traversal.py': {'split_path_info': ['def'], 'decode_path_info': ['def'],
                                 'lru_cache': ['from functools import lru_cache']}}
BUILTINS = ('all', 'tuple', 'bool', 'KeyError', 'UnicodeDecodeError')


def check_module(rel, tree, problems):
    binds = module_binds(tree)
    for nm, want in WANT[rel].items():
        if binds.get(nm) != want:
            problems.append('translator: module-level binding of %s in %s is %s, expected %s' % (nm, rel, binds.get(nm) or 'missing', want))
    for nm in BUILTINS:
        if nm in binds:
            problems.append('translator: builtin %s is rebound at module level in %s' % (nm, rel))
    if rel == 'pyramid/urldispatch.py':
        for cname, decs in (('RoutesMapper', ['implementer(IRoutesMapper)']), ('Route', ['implementer(IRoute)'])):
            cls = [c for c in tree.body if isinstance(c, ast.ClassDef) and c.name == cname]
            if len(cls) == 1:
                c = cls[0]
                if c.bases or c.keywords or [u(d) for d in c.decorator_list] != decs:
                    problems.append('translator: class %s has bases / keywords / other decorators than %s' % (cname, decs))
                for st in c.body:
                    if not isinstance(st, (ast.FunctionDef, ast.Expr)):
                        problems.append('translator: class %s has a non-method member: %s' % (cname, u(st).split('\n')[0][:60]))
                if cname == 'Route' and [st.name for st in c.body if isinstance(st, ast.FunctionDef)] != ['__init__']:
                    problems.append('translator: class Route has other members than __init__')


def find_def(tree, qual):
    node = tree
    for part in qual.split('.'):
        nxt = [c for c in node.body if isinstance(c, (ast.FunctionDef, ast.ClassDef)) and c.name == part]
        if len(nxt) != 1:
            return None
        node = nxt[0]
    return node


def load_fallback():
    try:
        with open(FALLBACK) as f:
            return json.load(f)
    except (OSError, ValueError):
        return {}


HEADER = '''(* GENERATED on every run by harness/c01/translate.py from src/pyramid/urldispatch.py and
   src/pyramid/traversal.py -- do not edit.  Control flow translated mechanically, leaves through
   the primitive table of that file onto the vocabulary of Model/C01.v. *)
From Coq Require Import List NArith ZArith Bool.
Import ListNotations.
Require Import Verif.Lib.Wire Verif.Lib.Text Verif.Lib.Utf8 Verif.Gen.Facts_C01 Verif.Model.C01.
Local Close Scope N_scope.
Local Open Scope nat_scope.

'''


def translate_tree(src_root):
    """-> (coq text of Gen/Prog_C01.v, problems, summary)"""
    problems, out, summary = [], [], {}
    fb = load_fallback()
    trees = {}
    for rel in WANT:
        try:
            with open(os.path.join(src_root, rel)) as f:
                trees[rel] = ast.parse(f.read())
            check_module(rel, trees[rel], problems)
        except (OSError, SyntaxError) as e:
            trees[rel] = None
            problems.append('translator: cannot read/parse %s: %s' % (rel, e))
    for spec in FRAGS + FUNCS:
        gen, body = spec['gen'], None
        tree = trees.get(spec['file'])
        if tree is not None:
            fn = find_def(tree, spec['qual'])
            if fn is None:
                problems.append('translator: %s not found (exactly once) in %s' % (spec['qual'], spec['file']))
            else:
                try:
                    body = render(Tr(fn, spec).translate(), 2)
                except Problem as e:
                    problems.append('translator: %s: %s' % (spec['qual'], e))
                except RecursionError:
                    problems.append('translator: %s: nesting too deep' % spec['qual'])
        if body is None:
            summary[gen] = 'FALLBACK (stored translation of the reference text)'
            body = fb.get(gen)
            if body is None:
                problems.append('translator: no stored fallback for %s' % gen)
                body = spec['default']
        else:
            summary[gen] = 'translated from source (%d lines of Gallina)' % (body.count('\n') + 1)
        out.append('Definition %s %s :=\n  %s.\n' % (gen, spec['sig'], body))
    return HEADER + '\n'.join(out), problems, summary


if __name__ == '__main__':
    import sys
    root = sys.argv[1] if len(sys.argv) > 1 and not sys.argv[1].startswith('--') else '/repo/src'
    if '--write-fallback' in sys.argv:
        fbs = {}
        for spec in FRAGS + FUNCS:
            with open(os.path.join(root, spec['file'])) as f:
                tree = ast.parse(f.read())
            fbs[spec['gen']] = render(Tr(find_def(tree, spec['qual']), spec).translate(), 2)
        with open(FALLBACK, 'w') as f:
            json.dump(fbs, f, indent=1, sort_keys=True)
        print('wrote', FALLBACK)
    else:
        coq, problems, summary = translate_tree(root)
        print(coq)
        for p in problems:
            print('PROBLEM:', p)
        print(summary)
