"""Case generator for C01: structured route declarations + paths instantiated from them and edited."""
import itertools
import re

ASTRAL = '\U0001d11e'
LETTERS = 'abcxyABX012'
META = '.+*?()[]^$|\\{}'
OTHER = ['%', ' ', '\u00e9', '\u20ac', ASTRAL, '-', '_', ':', '~', '\u0661', '\n', '=', '&', '#', ';', ',', '@', '!', '\u00c9']
PATH_ALPHA = list('abcxyABX012') * 3 + list('/./-_%: ') + ['\u00e9', '\u20ac', '\n', '\u0661', ASTRAL, '~', '+', '*', '{', '}']


NAMES = re.compile(r'[{:*]([_a-zA-Z]\w*)')


def traverse_ok(pattern, tp):
    if not tp.startswith('/') or any(c in tp for c in '%\n'):
        return False
    have = set(NAMES.findall(pattern))
    body = tp
    used = NAMES.findall(body)
    return all(n in have for n in used) and len(set(used)) == len(used) and body.count('{') == body.count('}') \
        and ':' not in body


def lit_char(rng):
    r = rng.random()
    if r < 0.6:
        return rng.choice(LETTERS)
    if r < 0.8:
        return rng.choice(META)
    return rng.choice(OTHER)


def pool_except(excl):
    return [c for c in PATH_ALPHA if c not in excl]


DIGITS = list('0123456789') * 3 + ['\u0661']
WORD = list('abcXY09_') * 3 + ['\u00e9', '\u0661']
# (regex text | None for the default, character pool, lo, hi)
HOLES = [
    (None, pool_except('/'), 1, None), (None, pool_except('/'), 1, None), (None, pool_except('/'), 1, None),
    ('\\d+', DIGITS, 1, None),
    ('[a-z]+', list('abcxyz'), 1, None),
    ('.*', pool_except('\n'), 0, None),
    ('.+', pool_except('\n'), 1, None),
    ('\\d{2}', DIGITS, 2, 2),
    ('[^/]*', pool_except('/'), 0, None),
    ('[^/]+', pool_except('/'), 1, None),
    ('\\w+', WORD, 1, None),
    ('[a-c0-9]{1,3}', list('abc0123456789'), 1, 3),
    ('x?', ['x'], 0, 1),
    ('\\d{2,}', DIGITS, 2, None),
    ('\\d{,2}', DIGITS, 0, 2),
    ('[^/.]+', pool_except('/.'), 1, None),
    ('[ab/]+', list('ab/'), 1, None),
    ('\\w', WORD, 1, 1),
    ('[^a]*', pool_except('a'), 0, None),
    ('\\d*', DIGITS, 0, None),
    ('[\u00e9a]+', ['\u00e9', 'a'], 1, None),
]
# multi-atom regexes: (regex, None, 0, None, [(pool, lo, hi), ...])
AB = list('ab')
MULTI = [
    ('\\d{4}-\\d{2}', [(DIGITS, 4, 4), (['-'], 1, 1), (DIGITS, 2, 2)]),
    ('[a-z]+\\d*', [(list('abcxyz'), 1, None), (DIGITS, 0, None)]),
    ('a\\d', [(['a'], 1, 1), (DIGITS, 1, 1)]),
    ('x-\\w+', [(['x'], 1, 1), (['-'], 1, 1), (WORD, 1, None)]),
    ('[^/]+/[^/]+', [(pool_except('/'), 1, None), (['/'], 1, 1), (pool_except('/'), 1, None)]),
    ('\\d\\d', [(DIGITS, 1, 1), (DIGITS, 1, 1)]),
    ('.*x', [(pool_except('\n'), 0, None), (['x'], 1, 1)]),
    ('\\w+-\\w+', [(WORD, 1, None), (['-'], 1, 1), (WORD, 1, None)]),
    ('[ab]*a', [(AB, 0, None), (['a'], 1, 1)]),
    ('a?a?aa', [(['a'], 0, 1), (['a'], 0, 1), (['a'], 1, 1), (['a'], 1, 1)]),
    ('\\d*\\d{2}', [(DIGITS, 0, None), (DIGITS, 2, 2)]),
    ('.+/.+', [(pool_except('\n'), 1, None), (['/'], 1, 1), (pool_except('\n'), 1, None)]),
    ('[a-z]+[a-z0-9]*', [(list('abcxyz'), 1, None), (list('abc012'), 0, None)]),
    ('ab', [(['a'], 1, 1), (['b'], 1, 1)]),
    ('a.b', [(['a'], 1, 1), (pool_except('\n'), 1, 1), (['b'], 1, 1)]),
    ('[ab]{1,2}[ab]{2}', [(AB, 1, 2), (AB, 2, 2)]),
    ('\\w*\\d', [(WORD, 0, None), (DIGITS, 1, 1)]),
]
HOLES += [(r, None, 0, None, parts) for r, parts in MULTI]
UNSUPPORTED = ['(a|b)', '\\d+?', '[\\d]+', '\\s+', '[a-]', '', '(?i)a', '[[a]', 'a|b', '\\d++', '.*?', 'a**', 'a{2}{3}', '\\.', 'a{2}?',
               'a{x}', '(a)', 'a$']


def gen_struct(rng):
    """-> list of elements ('lit', text) | ('hole', name, holespec) | ('old', name) | ('raw', text), star text or ''."""
    old = rng.random() < 0.12
    names = ['n0', 'n1', 'n2', 'n3', 'n4', 'n5']
    rng.shuffle(names)
    used = []
    elems = []
    meta = {}
    nseg = rng.choice([1, 1, 2, 2, 2, 3, 3, 4])
    for si in range(nseg):
        if si > 0 or rng.random() < 0.95:
            elems.append(('lit', '/'))
        k = rng.choice([1, 1, 1, 2, 2, 3])
        for _ in range(k):
            if rng.random() < 0.45:
                elems.append(('lit', ''.join(lit_char(rng) for _ in range(rng.choice([1, 1, 2, 3])))))
                continue
            r = rng.random()
            if r < 0.008 and used:
                name = rng.choice(used)                      # duplicate group name -> re.error
            elif r < 0.014:
                name = rng.choice(['a b', 'n-1', 'n.x', 'a{b}c'])  # bad group name -> re.error
            elif r < 0.017:
                name = rng.choice(['n\u00e9', 'a>b'])          # outside the model
                meta['unsupported'] = 1
            else:
                name = names.pop() if names else 'n9'
                if r > 0.96 and 'subpath' not in used and 'traverse' not in used:
                    # names that mean something to code DOWNSTREAM of the mapper (the traverser reads them)
                    name = "subpath" if r < 0.985 else "traverse"
            used.append(name)
            if old:
                elems.append(('old', name))
            elif rng.random() < 0.012:
                elems.append(('hole', name, (rng.choice(UNSUPPORTED), ['a', 'b', '1'], 1, 2)))
                meta['unsupported'] = 1
            else:
                elems.append(('hole', name, rng.choice(HOLES)))
    star = ''
    r = rng.random()
    if r < 0.30:
        if elems[-1] != ('lit', '/') and rng.random() < 0.8:
            elems.append(('lit', '/'))
        star = '*' + rng.choice(['rest', 'rest', 'r', 'tail', 'rest', 'rest', 'r', 'tail', 'subpath', 'traverse'])
        if star[1:] in [e[1] for e in elems if e[0] in ('hole', 'old')]:
            star = '*rest'
    elif r < 0.32:
        star = '*'
    elif r < 0.33:
        star = rng.choice(['*1x', '*rest\n', '*\u00e9', '*n0'])
    return elems, star, meta


def render(elems, star):
    out = ''
    for e in elems:
        if e[0] == 'lit':
            out += e[1]
        elif e[0] == 'old':
            out += ':' + e[1]
        else:
            reg = e[2][0]
            out += '{%s}' % e[1] if reg is None else '{%s:%s}' % (e[1], reg)
    return out + star


def sample_hole(rng, spec):
    if len(spec) > 4:
        return ''.join(sample_hole(rng, (None,) + part) for part in spec[4])
    _, pool, lo, hi = spec
    n = rng.randint(lo, min(hi, lo + 3) if hi is not None else lo + rng.choice([0, 0, 1, 2, 3]))
    return ''.join(rng.choice(pool) for _ in range(n))


def instantiate(rng, elems, star):
    out = ''
    vals = {}
    for e in elems:
        if e[0] == 'lit':
            out += e[1]
        elif e[0] == 'old':
            v = sample_hole(rng, HOLES[0])
            vals[e[1]] = v
            out += v
        else:
            v = sample_hole(rng, e[2])
            vals[e[1]] = v
            out += v
    if not out.startswith('/'):
        out = '/' + out
    if star.startswith('*') and len(star) > 1:
        segs = []
        for _ in range(rng.choice([0, 1, 1, 2, 2, 3])):
            r = rng.random()
            if r < 0.08:
                segs.append('..')
            elif r < 0.14:
                segs.append('.')
            elif r < 0.2:
                segs.append('')
            else:
                segs.append(''.join(rng.choice(pool_except('/')) for _ in range(rng.choice([1, 1, 2, 3]))))
        out += '/'.join(segs)
        if rng.random() < 0.2:
            out += '/'
    return out, vals


def mutate_struct(rng, elems, star):
    """A related pattern (so that several routes match the same path)."""
    elems = list(elems)
    r = rng.random()
    idx = [i for i, e in enumerate(elems) if e[0] == 'lit' and e[1] != '/']
    hidx = [i for i, e in enumerate(elems) if e[0] == 'hole']
    if r < 0.35 and idx:
        i = rng.choice(idx)
        elems[i] = ('hole', 'm%d' % i, rng.choice(HOLES))
    elif r < 0.6 and hidx:
        i = rng.choice(hidx)
        elems[i] = ('hole', elems[i][1], rng.choice(HOLES))
    elif r < 0.8:
        cut = rng.randint(1, len(elems))
        elems = elems[:cut]
        if elems[-1] != ('lit', '/'):
            elems.append(('lit', '/'))
        star = '*rest'
    return elems, star


NFLAV = 8        # prop.FALSY / prop.TRUTHY: what a custom predicate returns for "does not hold" / "holds"
PKEYS = ['q', 'q', 'a', 'page', '\u00e9', '=k', 'q ']
PVALS = ['', '', '1', 'abc', '0', ' ', 'x y', '\u00e9', 'a=b', 'None', 'False']


def gen_param_val(rng):
    """one value of request_param=: 'k', 'k=v', 'k=' (present AND empty), with blanks around the halves, '=k=v'"""
    k = rng.choice(PKEYS)
    r = rng.random()
    if r < 0.3:
        return k
    v = '' if r < 0.6 else rng.choice(PVALS)
    if rng.random() < 0.15:
        return ' %s = %s ' % (k, v)
    return '%s=%s' % (k, v)


def _want(val):
    """(key, required value | None) as documented for request_param= (only used to aim the generated query strings)"""
    if val.startswith('='):
        if '=' in val[1:]:
            k, v = val[1:].split('=', 1)
            return ('=' + k).strip(), v.strip()
        return val, None
    if '=' in val:
        k, v = val.split('=', 1)
        return k.strip(), v.strip()
    return val, None


def gen_req(rng, decls):
    """query string pairs + X-Requested-With for one request; mostly near what the declared request_param predicates
    ask for (value as required / another value / empty / key missing / key twice)"""
    want = []
    for d in decls:
        for p in d['preds']:
            if p[0] == 'param':
                for val in p[2]:
                    want.append(_want(val))
    q = []
    for k, v in want:
        r = rng.random()
        if r < 0.45:
            q.append([k, v if v is not None else rng.choice(PVALS)])
        elif r < 0.8:
            q.append([k, rng.choice(PVALS)])
    for _ in range(rng.choice([0, 0, 0, 1, 1, 2])):
        q.append([rng.choice(PKEYS).strip() if rng.random() < 0.8 else rng.choice(PKEYS), rng.choice(PVALS)])
    if q and rng.random() < 0.25:
        q.insert(rng.randrange(len(q) + 1), [rng.choice(q)[0], rng.choice(PVALS)])      # a key twice: the LAST value counts
    return {'q': q, 'xhr': 1 if rng.random() < 0.3 else 0, 'hdr': gen_hdrs(rng, decls)}


HNAMES = ['X-Api-Version', 'Authorization', 'x-api-version', 'X_Api_Version', 'Accept-Language', 'X-A', 'If-Match']
HVALS = ['2', '1', '22', 'beta', 'Bearer-t', '', 'a2', 'abc', 'a-c', 'x-1']
HREGEX = ['2', '\\d+', 'Bearer-.+', '[a-z]+', 'a.c', '\\w+-\\d', '\\d', '.*', 'x?y', 'b', '[^a]+']
HREGEX_UNSUP = ['2$', '(a|b)', '\\s*', 'a b']


def gen_header_val(rng):
    """one value of header=: 'Name' (present) or 'Name:regex' (present and the regex matches a prefix of the value)"""
    n = rng.choice(HNAMES)
    r = rng.random()
    if r < 0.45:
        return n
    return '%s:%s' % (n, rng.choice(HREGEX_UNSUP) if r > 0.97 else rng.choice(HREGEX))


def gen_hdrs(rng, decls):
    want = [v.partition(':')[0] for d in decls for p in d['preds'] if p[0] == 'header' for v in p[2]]
    out, keys = [], set()
    for n in want + [rng.choice(HNAMES) for _ in range(rng.choice([0, 0, 1, 2]))]:
        if n in want and rng.random() < 0.3:
            continue            # a required header is missing
        if rng.random() < 0.25:
            n = rng.choice([n.upper(), n.lower(), n.replace('-', '_')])     # header names are case-insensitive
        k = n.upper().replace('-', '_')
        if k not in keys:
            keys.add(k)
            out.append([n, rng.choice(HVALS)])
    return out


def gen_traverse(rng, elems, star):
    names = [e[1] for e in elems if e[0] in ('hole', 'old') and e[1].isidentifier() and e[1].isascii()]
    parts = []
    names = sorted(set(names))
    rng.shuffle(names)
    for _ in range(rng.choice([0, 1, 1, 2])):
        parts.append('{%s}' % names.pop() if names and rng.random() < 0.75 else rng.choice(['a', 'docs', 'x.y']))
    tp = '/' + '/'.join(parts)
    if star.startswith('*') and star[1:].isidentifier() and star[1:].isascii() and rng.random() < 0.4:
        tp = tp.rstrip('/') + '/' + star
    return tp


def gen_preds(rng, elems, star=''):
    preds = []
    hnames = [e for e in elems if e[0] in ('hole', 'old')]
    for _ in range(rng.choice([0, 0, 0, 0, 1, 1, 2, 3])):
        r = rng.random()
        if r < 0.28:
            preds.append(['const', 1 if rng.random() < 0.55 else 0])
        elif r < 0.5 or (r >= 0.78 and not hnames):
            preds.append(['method', rng.choice(['GET', 'POST'])])
        elif r < 0.63:
            preds.append(['param', 1 if rng.random() < 0.2 else 0, [gen_param_val(rng) for _ in range(rng.choice([1, 1, 1, 2]))]])
            continue
        elif r < 0.68:
            preds.append(['rmethod', 1 if rng.random() < 0.2 else 0,
                          rng.choice([['GET'], ['POST'], ['HEAD'], ['GET', 'POST'], ['POST', 'PUT'], ['GET', 'HEAD'], ['PUT']])])
            continue
        elif r < 0.73:
            preds.append(['xhr', 1 if rng.random() < 0.2 else 0, 1 if rng.random() < 0.6 else 0])
            continue
        elif r < 0.78 or (hnames and r > 0.95):
            vals = []
            for _ in range(rng.choice([1, 1, 2, 2, 3])):
                v = gen_header_val(rng)
                if v.partition(':')[0].upper().replace('-', '_') not in [x.partition(':')[0].upper().replace('-', '_') for x in vals]:
                    vals.append(v)
            preds.append(['header', 1 if rng.random() < 0.2 else 0, vals])
            continue
        else:
            e = rng.choice(hnames)
            preds.append(['eq', e[1], sample_hole(rng, e[2] if e[0] == 'hole' else HOLES[0])])
        if rng.random() < 0.5:
            preds[-1].append(rng.randrange(NFLAV))      # the custom predicate answers with a non-bool truthy / falsy value
    if rng.random() < 0.08 and not any('>' in e[1] or not e[1].isascii() for e in hnames):
        preds.append(['traverse', gen_traverse(rng, elems, star)])
    return preds


def edit(rng, s):
    r = rng.random()
    if not s:
        return '/'
    i = rng.randrange(len(s))
    if r < 0.14:
        return s[:i] + s[i + 1:]
    if r < 0.28:
        return s[:i] + rng.choice(PATH_ALPHA) + s[i:]
    if r < 0.40:
        return s[:i] + rng.choice(PATH_ALPHA) + s[i + 1:]
    if r < 0.50:
        return s[:i] + s[i].swapcase() + s[i + 1:]
    if r < 0.60:
        return s[:i] + '/' + s[i:] if rng.random() < 0.6 else s + '/'
    if r < 0.68:
        j = s.rfind('/', 0, i + 1)
        return s[:j] + s[j + 1:] if j >= 0 else s
    if r < 0.84:
        return s + rng.choice(['\n', '\n', '\n', '\r', '\0', '\n\n', 'x\n', '\nx'])
    if r < 0.92:
        return s[:i] + ''.join('%%%02X' % b for b in s[i].encode('utf-8')) + s[i + 1:]
    return s[:i] + '\n' + s[i:]


def corrupt(rng, b):
    i = rng.randrange(len(b) + 1)
    bad = rng.choice([b'\xff', b'\xc0\xaf', b'\xed\xa0\x80', b'\xe2\x82', b'\x80', b'\xf4\x90\x80\x80', b'\xc3'])
    return b[:i] + bad + b[i:]


def gen_case(rng):
    n = rng.choice([1, 2, 2, 3, 3, 4, 5, 6])
    decls = []
    structs = []
    meta = {}
    rnames = ['r0', 'r1', 'r2', 'r3', 'r4', 'r5']
    for i in range(n):
        if structs and rng.random() < 0.3:
            base = rng.choice(structs)
            elems, star = mutate_struct(rng, base[0], base[1])
            m = {}
        else:
            elems, star, m = gen_struct(rng)
        meta.update(m)
        structs.append((elems, star))
        name = rng.choice(rnames[:i]) if i and rng.random() < 0.12 else rnames[i]
        decls.append({'name': name, 'pattern': render(elems, star), 'static': 1 if rng.random() < 0.08 else 0,
                      'preds': gen_preds(rng, elems, star)})
        if decls[-1]['preds'] and decls[-1]['preds'][-1][0] == 'traverse' and rng.random() < 0.12:
            # a placeholder that is itself called 'traverse' on a route declared with traverse=
            pt = decls[-1]['pattern']
            for nm in ('n0', 'n1', 'n2', 'n3', 'n4', 'n5', 'rest', 'tail'):
                if nm in pt and '{%s}' % nm not in decls[-1]['preds'][-1][1] and '*%s' % nm not in decls[-1]['preds'][-1][1]:
                    decls[-1]['pattern'] = pt.replace(nm, 'traverse')
                    break
    r = rng.random()
    if r < 0.82:
        statics = [st for st, d in zip(structs, decls) if d['static']]
        elems, star = rng.choice(statics) if statics and rng.random() < 0.4 else rng.choice(structs)
        s, _ = instantiate(rng, elems, star)
        ne = rng.choice([0, 0, 0, 0, 0, 1, 1, 1, 1, 2])
        for _ in range(ne):
            s = edit(rng, s)
        meta.update(kind='inst', edits=ne)
    elif r < 0.95:
        s = '/' + ''.join(rng.choice(PATH_ALPHA) for _ in range(rng.choice([0, 1, 2, 3, 5, 8, 12])))
        meta.update(kind='random')
    else:
        s = rng.choice(['', None, '/', '//', '/\n'])
        meta.update(kind='special')
    if s is not None:
        b = s.encode('utf-8')
        if rng.random() < 0.05:
            b = corrupt(rng, b)
            meta['corrupt'] = 1
        s = b.decode('latin-1')
    case = {'decls': decls, 'path': s, 'method': rng.choice(['GET'] * 6 + ['POST'] * 3 + ['HEAD'] * 2 + ['PUT']),
            'mode': 'router' if rng.random() < 0.10 else 'mapper', 'meta': meta}
    if any(p[0] in ('param', 'xhr', 'header') for d in decls for p in d['preds']) or rng.random() < 0.1:
        case['req'] = gen_req(rng, decls)
    if not router_ok(case):
        case['mode'] = 'mapper'
    if case['mode'] == 'router' and len(set(d['name'] for d in decls)) == len(decls) and rng.random() < 0.6:
        add_prefixes(rng, case)
        if rng.random() < 0.45:
            add_override(rng, case, structs)
    if case['mode'] == 'router' and rng.random() < 0.25:
        add_legacy_path(rng, case, structs)
    if s is not None and rng.random() < 0.2:
        case['history'] = gen_history(rng, case, structs)
    for d in decls:      # the prefix / rename steps above may have removed a name a traverse= pattern uses
        d['preds'] = [p for p in d['preds'] if p[0] != 'traverse' or traverse_ok(d['pattern'], p[1])]
    return case


def gen_ops(rng):
    return [[rng.choice(['set', 'set', 'add', 'del', 'conv']), rng.randrange(4)] for _ in range(rng.choice([0, 1, 1, 1, 2, 3]))]


def gen_history(rng, case, structs):
    """Earlier dispatches over the same mapper/app; mostly the SAME path as the final dispatch, after which the match
    dictionary that was handed out is edited in place."""
    hist = []
    names = [d['name'] for d in case['decls']]
    for _ in range(rng.choice([1, 1, 2, 3])):
        if rng.random() < 0.35:
            r = rng.random()
            hist.append({'list': ['routes', 1 if rng.random() < 0.7 else 0] if r < 0.6 else ['has'] if r < 0.7
                         else ['get', rng.choice(names + ['nope'])]})
            continue
        if rng.random() < 0.7:
            path = case['path']
        else:
            elems, star = rng.choice(structs)
            path = instantiate(rng, elems, star)[0].encode('utf-8').decode('latin-1')
        hist.append({'path': path, 'method': case['method'] if rng.random() < 0.8 else rng.choice(['GET', 'POST']),
                     'mutate': gen_ops(rng)})
        if 'req' in case and rng.random() < 0.4:
            hist[-1]['req'] = gen_req(rng, case['decls'])     # the same long-lived mapper sees requests with other parameters
    return hist


PREFIXES = ['/api', 'api', '/api/', 'v2', '/a/b/', '/', '', '//x//', '/{lang}', '/\u00e9', 'api/v1', '/.']


def add_prefixes(rng, case):
    """Some declarations are made inside (nested) config.include(.., route_prefix=..); their patterns then more often end
    in '/', and the path is re-instantiated under the prefix so that matches and near-misses (with / without the
    trailing slash) stay frequent."""
    chosen = None
    for d in case['decls']:
        if rng.random() < 0.6:
            d['levels'] = [rng.choice(PREFIXES) for _ in range(rng.choice([1, 1, 1, 2, 3]))]
            r = rng.random()
            if r < 0.35 and not d['pattern'].endswith('/') and '*' not in d['pattern']:
                d['pattern'] += '/'
            elif r < 0.42:
                d['pattern'] = ''
                d['inherit'] = 1 if rng.random() < 0.6 else 0
            elif r < 0.5:
                d['pattern'] = d['pattern'].lstrip('/')
            chosen = chosen or d
    if chosen is not None and case['path'] is not None and rng.random() < 0.7:
        pre = ''
        for lv in chosen['levels']:
            pre = (pre.rstrip('/') + '/' + lv.lstrip('/')).strip('/')
        try:
            old = case['path'].encode('latin-1').decode('utf-8')
        except UnicodeError:
            return
        new = ('/' + pre if pre else '') + '/' + old.lstrip('/')
        r = rng.random()
        if r < 0.25 and new.endswith('/'):
            new = new[:-1]
        elif r < 0.4 and not new.endswith('/'):
            new += '/'
        case['path'] = new.encode('utf-8').decode('latin-1')
        for h in case.get('history') or []:
            if 'list' not in h:
                h['path'] = case['path']


def add_override(rng, case, structs):
    """The including configurator re-declares a route name that an include declared (the documented way to override an
    add-on's route): the top-level declaration wins, at ITS place in declaration order; usually placed after other routes."""
    decls = case['decls']
    nested = [i for i, d in enumerate(decls) if d.get('levels')]
    if not nested or len(decls) >= 7:
        return
    i = rng.choice(nested)
    d = decls[i]
    r = rng.random()
    new = {'name': d['name'], 'static': 0, 'preds': [p for p in d['preds'] if p[0] != 'traverse'] if r < 0.5 else []}
    # mostly the pattern a request for the nested route would hit as well (so the ORDER of the survivors decides)
    pre = ''
    for lv in d['levels']:
        pre = (pre.rstrip('/') + '/' + lv.lstrip('/')).strip('/')
    new['pattern'] = (('/' + pre if pre else '') + '/' + d['pattern'].lstrip('/')) if rng.random() < 0.7 else render(*rng.choice(structs))
    if not traverse_ok(new['pattern'], '/'):
        pass
    pos = rng.choice([len(decls)] * 3 + [rng.randrange(len(decls) + 1)])
    decls.insert(pos, new)
    if rng.random() < 0.15:
        # a second include declares the name too (still resolved: the top-level one is a prefix of both)
        decls.insert(rng.randrange(len(decls) + 1), dict(d, levels=[rng.choice(PREFIXES)]))
    if rng.random() < 0.08:
        decls.append(dict(new))        # two top-level declarations of one name: a conflict, nothing is dispatched


def add_legacy_path(rng, case, structs):
    """add_route(name, pattern, path=..): the pre-1.0 spelling; `pattern` wins when both are given"""
    for d in case['decls']:
        if rng.random() < 0.4 and not d.get('inherit'):
            r = rng.random()
            if r < 0.35:
                d['path'] = d['pattern']
                d['nopat'] = 1                      # only path=
            elif r < 0.9:
                d['path'] = render(*rng.choice(structs))    # both, different texts (another route's pattern: it steals requests)
            else:
                d['path'] = d['pattern']            # both, same text


def router_ok(case):
    """Configurator.add_route treats a pattern with a host part as an external (static) URL, and the Router needs a
    PATH_INFO key: such cases are driven through RoutesMapper directly."""
    from urllib.parse import urlparse
    if case['path'] is None:
        return False
    for d in case['decls']:
        if d.get('path') is not None:
            try:
                if urlparse(d['path']).hostname:
                    return False
            except ValueError:
                return False
        # add_route takes ONE request_param= / xhr= / traverse= argument
        for kind in ('param', 'xhr', 'traverse', 'header', 'rmethod'):
            if sum(1 for p in d['preds'] if p[0] == kind) > 1:
                return False
        # add_route(request_method=not_(..)) is refused at commit time (add_route wraps the not_ object with
        # as_sorted_tuple before the predicate list sees it: TypeError in RequestMethodPredicate.text) -- nothing is dispatched
        if any(p[0] == 'rmethod' and p[1] for p in d['preds']):
            return False
        try:
            if urlparse(d['pattern']).hostname:
                return False
        except ValueError:
            return False
    return True


def generate(rng, tier, n):
    for _ in range(n):
        yield gen_case(rng)


def _case(patterns, path, preds=None, mode='mapper'):
    decls = [{'name': 'r%d' % i, 'pattern': p, 'static': 0, 'preds': (preds or {}).get(i, [])}
             for i, p in enumerate(patterns)]
    return {'decls': decls, 'path': path.encode('utf-8').decode('latin-1'), 'method': 'GET', 'mode': mode,
            'meta': {'kind': 'targeted'}}


def targeted(rng):
    """Violation search after a broken tie: anchor / remainder / default-hole / escaping / ordering probes."""
    tails = ['', '\n', '\r', '\0', '\n\n', '\nb', 'x\n', '/', '/\n', '\n/']
    pats = ['/foo', '/f/*rest', '/*all', '/{a}', '/f/{a}', '/{a}/{b}', '/f/{a:.*}', '/f/{a:\\d+}', '/a.b', '/a+b', '/f/{a}.{b}',
            '/f/{a}{b}', '/:a/:b', '/f/{a:[^/]*}/*rest']
    bodies = ['/foo', '/f/a', '/f/a/b', '/f/', '/f', '/x', '/axb', '/a.b', '/aab', '/a+b', '/f/a.b.c', '/f/ab', '/f/12', '/x/y',
              '/f//a']
    for p in pats:
        for b in bodies:
            for t in tails:
                yield _case([p], b + t)
                yield _case([p, '/*all'], b + t)
    # ordering / predicates
    for b in bodies:
        yield _case(['/{a}', '/foo', '/*all'], b, {0: [['const', 0]]})
        yield _case(['/{a}', '/{b}', '/*all'], b, {0: [['method', 'POST']], 1: [['const', 1], ['const', 0]]})
        yield _case(['/f/{a}', '/f/*rest', '/{x}/{y}'], b, {0: [['eq', 'a', 'a']]})
        yield _case(['/f/{a}', '/f/*rest', '/{x}/{y}'], b, {0: [['eq', 'a', 'zz']]}, mode='router')
    # histories: same path dispatched again after the handed-out dictionary was edited
    for p, b in [('/f/{a}', '/f/x'), ('/{y}/{m:\\d{2}}', '/2024/09'), ('/f/*rest', '/f/a/b'), ('/{a}{b}', '/xyz')]:
        for ops in ([['set', 0]], [['add', 0]], [['del', 0]], [['conv', 0]], [['set', 1], ['del', 0]]):
            for mode in ('mapper', 'router'):
                c = _case([p], b, mode=mode)
                c['history'] = [{'path': c['path'], 'method': 'GET', 'mutate': ops}]
                yield c
    # request predicates: required value / empty required value / bare key / negated, against present, empty, other, missing
    for mode in ('mapper', 'router'):
        for val in ('q=', 'q', 'q=abc', ' q = ', '=k=1', 'q=0'):
            for neg in (0, 1):
                for q in ([], [['q', '']], [['q', 'abc']], [['q', ' ']], [['q', '0']], [['q', 'abc'], ['q', '']], [['=k', '1']],
                          [['a', '']]):
                    c = _case(['/s/{kind}', '/s/{kind}'], '/s/books', {0: [['param', neg, [val]]]}, mode=mode)
                    c['req'] = {'q': q, 'xhr': 0}
                    yield c
        for b in (0, 1):
            for x in (0, 1):
                c = _case(['/s/{kind}', '/*all'], '/s/books', {0: [['xhr', 0, b]]}, mode=mode)
                c['req'] = {'q': [], 'xhr': x}
                yield c
        # request_method=: GET implies HEAD, nothing else is implied
        for vals in (['GET'], ['POST'], ['GET', 'POST'], ['HEAD'], ['PUT', 'POST']):
            for neg in (0, 1):
                for meth in ('GET', 'HEAD', 'POST', 'PUT'):
                    if neg and mode == 'router':
                        continue
                    c = _case(['/i/{id}', '/i/{id}'], '/i/42', {0: [['rmethod', neg, vals]]}, mode=mode)
                    c['method'] = meth
                    yield c
        # header= given a sequence: every requirement must hold, whatever order as_sorted_tuple puts them in
        for vals in (['X-Api-Version:2', 'Authorization'], ['Authorization', 'X-Api-Version'], ['X-A:\\d+', 'If-Match:a.c'],
                     ['Authorization'], ['X-Api-Version:\\d']):
            for neg in (0, 1):
                for hdr in ([], [['Authorization', 'Bearer-t']], [['X-Api-Version', '2']], [['authorization', 'x'], ['X-API-VERSION', '22']],
                            [['Authorization', 'Bearer-t'], ['X_Api_Version', 'beta']], [['X-A', '7'], ['If-Match', 'abc']],
                            [['X-A', 'x7'], ['If-Match', 'abc']]):
                    c = _case(['/i/{id}', '/i/{id}'], '/i/42', {0: [['header', neg, vals]]}, mode=mode)
                    c['req'] = {'q': [], 'xhr': 0, 'hdr': hdr}
                    yield c
        # placeholders whose NAME means something to the traverser: the view must still see the captured text
        for pat, path in [('/dl/{subpath:.+}', '/dl/a//b/../c'), ('/w/{page}/att/{subpath}', '/w/Home/att/logo.png'),
                          ('/s/*subpath', '/s/css/./app.css'), ('/t/{traverse:.+}', '/t/a/../b'), ('/t/*traverse', '/t/a//b'),
                          ('/o/:subpath', '/o/x.y')]:
            yield _case([pat, '/*all'], path, mode=mode)
        # custom predicates answering with falsy / truthy values that are not bools
        for f in range(NFLAV):
            for b in (0, 1):
                yield _case(['/a/{x}', '/a/{x}'], '/a/1', {0: [['const', b, f]]}, mode=mode)
                yield _case(['/a/{x}', '/a/{x}'], '/a/1', {0: [['const', 1, f], ['eq', 'x', '1' if b else '2', f]]}, mode=mode)
        # traverse= (hybrid routes): the match dictionary keeps the captured text
        for pat, tp, path in [('/d/{s}/{p}', '/{s}', '/d/user guide/a%b'), ('/d/{s}/{p}', '/{s}', '/d/caf\u00e9/x'),
                              ('/f/{o}/*rest', '/{o}', '/f/bob/a/b'), ('/f/{o}/*rest', '/x/*rest', '/f/bob/a b/c'),
                              ('/f/{o}/*rest', '/{o}', '/f/bob/'), ('/d/{s}', '/a/b', '/d/x y'), ('/d/{s}', '/', '/d/1')]:
            yield _case([pat, '/*all'], path, {0: [['traverse', tp]]}, mode=mode)
            yield _case([pat, '/*all'], path, {0: [['const', 1], ['traverse', tp]]}, mode=mode)
    # an include declares a route, the including configurator declares an overlapping one and then overrides the include's
    for lv in (['/'], ['/shop']):
        for between in (['/item/new'], ['/item/new', '/item/{x}/y'], []):
            for path in ('/item/new', '/item/7', '/shop/item/new', '/shop/item/7'):
                pre = '' if lv == ['/'] else '/shop'
                c = _case(['/item/{id}'] + between + [pre + '/item/{id}'], path, mode='router')
                c['decls'][0]['levels'] = list(lv)
                c['decls'][-1]['name'] = 'r0'
                yield c
                c2 = _case([pre + '/item/{id}'] + between + ['/item/{id}'], path, mode='router')     # override declared FIRST
                c2['decls'][-1]['levels'] = list(lv)
                c2['decls'][-1]['name'] = 'r0'
                yield c2
    # legacy path=: pattern wins when both are given; path alone is the pattern
    for pat, legacy, nopat in [('/new/{a}', '/old/{a}', 0), ('/new/{a}', '/new/{a:\\d+}', 0), ('/old/{a}', '/old/{a}', 1),
                               ('/new/{a}', '/new/{a}', 0)]:
        for path in ('/new/x', '/old/x', '/new/7'):
            c = _case([pat, '/{x}/{y}'], path, mode='router')
            c['decls'][0]['path'] = legacy
            if nopat:
                c['decls'][0]['nopat'] = 1
            yield c
    # listings on the long-lived mapper before a dispatch (static routes must stay unmatchable)
    for mode in ('mapper', 'router'):
        for ops in ([['routes', 1]], [['routes', 1], ['routes', 1]], [['routes', 0], ['has'], ['get', 'r0']]):
            c = _case(['/x', '/gen/{a}', '/*all'], '/gen/1', mode=mode)
            c['decls'][1]['static'] = 1
            c['history'] = [{'list': op} for op in ops] + [{'path': c['path'], 'method': 'GET', 'mutate': []}]
            yield c
            c2 = _case(['/s/{a}'], '/s/1', mode=mode)
            c2['decls'][0]['static'] = 1
            c2['history'] = [{'list': op} for op in ops]
            yield c2
    # route prefixes (Configurator.include): trailing slash of the declared pattern, nested prefixes, inherit_slash
    for levels in (['/api'], ['api/'], ['/api', 'v2'], ['/']):
        for pats in (['/items/', '/items'], ['/items', '/items/'], ['/{name}/', '/{name}'], ['items/', '/*rest'], ['', '/x']):
            for tail in ('/items', '/items/', '', '/', '/x'):
                pre = ''
                for lv in levels:
                    pre = (pre.rstrip('/') + '/' + lv.lstrip('/')).strip('/')
                c = _case(pats, ('/' + pre if pre else '') + tail, mode='router')
                for d in c['decls']:
                    d['levels'] = list(levels)
                c['decls'][0]['inherit'] = 1 if c['decls'][0]['pattern'] == '' else 0
                yield c
    # small-scope enumeration over {a, /, ., newline}
    alpha = ['a', '/', '.', '\n']
    small = ['/a', '/{x}', '/a/*r', '/{x}.{y}', '/a{x:.*}', '/.a', '/{x:[^/]*}a']
    for L in range(0, 5):
        for tup in itertools.product(alpha, repeat=L):
            s = '/' + ''.join(tup)
            for p in small:
                yield _case([p], s)


# ------------------------------------------------------------ exhaustive small-scope sub-run (thorough tier)
EXH_ITEMS = ['a', '/', '.', '\n', None]            # None = a bare placeholder {nK}
EXH_ALPHA = ['a', '/', '.', '\n']
EXH_SPACE = ('A: every single route whose pattern has <= 3 items over {a, /, ., newline, {name}} with and without a '
             'trailing *r (312 patterns) x every PATH_INFO "/"+s, s over {a, /, ., newline}, |s| <= 5 (1365 paths); '
             'B: every ordered pair of such patterns with <= 2 items (62 x 62) x every path with |s| <= 3 (85 paths)')


def _exh_patterns(maxitems):
    out = []
    for L in range(0, maxitems + 1):
        for tup in itertools.product(EXH_ITEMS, repeat=L):
            body = ''.join(('{n%d}' % i) if it is None else it for i, it in enumerate(tup))
            out.append(body)
            out.append(body + '*r')
    return out


def _exh_paths(maxlen):
    out = []
    for L in range(0, maxlen + 1):
        for tup in itertools.product(EXH_ALPHA, repeat=L):
            out.append('/' + ''.join(tup))
    return out


def exhaustive_count():
    return len(_exh_patterns(3)) * len(_exh_paths(5)) + len(_exh_patterns(2)) ** 2 * len(_exh_paths(3))


def exhaustive_cases():
    def mk(pats, path):
        return {'decls': [{'name': 'r%d' % i, 'pattern': p, 'static': 0, 'preds': []} for i, p in enumerate(pats)],
                'path': path, 'method': 'GET', 'mode': 'mapper', 'meta': {'kind': 'exh'}}
    paths5 = _exh_paths(5)
    for p in _exh_patterns(3):
        for s in paths5:
            yield mk([p], s)
    paths3 = _exh_paths(3)
    p2 = _exh_patterns(2)
    for p in p2:
        for q in p2:
            for s in paths3:
                yield mk([p, q], s)


def generate(rng, tier, n):  # noqa: F811  (replaces the definition above)
    if tier == 'thorough':
        for c in exhaustive_cases():
            yield c
    for _ in range(n):
        yield gen_case(rng)
