"""C08 -- application behaviour is independent of configuration statement order / nesting."""
import os
from . import tables as T
from . import gen as G
from . import c08facts
from . import order as O
from .order import view_order

ID = 'C08'
HERE = os.path.dirname(os.path.abspath(__file__))
CASES = {'quick': 2000, 'thorough': 20000}
PARALLEL = True
PROOF_TIMEOUT = 1500
ALLOWED_AXIOMS = ()
DEPENDS = ['C04']      # coq/Model/C08.v imports Verif.Model.C04: the engine regenerates Gen/Facts_C04.v first
RULE = ('random conflict-free programs over routes, views (predicates, derivers, renderers, permissions, csrf), renderers, '
        'security policy, default permission, CSRF options, root/session/request factories, request methods, '
        'notfound/forbidden/exception views (incl. append_slash, views on IExceptionResponse, wrapper= views), static views, '
        'subscribers, tweens, accept orders (incl. re-declared default members), optionally under a root route_prefix given '
        'with or without slashes; each executed through real Configurators '
        'in 5 (thorough 8) variants = permutations keeping only route/route, subscriber/subscriber, tween/tween order, '
        'distributed over random include trees (some callables included twice, some variants with one intermediate commit '
        'after a closed prefix); every variant probed with the same requests. Non-trivial = the program '
        'has >= 2 phases, >= 1 forward reference (a reader declared before its writer in some variant) and the variants '
        'really differ in order and nesting; distinct by full case')
ASSUMPTIONS = ['action callables have no effects outside the registry keys of the declared read/write table '
               '(checked by the monitored run for every executed action, not proved)',
               'equal stores in the free interpretation stand for equal applications (validated by the probes)',
               'conflict-free = pairwise different discriminators (no overriding through nesting in the generated programs)']
TRUSTED = ['translator harness/c08/translate.py: its PRIMITIVE TABLE (how an action call, a directive call, the argument atoms of '
           'add_request_method / add_static_view, maybe_dotted, make_property, begin/end/undefer/register/append map onto the '
           'model primitives) and the INERT / GUARD rules (statements without action calls that assign no emission-relevant name '
           'are skipped; validation raises are summarised by `valid`); control flow is translated mechanically',
           'store model coq/Model/C08.v (statement = phase, reads, writes, mode); declared read/write table '
           'harness/c08/tables.py (checked by Coq against the regenerated phases and by the registry monitor at run time)',
           'C04 model of execute_actions/resolveConflicts (coq/Model/C04.v) for the executed order (C08_commit_runs_schedule)',
           'shape pins (hand-followed, not translated): the statement-level residue of every translated directive '
           '(pins_residue.json), their nested callables (pins_closures.json), and outside the anchor files '
           'util.TopologicalSorter, config/tweens.Tweens, registry.Deferred/undefer/Introspectable, RoutesMapper.connect, Router.__init__',
           'zope.interface registry, WebOb']
TECHNIQUE = ('Coq proof of the scheduling theorem over a store model with phase discipline; the directive emission functions (39 '
             'directive methods) and the registration path (Configurator.action, ActionState.action, commit) are REGENERATED from '
             'the Python source by a fail-closed ast->Gallina translator on every run and proved equal to the hand-written '
             'reference model (a directive may call only the action call, translated directives and a fixed list of helper '
             'methods of the configurator, and may not store to it: fail-closed); regenerated phase table checked by vm_compute; '
             'monitored registry; metamorphic differential run')
LEVEL_TEXT = ('Machine-checked: for programs of any size, a permutation that keeps the order inside each ordered container, under '
              'write discipline H1 and phase discipline H2, yields pointwise equal final stores, also over the real C04 commit model '
              'and any include trees (commit_model_permutation_invariant); forward references are fine (forward_reference_ok); the '
              'regenerated emission functions equal the reference model (generated_directives_are_model), agree with the regenerated '
              'site/phase table (generated_calls_are_the_table), and every program made of calls of the regenerated directives satisfies '
              'H2 (generated_programs_H2); the regenerated registration path equals its reference (generated_registration_path_is_model); '
              'the scheduling theorem also holds for arbitrary execution orders (trace_permutation_invariant) and for programs with an '
              'intermediate commit after a closed prefix, at store level and over the C04 commit model applied per segment '
              '(closed_prefix_commit_equiv, table_programs_segmented, commit_segs_runs_schedules, commit_model_segmented_invariant); '
              'closedness is necessary (open_cut_differs); the same for ANY number of intermediate commits with closed cuts '
              '(closed_segs_commit_equiv, closed_segs_two_cuttings_agree, table_programs_closed_segs, commit_segs_runs_all, '
              'commit_model_closed_segs_invariant), also with executable hypotheses only (checked_segs_commit_equiv: h1b, h2b, '
              'closed_segsb, seq_same_phaseb).')
LEVEL_NOTE = ('PARTIAL by design: equality of whole applications is validated (metamorphic run), not proved. H2 rests on the declared '
              'read table (what the action CALLABLES read/write: monitored at run time, not translated; their text is pinned, names '
              'blanked, in closure_pins.json). Members of TopologicalSorter containers placed by explicit constraints are modelled as '
              'commuting (sorted-insertion) writes; unconstrained ones as appends. Translated mechanically: which '
              'actions each directive declares, and the queuing/autocommit path of Configurator.action. Not translated (shape-pinned): '
              'execute_actions/resolveConflicts (C04 model), Configurator.include, setup_registry, MultiView.add, PredicateList.add/make, '
              'view derivers, TopologicalSorter, Tweens. Intermediate commits: proved for any number of closed cuts; the generated variants have at most '
              'one cut (the model re-checks its closedness per variant). add_notfound_view(append_slash=True) derives its '
              'wrapped view at the statement from what is committed so far: order independent inside one commit only (such programs '
              'get no intermediate commit).')

_state = {'sites': None, 'preds': None}


def facts(src):
    r = c08facts.facts(src)
    _state['sites'] = [s[0] for s in r['sites']]
    _state['phase'] = {s[0]: s[1] for s in r['sites']}
    _state['preds'] = r['preds']
    O.STATE['preds'] = list(r['preds'])
    O.STATE['weights'] = list(r['weights'])
    return {'coq': r['coq'], 'summary': r['summary'], 'problems': r['problems']}


def _sites():
    if _state['sites'] is None:
        _state['sites'] = [s[0] for s in T.DEFAULT_SITES]
        _state['phase'] = {s[0]: s[1] for s in T.DEFAULT_SITES}
        _state['preds'] = ['xhr', 'request_method', 'path_info', 'request_param', 'header', 'accept', 'containment',
                           'request_type', 'match_param', 'physical_path', 'is_authenticated', 'effective_principals',
                           'custom']
    return _state['sites']


# ------------------------------------------------------------ static expansion of statements into actions
def expand(st, customs, ranks=None):
    """-> list of actions {site, disc, reads, dreads, writes, acc} in creation order.
    ranks: {statement id: position} of the members of constrained containers (G.ranks_of)"""
    k = st['k']
    ranks = ranks or {}
    ranked = st['id'] in ranks

    def A(site, disc, reads=(), dreads=(), writes=(), acc=0):
        return {'site': site, 'disc': disc, 'reads': list(reads), 'dreads': list(dreads), 'writes': list(writes), 'acc': acc}

    def route(name):
        return [A('add_route#0', ('route-connect', name), reads=[('preds', 'route')], writes=[('routes', '')]),
                A('add_route#1', ('route', name), writes=[('riface', name)])]

    def view(vst):
        from .world import triad
        reads = [('defperm', ''), ('policy', ''), ('csrfopts', ''), ('mapper', ''), ('derivers', ''), ('deriversc', ''),
                 ('accept', ''), ('acceptc', ''), ('renderer', '')]
        rt = vst.get('route') if vst['k'] == 'view' else '__%s/' % vst['name']
        if rt:
            reads.append(('riface', rt))
        from .world import slotkey
        disc = ('view', triad(vst), vst.get('method'), vst.get('param'), vst.get('vp'), vst.get('vq'),
                vst.get('xhr'), vst.get('header'), vst.get('accept'))
        return [A('add_view#0', disc, reads=reads,
                  dreads=[('preds', 'view'), ('predsc', 'view'), ('derivers', ''), ('deriversc', '')],
                  writes=[('view', slotkey(vst))], acc=view_order(vst, customs))]

    if k == 'raw':
        from .world import RAW_SITES
        out = []
        none_disc = ('add_permission#0', 'set_authorization_policy#1', 'add_translation_dirs#0')
        for site in RAW_SITES[st['call']]:
            row = T.DECLARED[site]
            out.append(A(site, None if site in none_disc else ('raw', site), reads=[(f, '') for f in row['reads']],
                         writes=[(f, '') for f, m in row['writes'] if m == row['writes'][0][1]]))
        return out
    if k == 'route':
        return route(st['name'])
    if k == 'view':
        return view(st)
    if k == 'static':
        return route('__%s/' % st['name']) + view(st) + [A('add#0', None, writes=[('static', '')])]
    if k == 'renderer':
        return [A('add_renderer#0', ('renderer', st['name']), writes=[('renderer', st['name'] or '')])]
    if k == 'mapper':
        return [A('set_view_mapper#0', ('mapper',), writes=[('mapper', '')])]
    if k == 'policy':
        return [A('set_security_policy#0', ('policy',), writes=[('policy', '')])]
    if k == 'defperm':
        return [A('set_default_permission#0', ('defperm',), writes=[('defperm', '')])]
    if k == 'csrf':
        return [A('set_default_csrf_options#0', ('csrfopts',), writes=[('csrfopts', '')])]
    if k == 'rootf':
        return [A('set_root_factory#0', ('rootf',), writes=[('rootf', '')])]
    if k == 'sessf':
        return [A('set_session_factory#0', ('sessf',), writes=[('sessf', '')])]
    if k == 'reqf':
        return [A('set_request_factory#0', ('reqf',), writes=[('reqf', '')])]
    if k == 'csrfstore':
        return [A('set_csrf_storage_policy#0', ('csrfstore',), writes=[('csrfstore', '')])]
    if k == 'respf':
        return [A('set_response_factory#0', ('respf',), writes=[('respf', '')])]
    if k == 'reqm':
        site = 'add_request_method#1' if st.get('mode') in ('property', 'reify') else 'add_request_method#2'
        return [A(site, ('reqext', st['name']), writes=[('reqext', st['name'])])]
    if k == 'vpred':
        return [A('_add_predicate#0', ('view option', st['name']),
                  writes=[('predsc' if ranked else 'preds', 'view')], acc=ranks.get(st['id'], 0))]
    if k == 'acceptorder':
        return [A('add_accept_view_order#0', ('accept view order', st['value']),
                  writes=[('acceptc' if ranked else 'accept', '')], acc=ranks.get(st['id'], 0))]
    if k == 'rpred':
        return [A('_add_predicate#0', ('route option', st['name']), writes=[('preds', 'route')])]
    if k == 'deriver':
        return [A('add_view_deriver#0', ('view deriver', st['name']),
                  writes=[('deriversc' if ranked else 'derivers', '')], acc=ranks.get(st['id'], 0))]
    if k == 'sub':
        return [A('add_subscriber#0', None, reads=[('preds', 'subscriber'), ('predsc', 'subscriber')], writes=[('subs', '')])]
    if k == 'tween':
        return [A('_add_tween#0', ('tween', st['name']),
                  writes=[('tweensc' if ranked else 'tweens', '')], acc=ranks.get(st['id'], 0))]
    raise ValueError(k)


# directive codes = positions in Model/C08.v generated_directives
DIRECTIVES = ['add_subscriber', 'add_subscriber_predicate', 'add_response_adapter', 'add_traverser',
              'add_resource_url_adapter', 'override_asset', 'set_root_factory', 'set_session_factory', 'set_request_factory',
              'set_response_factory', 'add_request_method', 'set_execution_policy', 'set_locale_negotiator',
              'add_translation_dirs', '_add_predicate', 'add_renderer', 'add_route', 'add_route_predicate',
              'set_security_policy', 'set_authentication_policy', 'set_authorization_policy', 'set_default_permission',
              'add_permission', 'set_default_csrf_options', 'set_csrf_storage_policy', 'add_tween', '_add_tween', 'add_view',
              'add_view_predicate', 'add_accept_view_order', 'add_view_deriver', 'set_view_mapper', 'add_forbidden_view',
              'add_notfound_view', 'add_exception_view', 'add_static_view', 'add_cache_buster', 'static_info_add',
              'static_info_add_cache_buster']
KIND_DIRECTIVE = {'acceptorder': 'add_accept_view_order', 'route': 'add_route', 'renderer': 'add_renderer', 'policy': 'set_security_policy',
                  'defperm': 'set_default_permission', 'csrf': 'set_default_csrf_options', 'rootf': 'set_root_factory',
                  'sessf': 'set_session_factory', 'reqf': 'set_request_factory',
                  'csrfstore': 'set_csrf_storage_policy', 'respf': 'set_response_factory', 'reqm': 'add_request_method',
                  'static': 'add_static_view', 'vpred': 'add_view_predicate', 'rpred': 'add_route_predicate',
                  'deriver': 'add_view_deriver', 'sub': 'add_subscriber', 'tween': 'add_tween', 'mapper': 'set_view_mapper'}
VIEW_DIRECTIVE = {'view': 'add_view', 'notfound': 'add_notfound_view', 'forbidden': 'add_forbidden_view',
                  'exc': 'add_exception_view'}


def directive_of(st):
    """(directive method called by the statement, [callable_none, property, reify, name_is_url])"""
    flags = [0, 0, 0, 0]
    if st['k'] == 'view':
        return VIEW_DIRECTIVE[st.get('kind', 'view')], flags
    if st['k'] == 'raw':
        call = st['call']
        if call == 'add_request_method_placeholder':
            return 'add_request_method', [1, 0, 0, 0]
        return call, flags
    if st['k'] == 'reqm':
        return 'add_request_method', [0, 1 if st.get('mode') == 'property' else 0, 1 if st.get('mode') == 'reify' else 0, 0]
    return KIND_DIRECTIVE[st['k']], flags


def _ranks(case):
    return G.ranks_of(case['stmts']) or {}


def _customs(case, declared=None):
    """custom view predicates in predicate-list order: by their constraints when they have any, else in the order
    their actions run (= declaration order of the variant, [declared]); canonical (sorted) when no variant is meant"""
    ps = [st for st in case['stmts'] if st['k'] == 'vpred' and 'shadow_of' not in st]
    ranks = _ranks(case)
    if any(st['id'] in ranks for st in ps):
        return [st['name'] for st in sorted(ps, key=lambda st: ranks.get(st['id'], 0))]
    if declared is not None:
        ids = {st['id']: st['name'] for st in ps}
        return [ids[i] for i in declared if i in ids]
    return sorted(set(st['name'] for st in ps))


def _layout(case):
    """instance / discriminator numbering shared by to_wire and from_wire"""
    customs = _customs(case)
    ranks = _ranks(case)
    acts = {}
    insts, discs = {}, {}
    keys = []
    for st in case['stmts']:
        acts[st['id']] = expand(st, customs, ranks)
        for a in acts[st['id']]:
            for f, i in a['reads'] + a['dreads'] + a['writes']:
                insts.setdefault((f, i), None)
            for f, i in a['writes']:
                if (f, i) not in keys:
                    keys.append((f, i))
            if a['disc'] is not None:
                discs.setdefault(a['disc'], len(discs))
    per_f = {}
    for (f, i) in sorted(insts, key=lambda x: (T.FAM[x[0]], str(x[1]))):
        per_f.setdefault(f, []).append(i)
    num = {(f, i): [T.FAM[f], per_f[f].index(i)] for (f, i) in insts}
    keys.sort(key=lambda x: num[x])
    return acts, num, discs, keys


def _tree(body):
    """nested body -> (nodes [[parent, spec]...] without the root, places [[stmt id, node]...])"""
    nodes, places = [], []

    def go(items, me):
        for it in items:
            if isinstance(it, int):
                places.append([it, me])
            elif it == 'commit':
                continue
            else:
                nodes.append([me, 'harness.c08.world:inc_%d' % (len(nodes) + 1)])
                go(it['inc'], len(nodes))
    go(body, 0)
    return nodes, places


def to_wire(case):
    acts, num, discs, keys = _layout(case)
    sites = _sites()
    ws = []
    for st in case['stmts']:
        for j, a in enumerate(acts[st['id']]):
            ws.append([st['id'] * 8 + j, sites.index(a['site']) if a['site'] in sites else 9999,
                       [] if a['disc'] is None else [discs[a['disc']]],
                       [num[x] for x in a['reads']], [num[x] for x in a['dreads']], [num[x] for x in a['writes']],
                       a['acc']])
    vs = []
    stmts = {s['id']: s for s in case['stmts']}
    ranks = _ranks(case)
    for body in case['variants']:
        nodes, places = _tree(body)
        # custom view predicates enter the predicate list in the order their (phase 1) actions run = declaration order
        customs = _customs(case, [i for i, _ in places])
        pl = []
        for sid, node in places:
            for j, a in enumerate(expand(stmts[sid], customs, ranks)):
                pl.append([sid * 8 + j, node, a['acc']])
        # commit markers (top level only): number of actions declared before each
        cuts, n = [], 0
        for it in body:
            if it == 'commit':
                cuts.append(n)
                n = 0
            else:
                n += sum(len(acts[i]) for i in G.flatten([it]))
        vs.append([nodes, pl, cuts])
    # per statement: the directive it calls and the sites of the actions the expansion gives it
    dirs = []
    for st in case['stmts']:
        d, flags = directive_of(st)
        dirs.append([DIRECTIVES.index(d), flags,
                     [sites.index(a['site']) if a['site'] in sites else 9999 for a in acts[st['id']]]])
    return [ws, [num[k] for k in keys], vs, dirs]


OBSERVED = ('csrfstore', 'respf', 'predsc', 'deriversc', 'tweensc', 'acceptc', 'accept', 'routes', 'riface', 'view', 'renderer', 'policy', 'mapper', 'defperm', 'csrfopts', 'rootf', 'sessf', 'reqf', 'reqext',
            'preds', 'derivers', 'subs', 'tweens', 'static')


def _keyname(k):
    f, i = k
    if f == 'view':
        return 'view:' + i
    if f in ('riface', 'renderer', 'reqext', 'preds'):
        return '%s:%s' % (f, i)
    if f == 'predsc':
        return 'preds:%s' % i
    return {'deriversc': 'derivers', 'tweensc': 'tweens', 'acceptc': 'accept'}.get(f, f)


def from_wire(case, raw):
    try:
        flags, vres = raw
        acts, num, discs, keys = _layout(case)
        raw = set(st['id'] for st in case['stmts'] if st['k'] == 'raw')
        out = []
        for (o, ex, cells, fl) in vres:
            regs = {}
            for k, c in zip(keys, cells):
                # registrations of the census-only directives are not read back from the registry
                c = [x // 8 for x in c if x // 8 not in raw]
                if c and k[0] in OBSERVED:
                    regs[_keyname(k)] = c
            if o[0] == 0:
                oc = ['done']
            elif o[0] == 1:
                oc = ['config-error', 'ConfigurationConflictError']
            else:
                oc = ['model-outcome', o[0]]
            out.append({'outcome': oc, 'exec': ex, 'regs': regs, 'flags': fl})
        model = {'table': flags, 'variants': out}
        return {'model': model, 'spec': [flags] + [v['flags'] for v in out]}
    except Exception as e:
        return {'model': ['MODEL-BAD', repr(e)[:100], raw if not isinstance(raw, list) or len(str(raw)) < 300 else 'long'],
                'spec': None}


# ------------------------------------------------------------ implementation
def setup(tier):
    from . import world
    world.setup()


def valid(case):
    try:
        ids = [s['id'] for s in case['stmts']]
        if len(set(ids)) != len(ids) or not case['variants'] or not case['stmts']:
            return False
        seen = set()
        shadow = {s['id']: s['shadow_of'] for s in case['stmts'] if 'shadow_of' in s}
        for st in case['stmts']:
            if 'shadow_of' in st:
                if st['shadow_of'] not in ids or st['shadow_of'] in shadow:
                    return False
                continue
            if st['k'] == 'view':
                key = G.view_key(st)
            elif st['k'] in ('route', 'renderer', 'reqm', 'vpred', 'rpred', 'deriver', 'tween', 'static'):
                key = (st['k'], st.get('name'))
            elif st['k'] == 'acceptorder':
                key = ('acceptorder', st['value'])
            elif st['k'] == 'raw':
                key = ('raw', st['call'])
            elif st['k'] == 'sub':
                key = ('sub', st['id'])
            else:
                key = (st['k'],)
            if key in seen:
                return False
            seen.add(key)
        if not case.get('illformed') and not G.wellformed(case['stmts']):
            return False      # (a shrink step must not turn a well-formed program into one referring to undeclared things)
        cls = G.seq_class(case['stmts'])
        base = None
        for body in case['variants']:
            fl = G.flatten(body)
            if sorted(i for i in fl if i not in shadow) != sorted(i for i in ids if i not in shadow):
                return False
            if len(set(fl)) != len(fl) or not all(i in ids for i in fl) or not _shadows_below(body, shadow):
                return False
            if not _structure_ok(case, body, shadow):
                return False
            sig = [[i for i in fl if cls[i] == c and i not in shadow] for c in ('route', 'sub', 'tween')]
            if base is None:
                base = sig
            elif sig != base:
                return False
        return isinstance(case.get('probes'), list)
    except Exception:
        return False


def _deps(case):
    """statement id -> (keys read, keys written) from the static expansion"""
    customs = _customs(case)
    out = {}
    for st in case['stmts']:
        rd, wr = set(), set()
        for a in expand(st, customs, _ranks(case)):
            rd |= set(a['reads']) | set(a['dreads'])
            wr |= set(a['writes'])
        out[st['id']] = (rd, wr)
    return out


def closed_prefix(case, first, shadow=()):
    """may the statements [first] be committed before the rest is even declared without changing the application?
    yes when (a) every statement writing a key that a member reads is a member, and (b) for the ordered containers
    whose order the variants keep (routes, subscribers, tweens) the members are an initial segment."""
    deps = _deps(case)
    first = set(first)
    for i in first:
        for j, (_, wr) in deps.items():
            if j not in first and j not in shadow and deps[i][0] & wr:
                return False
    cls = G.seq_class(case['stmts'])
    order = [s['id'] for s in case['stmts']]
    for c in ('route', 'sub', 'tween'):
        members = [i for i in order if cls[i] == c and i not in shadow]
        flags = [i in first for i in members]
        if flags != sorted(flags, reverse=True):
            return False
    return True


def _structure_ok(case, body, shadow):
    """commit markers only at top level and only after a closed prefix; route_prefix includes only around 'prefix' routes"""
    stmts = {s['id']: s for s in case['stmts']}

    def inner(items, inside):
        for it in items:
            if it == 'commit':
                return False
            if isinstance(it, dict):
                pfx = bool(it.get('prefix'))
                if pfx and inside:
                    return False
                if pfx or inside:
                    for i in G.flatten(it['inc']):
                        st = stmts[i]
                        if i not in shadow and (st['k'] == 'static' or (st['k'] == 'route' and not st.get('prefix'))):
                            return False
                if not inner(it['inc'], inside or pfx):
                    return False
            elif not isinstance(it, int):
                return False
        return True
    seen = []
    if sum(1 for it in body if it == 'commit') > 1:
        return False          # the theorems (and the model's closedness flag) cover ONE intermediate commit
    for it in body:
        if it == 'commit':
            if shadow or not closed_prefix(case, seen, shadow) or any(s.get('aslash') for s in case['stmts']):
                return False
        elif isinstance(it, dict):
            if not inner([it], False):
                return False
            seen += G.flatten([it])
        elif isinstance(it, int):
            seen.append(it)
        else:
            return False
    return True


def add_commits(rng, case):
    """turn some variants into programs with an intermediate commit() after a closed prefix"""
    if any('shadow_of' in s or s.get('aslash') for s in case['stmts']):
        return case       # (append_slash derives its wrapped view from what is COMMITTED at the statement: see NOTES.md)
    deps = _deps(case)
    ids = [s['id'] for s in case['stmts']]
    cls = G.seq_class(case['stmts'])
    variants = list(case['variants'])
    for j in range(1, len(variants)):
        if rng.random() > 0.35:
            continue
        first = set(rng.sample(ids, rng.randint(1, max(1, len(ids) // 2))))
        changed = True
        while changed:
            changed = False
            for i in list(first):
                for k, (_, wr) in deps.items():
                    if k not in first and deps[i][0] & wr:
                        first.add(k)
                        changed = True
            for c in ('route', 'sub', 'tween'):
                members = [i for i in ids if cls[i] == c]
                last = max([n for n, i in enumerate(members) if i in first], default=-1)
                for i in members[:last + 1]:
                    if i not in first:
                        first.add(i)
                        changed = True
        if len(first) == len(ids):
            continue
        fl = G.flatten(variants[j])
        a = [i for i in fl if i in first]
        b = [i for i in fl if i not in first]
        nestit = (lambda seq: G.add_prefixes(rng, G.nest(rng, seq), case['stmts'])) if rng.random() < 0.6 else (lambda seq: seq)
        variants[j] = nestit(a) + ['commit'] + nestit(b)
    return dict(case, variants=variants)


def _shadows_below(body, shadow):
    """every shadow statement sits in an include strictly below the list that holds its main statement"""
    ok = [True]

    def go(items, owners):
        here = [it for it in items if isinstance(it, int)]
        for it in items:
            if isinstance(it, int):
                if it in shadow and shadow[it] not in owners:
                    ok[0] = False
            elif isinstance(it, dict):
                go(it['inc'], owners | set(i for i in here if i not in shadow))
    go(body, set())
    return ok[0]


def shrinks(case):
    S = case['stmts']
    # drop a statement (from every variant)
    for st in S:
        i = st['id']

        def drop(body):
            out = []
            for it in body:
                if isinstance(it, int):
                    if it != i:
                        out.append(it)
                elif isinstance(it, dict):
                    out.append(dict(it, inc=drop(it['inc'])))
                else:
                    out.append(it)
            return out
        if any(s.get('shadow_of') == i for s in S):
            continue
        yield dict(case, stmts=[s for s in S if s['id'] != i], variants=[drop(b) for b in case['variants']])
    # drop a variant (keep variant 0)
    for j in range(1, len(case['variants'])):
        yield dict(case, variants=case['variants'][:j] + case['variants'][j + 1:])
    # flatten a variant
    for j, b in enumerate(case['variants']):
        fl = G.flatten(b)
        if fl != b:
            yield dict(case, variants=case['variants'][:j] + [fl] + case['variants'][j + 1:])
    # drop probes
    P = case['probes']
    if len(P) > 1:
        yield dict(case, probes=P[:len(P) // 2])
        yield dict(case, probes=P[len(P) // 2:])
        for j in range(len(P)):
            yield dict(case, probes=P[:j] + P[j + 1:])
    # drop optional attributes of statements
    for n, st in enumerate(S):
        for a in ('perm', 'renderer', 'csrf', 'dopt', 'dopt2', 'factory', 'method', 'param', 'vp', 'vq', 'ctx', 'rp', 'ret',
                  'xhr', 'header', 'accept', 'wrapper', 'aslash', 'nones'):
            if a in st and not (a == 'ret' and st.get('renderer')):
                st2 = {k: v for k, v in st.items() if k != a}
                if a == 'renderer':
                    st2.pop('ret', None)
                yield dict(case, stmts=S[:n] + [st2] + S[n + 1:])


def _monitor_report(case, b, acts):
    """violations of the declared table / of phase discipline seen by the registry monitor"""
    stmts = {s['id']: s for s in case['stmts']}
    phase = {d[0]: d[1] for d in b.decl}
    bad = set()
    IGN = {'U:IDebugLogger', 'U:ISettings', 'U:IIntrospector'}
    writes = []
    for ctx, op, rk, inst in b.mon.log:
        if rk in IGN:
            continue
        fam = T.FAM_OF_REGKEY.get(rk)
        if ctx[0] == 'decl':
            sites = [a['site'] for a in acts[ctx[1]]]
            allowed = set(f for s in sites for f in T.DECLARED[s]['decl'])
            if stmts[ctx[1]].get('aslash'):
                allowed |= set(T.EAGER_DERIVE)       # add_notfound_view(append_slash=True) derives the wrapped view right away
            if fam not in allowed:
                bad.add('declaration of %s touches %s (%s)' % (stmts[ctx[1]]['k'], rk, op))
            continue
        sid = ctx[1]
        a = acts[sid // 8][sid % 8] if sid % 8 < len(acts[sid // 8]) else None
        if a is None:
            bad.add('unexpected action %d of statement kind %s' % (sid % 8, stmts[sid // 8]['k']))
            continue
        row = T.DECLARED[a['site']]
        wf = [f for f, _ in row['writes']]
        if ctx[0] == 'disc':
            ok = (op == 'r' and fam in row['disc'])
        elif op == 'r':
            ok = fam in row['reads'] or fam in wf or fam in T.GUARDS.get(a['site'], ())
        else:
            ok = fam in wf
        if not ok:
            bad.add('H2 table: %s %s %s outside the declared table (%s)' % (a['site'], 'reads' if op == 'r' else 'writes', rk, ctx[0]))
        if op == 'w' and ctx[0] == 'act':
            writes.append((sid, rk, inst))
    # instance level: a read of a plain (set-mode) key that another statement writes in the same or a later phase
    setmode = {f for r in T.DECLARED.values() for f, m in r['writes'] if m == 'set'}
    for ctx, op, rk, inst in b.mon.log:
        if op != 'r' or ctx[0] == 'decl':
            continue
        fam = T.FAM_OF_REGKEY.get(rk)
        if fam not in setmode:
            continue
        sid = ctx[1]
        a = acts[sid // 8][sid % 8] if sid % 8 < len(acts[sid // 8]) else None
        if a is not None and fam in [f for f, _ in T.DECLARED[a['site']]['writes']]:
            continue      # read-modify-write of the container the action itself adds to (IRequestExtensions by name)
        for (wsid, wrk, winst) in writes:
            if wrk == rk and winst == inst and wsid // 8 != sid // 8 and phase.get(wsid, 0) >= phase.get(sid, 0):
                bad.add('H2 violated: phase %s action of %s reads %s written in phase %s'
                        % (phase.get(sid), stmts[sid // 8]['k'], rk, phase.get(wsid)))
    return sorted(bad)


def run_impl(case):
    from . import world as W
    W.setup()
    _sites()
    stmts = {s['id']: s for s in case['stmts']}
    acts, num, discs, keys = _layout(case)
    core = []
    probes = []
    mon = []
    decl_ok = True
    for body in case['variants']:
        b = W.build_variant(stmts, body, case.get('rootprefix'))
        # the actions every statement created: count, order= value and deferred flag as the expansion says
        exp = []
        for sid in G.flatten(body):
            for j, a in enumerate(acts[sid]):
                exp.append([sid * 8 + j, _state['phase'].get(a['site'], 0), 1 if a['site'] == 'add_view#0' else 0])
        got = [d[:3] for d in b.decl]
        if b.outcome[0] != 'config-error' and got != exp:
            decl_ok = False
        mon += _monitor_report(case, b, acts)
        v = {'outcome': b.outcome, 'exec': list(b.mon.runs), 'regs': W.registrations(b, stmts) if b.app is not None else {}}
        core.append(v)
        if b.app is not None:
            probes.append([W.probe(b.app, p) for p in case['probes']])
        else:
            probes.append(b.outcome)
    return {'variants': core, 'monitor': sorted(set(mon)), 'decl_ok': decl_ok, 'probes': probes}


# ------------------------------------------------------------ judging
def _done(v):
    return v['outcome'] == ['done']


def equiv(case, obs, model):
    """correspondence: the model predicts, per variant, the outcome of the commit, the order in which the
    actions run and which registrations exist at the end; the monitor must have nothing to report."""
    try:
        if not isinstance(model, dict) or not isinstance(obs, dict):
            return False
        if obs['monitor'] or not obs['decl_ok']:
            return False
        if model['table'] != [1, 1, 1, 1]:
            return False
        for vi, vm in zip(obs['variants'], model['variants']):
            if vi['outcome'][0] == 'config-error' and vi['outcome'][1] != 'ConfigurationConflictError':
                continue                      # e.g. a view naming a route nobody declares: outside the store model
            if vi['outcome'] != vm['outcome']:
                return False
            if vi['exec'] != vm['exec'] or vi['regs'] != vm['regs']:
                return False
            h0, sched, h1, h2, hord, seq, closed = vm['flags']
            if h0 and not sched:
                return False                  # C04 commit must execute the sort-by-phase schedule
            if not closed:
                return False                  # an intermediate commit after a prefix the MODEL does not find closed
            if h0 and h1 and h2 and hord and closed and not seq:
                return False                  # would contradict commit_permutation_invariant / segmented_variants_agree
        return len(obs['variants']) == len(model['variants'])
    except Exception:
        return False


def _differing(obs):
    """indices of probes whose answer is not the same in every variant; None if a whole variant differs"""
    P = obs['probes']
    base = P[0]
    diff = set()
    for q in P[1:]:
        if not (isinstance(q, list) and isinstance(base, list) and len(q) == len(base)) or \
                (q and not isinstance(q[0], list)) or (base and not isinstance(base[0], list)):
            if q != base:
                return None
            continue
        for i, (x, y) in enumerate(zip(base, q)):
            if x != y:
                diff.add(i)
    return sorted(diff)


def spec_holds(case, obs, spec):
    """The property itself, on the implementation: every variant configures without error or fails with the
    same error, and every variant answers every probe identically."""
    if not isinstance(obs, dict):
        return False
    if case.get('illformed') and all(v['outcome'][0] == 'config-error' for v in obs['variants']):
        return True
    d = _differing(obs)
    if d is None or d:
        return False
    r0 = obs['variants'][0]
    for v in obs['variants']:
        if v['outcome'][0] == 'setup-error':
            return False          # (a Configurator that cannot even be set up produces no application at all)
        if v['outcome'] != r0['outcome']:
            # an ill-formed program (refers to an undeclared route / predicate / option) must be refused by every
            # variant; WHICH of its independent mistakes is reported first may depend on where a commit falls
            if not (case.get('illformed') and v['outcome'][0] == 'config-error' and r0['outcome'][0] == 'config-error'):
                return False
    return True


def classify(case, obs, spec):
    """known deviations: answers that depend on declaration order although no conflict is reported"""
    if not isinstance(obs, dict):
        return None
    d = _differing(obs)
    if d is None:
        return None
    stmts = case['stmts']
    r0 = obs['variants'][0]
    regdiff = set()
    for v in obs['variants'][1:]:
        if v['outcome'] != r0['outcome']:
            return None
        for k in set(v['regs']) | set(r0['regs']):
            if v['regs'].get(k) != r0['regs'].get(k):
                regdiff.add(k)
    views = {s['id']: s for s in stmts if s['k'] == 'view'}

    def benign_swap(k):
        # a slot whose variants differ only in the order of members with EQUAL predicate order that can never hold together
        # (values differing only by not_(): method 'POST' / '!POST'): no answer depends on that order -- not a difference
        from .world import slotkey
        members = {s['id']: s for s in views.values() if 'view:' + slotkey(s) == k}
        lists = [v['regs'].get(k, []) for v in obs['variants']]
        if not members or not all(sorted(l) == sorted(lists[0]) and all(i in members for i in l) for l in lists):
            return False
        cust = _customs(case)
        o = {i: view_order(s, cust, True) for i, s in members.items()}
        for l in lists:
            if [o[i] for i in l] != sorted(o[i] for i in l):
                return False
        ids = list(members)
        for x in range(len(ids)):
            for y in range(x + 1, len(ids)):
                a_, b_ = members[ids[x]], members[ids[y]]
                if o[ids[x]] == o[ids[y]]:
                    ma, mb = str(a_.get('method')), str(b_.get('method'))
                    if not (ma == '!' + mb or mb == '!' + ma):
                        return False
                    if G.view_key(dict(a_, method=None)) != G.view_key(dict(b_, method=None)):
                        return False
        return True
    regdiff = set(k for k in regdiff if not (k.startswith('view:') and benign_swap(k)))

    def answered_by(i):
        out = set()
        for q in obs['probes']:
            hs = dict(q[i][1]) if isinstance(q[i], list) and len(q[i]) == 3 else {}
            out.add(hs.get('X-View'))
        return out
    # (1) two custom view predicates: their weights follow registration order
    npred = len([s for s in stmts if s['k'] == 'vpred'])
    nder = len([s for s in stmts if s['k'] == 'deriver'])
    if npred >= 2 and 'preds:view' in regdiff and all(k == 'preds:view' or k.startswith('view:') for k in regdiff):
        return 'C08-custom-predicate-weight-follows-registration-order'
    if nder >= 2 and regdiff == {'derivers'}:
        return 'C08-custom-deriver-nesting-follows-registration-order'
    # (2) views of one slot with equal predicate order: the first declared answers
    if regdiff and all(k.startswith('view:') for k in regdiff):
        from .world import slotkey
        customs = _customs(case)
        # unconstrained custom predicates weigh by their position in the list as registered; when every variant registered
        # them in the same order (preds:view is not among the differences) that order -- not the alphabetical reference --
        # is the one the views' orders were computed with
        byid = {s['id']: s for s in stmts}
        pv = r0['regs'].get('preds:view')
        if pv and 'preds:view' not in regdiff and all(i in byid and byid[i]['k'] == 'vpred' for i in pv) \
                and not any(i in _ranks(case) for i in pv):
            customs = [byid[i]['name'] for i in pv]
        kinds_differ = False
        for k in regdiff:
            members = [s for s in views.values() if 'view:' + slotkey(s) == k]
            orders = [(view_order(s, customs, True), O.pred_kinds(s)) for s in members]
            lists = [tuple(v['regs'].get(k, [])) for v in obs['variants']]
            if not all(sorted(l) == sorted(lists[0]) for l in lists):
                return None
            # the variants may only differ in the order of members with equal predicate order
            o = {s['id']: view_order(s, customs, True) for s in members}
            for l in lists:
                if [o[i] for i in l] != sorted(o[i] for i in l):
                    return None
            if len(set(x[0] for x in orders)) == len(orders):
                return None                         # all orders differ: not a tie of the documented scheme
            # members that swap places must tie; same kinds = the first finding, different kinds = the arithmetical one
            for a in range(len(orders)):
                for b in range(a + 1, len(orders)):
                    if orders[a][0] == orders[b][0] and orders[a][1] != orders[b][1]:
                        kinds_differ = True
        return ('C08-floor-division-gives-different-predicate-sets-one-order' if kinds_differ
                else 'C08-equal-order-views-answer-by-declaration-order')
    return None


def nontrivial(case, obs):
    if not isinstance(obs, dict):
        return False
    phases = set()
    customs = _customs(case)
    for st in case['stmts']:
        for a in expand(st, customs):
            phases.add(_state['phase'].get(a['site'], 0) if _state.get('phase') else 0)
    flat = [G.flatten(b) for b in case['variants']]
    return len(phases) >= 2 and len(set(map(tuple, flat))) >= 2 and any(b != G.flatten(b) for b in case['variants']) \
        and 'forward-reference' in kinds(case, obs)


def kinds(case, obs):
    ks = ['stream-' + case.get('stream', '?')]
    if not isinstance(obs, dict):
        return ks + ['harness-exc']
    ks.append('outcome-' + '/'.join(sorted(set(v['outcome'][0] + (':' + v['outcome'][1] if len(v['outcome']) > 1 else '')
                                               for v in obs['variants']))))
    kset = set(s['k'] if s['k'] != 'view' else 'view-' + s.get('kind', 'view') for s in case['stmts'])
    ks += ['has-' + k for k in sorted(kset)]
    # forward references: a reader declared before the statement it depends on, in some variant
    S = {s['id']: s for s in case['stmts']}
    fwd = False
    for b in case['variants']:
        fl = G.flatten(b)
        pos = {i: p for p, i in enumerate(fl)}
        for s in case['stmts']:
            if s['k'] != 'view':
                continue
            for w in case['stmts']:
                dep = (w['k'] == 'route' and s.get('route') == w['name']) or \
                      (w['k'] in ('defperm', 'policy', 'csrf')) or \
                      (w['k'] == 'renderer' and (w['name'] == s.get('renderer') or (w['name'] is None and not s.get('renderer')))) or \
                      (w['k'] == 'vpred' and s.get(w['name']) is not None) or (w['k'] == 'deriver' and s.get('dopt')) or \
                      (w['k'] == 'mapper' and s.get('ret') == 'mv')
                if dep and s['id'] in pos and w['id'] in pos and pos[w['id']] > pos[s['id']]:
                    fwd = True
    if fwd:
        ks.append('forward-reference')
    if any(b != G.flatten(b) for b in case['variants']):
        ks.append('nested-includes')
    if any('commit' in b for b in case['variants']):
        ks.append('intermediate-commit')
    def _pfx(items):
        for it in items:
            if isinstance(it, dict):
                if it.get('prefix') and any(S[i]['k'] == 'route' for i in G.flatten(it['inc'])):
                    return True
                if _pfx(it['inc']):
                    return True
        return False
    if any(_pfx(b) for b in case['variants']):
        ks.append('route-prefix-include')
    if any(s.get('accept') for s in case['stmts']):
        ks.append('has-accept-view')
    if case.get('illformed'):
        ks.append('ill-formed-program')
    if any(s.get('ret') == 'mv' for s in case['stmts']):
        ks.append('has-view-for-custom-mapper')
    if any(str(s.get('method', '')).startswith('!') for s in case['stmts']):
        ks.append('has-not_-predicate-value')
    if any(s.get('nones') for s in case['stmts']):
        ks.append('explicit-None-arguments')
    if 'twice' in str(case['variants']):
        ks.append('callable-included-twice')
    if case.get('rootprefix'):
        ks.append('root-route-prefix' + ('-trailing-slash' if case['rootprefix'].endswith('/') else ''))
    if any(s.get('aslash') for s in case['stmts']):
        ks.append('has-append-slash-notfound')
    if any(s.get('wrapper') for s in case['stmts']):
        ks.append('has-wrapper-view-option')
    if any(s.get('ctx') == 'E' for s in case['stmts']):
        ks.append('has-view-on-IExceptionResponse')
    if any(s['k'] == 'acceptorder' and s['value'] in ('application/json', 'text/plain') for s in case['stmts']):
        ks.append('redeclares-default-sorter-member')
    st = set()
    for q in obs['probes']:
        if isinstance(q, list):
            for r in q:
                if isinstance(r, list) and r and isinstance(r[0], int):
                    st.add(r[0])
                elif isinstance(r, list) and r and r[0] == 'EXC':
                    st.add('exc')
    ks += ['probe-status-%s' % s for s in sorted(st, key=str)]
    if any(len(v) > 1 for k, v in obs['variants'][0]['regs'].items() if k.startswith('view:')):
        ks.append('multiview')
    d = _differing(obs)
    if d is None or d:
        ks.append('variants-differ')
    return ks


def describe(case):
    return {'stream': case.get('stream'), 'stmts': case['stmts'], 'variants': case['variants'],
            'rootprefix': case.get('rootprefix'), 'n_probes': len(case['probes'])}


def generate(rng, tier, n):
    _sites()
    for _ in range(n):
        yield add_commits(rng, G.gen_case(rng, tier))


def targeted(broken, disagreements, rng):
    """programs aimed at the directives whose phase/deferredness the property depends on: every reader declared
    BEFORE the statement it refers to, flat and nested"""
    out = []
    base = [
        [dict(k='view', name='x', ret='dict'), dict(k='renderer', name=None)],
        [dict(k='view', name='x', renderer='tagr', ret='dict'), dict(k='renderer', name='tagr')],
        [dict(k='view', name='x'), dict(k='defperm', perm='p1'), dict(k='policy')],
        [dict(k='view', name='x', perm='p1'), dict(k='policy')],
        [dict(k='view', name='', route='r0'), dict(k='route', name='r0', pattern='/q')],
        [dict(k='view', name='x', vp='1'), dict(k='vpred', name='vp')],
        [dict(k='view', name='x', dopt='t'), dict(k='deriver', name='dv')],
        [dict(k='view', name='x'), dict(k='csrf'), dict(k='sessf')],
        [dict(k='route', name='r0', pattern='/q', rp='1'), dict(k='rpred', name='rp'), dict(k='view', name='', route='r0')],
        [dict(k='static', name='st1'), dict(k='defperm', perm='p1'), dict(k='policy')],
        [dict(k='view', name='x', ret='mv'), dict(k='mapper'), dict(k='view', name='y', ret='mv')],
        # the slot of the default exception-response view (committed before the program): predicated member and
        # predicate-less replacement in either order
        [dict(k='view', name='', ctx='E', method='POST'), dict(k='view', name='', ctx='E'), dict(k='view', name='x')],
        # a statement that derives a view while it is declared, between a reader and what the reader depends on
        [dict(k='view', name='', route='r0'), dict(k='view', kind='notfound', aslash=True),
         dict(k='route', name='r0', pattern='/q')],
        [dict(k='view', name='x'), dict(k='view', kind='notfound', aslash=True), dict(k='defperm', perm='p1'), dict(k='policy')],
        # wrapper= names a view declared later
        [dict(k='view', name='x', wrapper='wr'), dict(k='view', name='wr', ret='wrap')],
        # re-declaration of a default member of a sorter container next to a member constrained relative to it
        [dict(k='acceptorder', value=G.V1, more='application/json'),
         dict(k='acceptorder', value='application/json', more='text/plain'),
         dict(k='view', name='api', accept=G.V1), dict(k='view', name='api', accept='application/json'),
         dict(k='view', name='api', accept='text/plain')],
        # a root configurator whose route_prefix is handed on unnormalised: top level vs inside an include
        ([dict(k='route', name='r0', pattern='/q'), dict(k='view', name='', route='r0'), dict(k='view', name='x')],
         {'rootprefix': 'api/'}),
        ([dict(k='static', name='st1'), dict(k='view', name='x')], {'rootprefix': 'api/'}),
        ([dict(k='route', name='r0', pattern='/q', prefix=1), dict(k='view', name='', route='r0')], {'rootprefix': '/api/'}),
        # predicate values that differ only by not_(): distinct discriminators, disjoint requests
        [dict(k='view', name='n', method='POST'), dict(k='view', name='n', method='!POST'), dict(k='view', name='x')],
        # default-phase writers that requests read: a CSRF-checked view / a rendered view declared BEFORE them
        [dict(k='view', name='x', csrf=True), dict(k='csrfstore'), dict(k='sessf'), dict(k='view', name='y', csrf=True)],
        [dict(k='csrf'), dict(k='view', name='x'), dict(k='csrfstore'), dict(k='sessf')],
        [dict(k='view', name='x', renderer='string', ret='dict'), dict(k='respf'), dict(k='view', name='y', renderer='json', ret='dict')],
        # a view derived at the statement with a renderer name: top level vs inside includes
        [dict(k='view', kind='notfound', aslash=True, renderer='json', ret='dict'), dict(k='view', name='x')],
        [dict(k='view', kind='notfound', aslash=True, renderer='tagr', ret='dict'), dict(k='renderer', name='tagr')],
        # a route declared before the root factory its requests are answered with
        [dict(k='route', name='r0', pattern='/q'), dict(k='rootf', ctx='A'), dict(k='view', name='', route='r0', ctx='A')],
    ]
    for prog in base:
        extra = {}
        if isinstance(prog, tuple):
            prog, extra = prog
        S = [dict(s, id=i) for i, s in enumerate(prog)]
        ids = [s['id'] for s in S]
        rev = list(reversed(ids))
        variants = [ids, rev, [{'inc': ids[:1]}] + ids[1:], [{'inc': [{'inc': rev[:1]}]}] + rev[1:],
                    [{'inc': [i]} for i in ids]]
        case = {'stream': 'targeted', 'stmts': S, 'variants': variants,
                'probes': G.probes_for(rng, S, extra.get('rootprefix'))}
        case.update(extra)
        if valid(case):
            out.append(case)
    return out
