"""Implementation side of C08: run one program variant through a real Configurator
(public API only), with a monitoring Registry that logs every registry read/write made
while a directive is declared, while a deferred discriminator is computed and while an
action callable runs; then probe the resulting WSGI application.

Key families seen by the monitor:
   U:<Interface>      utility of that interface (queryUtility/getUtility/registerUtility)
   A:view             adapters provided as IView/ISecuredView/IMultiView
   A:<Interface>      other adapters
   S:handlers         subscription adapters / handlers
"""
import os
import tempfile

_P = {}          # lazily imported pyramid names
STATIC_DIR = None


def setup():
    global STATIC_DIR
    if _P:
        return
    import warnings
    warnings.filterwarnings('ignore')
    from pyramid.config import Configurator
    from pyramid.registry import Registry
    from pyramid.request import Request
    from pyramid.response import Response
    from pyramid import interfaces as I
    from pyramid.events import NewRequest, NewResponse
    from pyramid.security import Allowed, Denied, NO_PERMISSION_REQUIRED
    from pyramid.httpexceptions import HTTPNotFound, HTTPForbidden
    from pyramid.exceptions import ConfigurationError
    from zope.interface import Interface, providedBy
    _P.update(Configurator=Configurator, Registry=Registry, Request=Request, Response=Response, I=I,
              NewRequest=NewRequest, NewResponse=NewResponse, Allowed=Allowed, Denied=Denied,
              NOPERM=NO_PERMISSION_REQUIRED, HTTPNotFound=HTTPNotFound, HTTPForbidden=HTTPForbidden,
              ConfigurationError=ConfigurationError, Interface=Interface)
    STATIC_DIR = tempfile.mkdtemp(prefix='C08_static_')
    with open(os.path.join(STATIC_DIR, 'hello.txt'), 'w') as f:
        f.write('static-hello')
    import atexit
    import shutil
    owner = os.getpid()
    atexit.register(lambda: os.getpid() == owner and shutil.rmtree(STATIC_DIR, ignore_errors=True))
    _mk_registry_class()


# ------------------------------------------------------------------ monitor
class Monitor:
    def __init__(self):
        self.ctx = None          # None | ('decl', stmt) | ('disc', sid) | ('act', sid)
        self.log = []            # (ctx, 'r'|'w', family, instance)
        self.runs = []           # sids in execution order
        self.forces = []

    def rec(self, op, fam, inst):
        if self.ctx is not None:
            self.log.append((self.ctx, op, fam, inst))


def _iname(i):
    return getattr(i, '__name__', None) or repr(i)


def _afam(provided):
    n = _iname(provided)
    if n in ('IView', 'ISecuredView', 'IMultiView'):
        return 'A:view'
    return 'A:' + n


def _ainst(required, name):
    return '|'.join(_iname(r) for r in required) + '|' + str(name)


class _AdaptersProxy:
    def __init__(self, real, mon):
        object.__setattr__(self, '_real', real)
        object.__setattr__(self, '_mon', mon)

    def __getattr__(self, n):
        return getattr(self._real, n)

    def __setattr__(self, n, v):
        setattr(self._real, n, v)

    def lookup(self, required, provided, name='', default=None):
        self._mon.rec('r', _afam(provided), _ainst(required, name))
        return self._real.lookup(required, provided, name, default)

    def registered(self, required, provided, name=''):
        self._mon.rec('r', _afam(provided), _ainst(required, name))
        return self._real.registered(required, provided, name)

    def lookupAll(self, required, provided):
        self._mon.rec('r', _afam(provided), _ainst(required, '*'))
        return self._real.lookupAll(required, provided)

    def unregister(self, required, provided, name='', value=None):
        self._mon.rec('w', _afam(provided), _ainst(required, name))
        return self._real.unregister(required, provided, name, value)


def _mk_registry_class():
    Registry = _P['Registry']

    class MonRegistry(Registry):
        """pyramid.registry.Registry that reports reads and writes to a Monitor."""
        _c08_mon = None

        def c08_attach(self, mon):
            self._c08_mon = mon
            self.__dict__['adapters'] = _AdaptersProxy(self.__dict__.get('adapters', self.adapters), mon)

        def _rec(self, op, fam, inst):
            m = self._c08_mon
            if m is not None:
                m.rec(op, fam, inst)

        def queryUtility(self, provided, name='', default=None):
            self._rec('r', 'U:' + _iname(provided), str(name))
            return Registry.queryUtility(self, provided, name, default)

        def getUtility(self, provided, name=''):
            self._rec('r', 'U:' + _iname(provided), str(name))
            return Registry.getUtility(self, provided, name)

        def registerUtility(self, component=None, provided=None, name='', *a, **kw):
            self._rec('w', 'U:' + _iname(provided), str(name))
            return Registry.registerUtility(self, component, provided, name, *a, **kw)

        def registerAdapter(self, factory, required=None, provided=None, name='', *a, **kw):
            self._rec('w', _afam(provided), _ainst(required or (), name))
            return Registry.registerAdapter(self, factory, required, provided, name, *a, **kw)

        def registerSubscriptionAdapter(self, *a, **kw):
            self._rec('w', 'S:handlers', '')
            return Registry.registerSubscriptionAdapter(self, *a, **kw)

        def registerHandler(self, *a, **kw):
            self._rec('w', 'S:handlers', '')
            return Registry.registerHandler(self, *a, **kw)

        def queryAdapter(self, obj, provided, name='', default=None):
            self._rec('r', _afam(provided), 'obj|' + str(name))
            return Registry.queryAdapter(self, obj, provided, name, default)

        def queryMultiAdapter(self, objs, provided, name='', default=None):
            self._rec('r', _afam(provided), 'objs|' + str(name))
            return Registry.queryMultiAdapter(self, objs, provided, name, default)

    _P['MonRegistry'] = MonRegistry


# ------------------------------------------------------------------ program objects
class CtxA:
    tag = 'A'

    def __init__(self, request=None):
        pass


class CtxB:
    tag = 'B'

    def __init__(self, request=None):
        pass


class MyExc(Exception):
    pass


CTX = {'A': CtxA, 'B': CtxB}


def _view(stmt):
    Response = _P['Response']
    sid = stmt['id']
    ret = stmt.get('ret', 'resp')
    kind = stmt.get('kind', 'view')

    def view(context, request):
        if ret == 'dict':
            return {'v': sid}
        if ret == 'raise':
            raise MyExc('boom')
        if ret == 'mv':
            # written for the custom mapper: called as view(request, tag); DefaultViewMapper calls view(context, request)
            r = Response('mv%d:%s' % (sid, request if isinstance(request, str) else 'unmapped'))
            r.headers['X-View'] = 'v%d' % sid
            return r
        if ret == 'wrap':
            # a wrapper view (reached through another view's wrapper= option): frames the wrapped view's body
            inner = getattr(request, 'wrapped_response', None)
            r = Response('<f%d>%s</f>' % (sid, getattr(request, 'wrapped_body', b'-').decode('latin-1')))
            r.headers['X-View'] = 'w%d(%s)' % (sid, inner.headers.get('X-View') if inner is not None else '-')
            return r
        r = Response('v%d' % sid)
        r.headers['X-View'] = 'v%d' % sid
        if kind in ('notfound',):
            r.status_int = 404
        elif kind == 'forbidden':
            r.status_int = 403
        elif kind == 'exc':
            r.status_int = 500
        return r
    view.__name__ = 'view_%d' % sid
    view.c08_sid = sid
    view.c08_mv = (ret == 'mv')
    return view


def _mapper(sid):
    from pyramid.config.views import DefaultViewMapper

    class Mapper:
        """default view mapper of the program: views written for it are called as view(request, 'M<sid>')"""
        c08_sid = sid

        def __init__(self, **kw):
            self.kw = kw

        def __call__(self, view):
            if getattr(view, 'c08_mv', False):
                return lambda context, request: view(request, 'M%d' % sid)
            return DefaultViewMapper(**self.kw)(view)
    return Mapper


class Policy:
    def __init__(self, sid):
        self.c08_sid = sid

    def identity(self, request):
        return request.headers.get('X-User')

    def authenticated_userid(self, request):
        return request.headers.get('X-User')

    def permits(self, request, context, permission):
        if request.headers.get('X-User') == permission:
            return _P['Allowed']('ok')
        return _P['Denied']('no')

    def remember(self, request, userid, **kw):
        return []

    def forget(self, request, **kw):
        return []


class CsrfStore:
    """application CSRF storage policy: the valid token is 'ctok' (the session-based default accepts 'tok')"""
    def __init__(self, sid):
        self.c08_sid = sid

    def new_csrf_token(self, request):
        return 'ctok'

    def get_csrf_token(self, request):
        return 'ctok'

    def check_csrf_token(self, request, supplied_token):
        return supplied_token == 'ctok'


class Session(dict):
    def __init__(self, request, sid=0):
        dict.__init__(self)
        self.sid = sid

    def get_csrf_token(self):
        return 'tok'

    def new_csrf_token(self):
        return 'tok'

    def changed(self):
        pass

    def invalidate(self):
        pass

    def flash(self, *a, **k):
        pass

    new = False
    created = 0


def _renderer_factory(sid):
    def factory(info):
        def render(value, system):
            request = system.get('request')
            if request is not None:
                request.response.content_type = 'text/plain'
            return 'R%d:%s' % (sid, sorted(value.items()) if isinstance(value, dict) else value)
        return render
    factory.c08_sid = sid
    return factory


class VPred:
    def __init__(self, val, info):
        self.val = val

    def text(self):
        return 'vp = %s' % (self.val,)

    phash = text

    def __call__(self, context, request):
        return request.params.get('vp') == self.val or request.params.get('vp') == '*'


class VPred2(VPred):
    def text(self):
        return 'vq = %s' % (self.val,)

    phash = text

    def __call__(self, context, request):
        return request.params.get('vq') == self.val or request.params.get('vq') == '*'


class RPred:
    def __init__(self, val, info):
        self.val = val

    def text(self):
        return 'rp = %s' % (self.val,)

    phash = text

    def __call__(self, info, request):
        return request.params.get('rp') == self.val


def _deriver(tag, optname):
    def deriver(view, info):
        opt = info.options.get(optname)
        if opt is None:
            return view

        def wrapped(context, request):
            resp = view(context, request)
            resp.headers['X-Deriv'] = resp.headers.get('X-Deriv', '') + tag + str(opt)
            return resp
        return wrapped
    deriver.options = (optname,)
    deriver.__name__ = 'deriver_' + tag
    return deriver


EXT_NAMES = ('ext1', 'ext2', 'ext3')


def _prelude_response_subscriber(event):
    req, resp = event.request, event.response
    resp.headers['X-Sub'] = ''.join(req.environ.get('c08.sub', []))
    root = getattr(req, 'root', None)
    resp.headers['X-Root'] = getattr(root, 'tag', type(root).__name__)
    resp.headers['X-ReqF'] = str(getattr(req, 'c08_reqf', '-'))
    exts = []
    for n in EXT_NAMES:
        try:
            v = getattr(req, n)
            exts.append('%s=%s' % (n, v() if callable(v) else v))
        except AttributeError:
            pass
    resp.headers['X-Ext'] = ','.join(exts)


# ------------------------------------------------------------------ declaring one statement
PREFIX = 'pfx'


def declare(config, st, in_prefix=False):
    """Issue the directive(s) of one statement on [config].  A route statement with 'prefix' stands for the pattern
    /pfx<pattern>: inside an include made with route_prefix='pfx' it is declared with the bare pattern, elsewhere
    with the prefixed pattern written out."""
    k = st['k']
    sid = st['id']
    if k == 'route':
        kw = {}
        if st.get('prefix') and not in_prefix:
            st = dict(st, pattern='/' + PREFIX + st['pattern'])
        if st.get('factory'):
            kw['factory'] = CtxB
        if st.get('method'):
            kw['request_method'] = st['method']
        if st.get('rp') is not None:
            kw['rp'] = st['rp']
        if st.get('nones'):
            for a in ('factory', 'request_method', 'header', 'xhr', 'accept', 'path_info', 'request_param', 'traverse',
                      'custom_predicates', 'pregenerator', 'use_global_views') [:7 + sid % 4]:
                kw.setdefault(a, None if a != 'custom_predicates' else ())
            kw.pop('custom_predicates', None)
        config.add_route(st['name'], st['pattern'], **kw)
    elif k == 'view':
        kw = {}
        kind = st.get('kind', 'view')
        if st.get('route'):
            kw['route_name'] = st['route']
        if st.get('method'):
            kw['request_method'] = st['method']
            if st['method'].startswith('!'):
                from pyramid.config import not_
                kw['request_method'] = not_(st['method'][1:])
        if st.get('param'):
            kw['request_param'] = st['param']
        if st.get('vp') is not None:
            kw['vp'] = st['vp']
        if st.get('vq') is not None:
            kw['vq'] = st['vq']
        if st.get('xhr'):
            kw['xhr'] = True
        if st.get('header'):
            kw['header'] = st['header']
        if st.get('accept'):
            kw['accept'] = st['accept']
        if st.get('renderer'):
            kw['renderer'] = st['renderer']
        if st.get('dopt') is not None:
            kw['tagopt'] = st['dopt']
        if st.get('dopt2') is not None:
            kw['tagopt2'] = st['dopt2']
        if st.get('wrapper'):
            kw['wrapper'] = st['wrapper']
        v = _view(st)
        if st.get('nones'):
            for a in ('attr', 'renderer', 'wrapper', 'route_name', 'request_method', 'request_param', 'containment',
                      'xhr', 'accept', 'header', 'path_info', 'decorator', 'mapper', 'http_cache', 'match_param'):
                kw.setdefault(a, None)
        if kind == 'view':
            if st.get('ctx') == 'E':
                kw['context'] = _P['I'].IExceptionResponse
            elif st.get('ctx'):
                kw['context'] = CTX[st['ctx']]
            if st.get('perm'):
                kw['permission'] = _P['NOPERM'] if st['perm'] == 'NOPERM' else st['perm']
            if st.get('csrf') is not None:
                kw['require_csrf'] = st['csrf']
            config.add_view(v, name=st.get('name', ''), **kw)
        elif kind == 'notfound':
            if st.get('aslash'):
                kw['append_slash'] = True
            config.add_notfound_view(v, **kw)
        elif kind == 'forbidden':
            config.add_forbidden_view(v, **kw)
        elif kind == 'exc':
            config.add_exception_view(v, context=MyExc, **kw)
    elif k == 'renderer':
        config.add_renderer(st['name'], _renderer_factory(sid))
    elif k == 'mapper':
        config.set_view_mapper(_mapper(sid))
    elif k == 'policy':
        config.set_security_policy(Policy(sid))
    elif k == 'defperm':
        config.set_default_permission(st['perm'])
    elif k == 'csrf':
        config.set_default_csrf_options(require_csrf=True, token='tk', header='X-CSRF-Token')
    elif k == 'rootf':
        cls = CTX[st.get('ctx', 'A')]

        def rootf(request, cls=cls):
            return cls(request)
        rootf.c08_sid = sid
        config.set_root_factory(rootf)
    elif k == 'sessf':
        def sessf(request):
            return Session(request, sid)
        sessf.c08_sid = sid
        config.set_session_factory(sessf)
    elif k == 'csrfstore':
        config.set_csrf_storage_policy(CsrfStore(sid))
    elif k == 'respf':
        def respf(request, sid=sid):
            r = _P['Response']()
            r.headers['X-RespF'] = 'pf%d' % sid
            return r
        respf.c08_sid = sid
        config.set_response_factory(respf)
    elif k == 'reqf':
        class Req(_P['Request']):
            c08_reqf = 'rf%d' % sid
        Req.c08_sid = sid
        config.set_request_factory(Req)
    elif k == 'reqm':
        mode = st.get('mode', 'method')

        def ext(request, sid=sid):
            return 'e%d' % sid
        ext.c08_sid = sid
        config.add_request_method(ext, name=st['name'], property=(mode == 'property'), reify=(mode == 'reify'))
    elif k == 'static':
        config.add_static_view(st['name'], STATIC_DIR)
    elif k == 'vpred':
        kw = {}
        if st.get('more'):
            kw['weighs_more_than'] = st['more']
        if st.get('less'):
            kw['weighs_less_than'] = st['less']
        config.add_view_predicate(st['name'], VPred if st['name'] == 'vp' else VPred2, **kw)
    elif k == 'acceptorder':
        kw = {}
        if st.get('more'):
            kw['weighs_more_than'] = st['more']
        if st.get('less'):
            kw['weighs_less_than'] = st['less']
        config.add_accept_view_order(st['value'], **kw)
    elif k == 'rpred':
        config.add_route_predicate(st['name'], RPred)
    elif k == 'deriver':
        kw = {c: st[c] for c in ('under', 'over') if st.get(c)}
        config.add_view_deriver(_deriver(st['name'], 'tagopt' if st['name'] == 'dv' else 'tagopt2'), name=st['name'], **kw)
    elif k == 'sub':
        tag = 's%d' % sid
        if st.get('ev') == 'resp':
            def sub(event, tag=tag):
                event.response.headers['X-SubR'] = event.response.headers.get('X-SubR', '') + tag
            sub.c08_sid = sid
            config.add_subscriber(sub, _P['NewResponse'])
        else:
            def sub(event, tag=tag):
                event.request.environ.setdefault('c08.sub', []).append(tag)
            sub.c08_sid = sid
            config.add_subscriber(sub, _P['NewRequest'])
    elif k == 'tween':
        kw = {c: 'harness.c08.tweens.tw_' + st[c] for c in ('under', 'over') if st.get(c)}
        config.add_tween('harness.c08.tweens.tw_' + st['name'], **kw)
    elif k == 'raw':
        RAW[st['call']][1](config)
    else:
        raise ValueError('unknown statement kind %r' % k)


# directives outside the generator's vocabulary, exercised once each by the census case of the corpus so that
# their rows of the declared table are monitored too: name -> (action sites in creation order, call)
def _raw_table():
    from pyramid.response import Response
    from pyramid.router import default_execution_policy
    from pyramid.csrf import CookieCSRFStoragePolicy
    from pyramid.traversal import ResourceTreeTraverser, ResourceURL
    from pyramid.authentication import AuthTktAuthenticationPolicy
    from pyramid.authorization import ACLAuthorizationPolicy

    class Mapper:
        def __init__(self, **kw):
            pass

        def __call__(self, view):
            return view

    return {
        'set_view_mapper': (['set_view_mapper#0'], lambda c: c.set_view_mapper(Mapper)),
        'add_accept_view_order': (['add_accept_view_order#0'], lambda c: c.add_accept_view_order('text/csv')),
        'set_response_factory': (['set_response_factory#0'], lambda c: c.set_response_factory(lambda r: Response())),
        'set_execution_policy': (['set_execution_policy#0'], lambda c: c.set_execution_policy(default_execution_policy)),
        'set_locale_negotiator': (['set_locale_negotiator#0'], lambda c: c.set_locale_negotiator(lambda r: 'en')),
        'add_translation_dirs': (['add_translation_dirs#0'], lambda c: c.add_translation_dirs(STATIC_DIR)),
        'set_authentication_policy': (['set_authentication_policy#0'],
                                      lambda c: c.set_authentication_policy(AuthTktAuthenticationPolicy('s3cret'))),
        'set_authorization_policy': (['set_authorization_policy#0', 'set_authorization_policy#1'],
                                     lambda c: c.set_authorization_policy(ACLAuthorizationPolicy())),
        'add_permission': (['add_permission#0'], lambda c: c.add_permission('perm_x')),
        'set_csrf_storage_policy': (['set_csrf_storage_policy#0'],
                                    lambda c: c.set_csrf_storage_policy(CookieCSRFStoragePolicy())),
        'add_response_adapter': (['add_response_adapter#0'], lambda c: c.add_response_adapter(lambda x: Response('a'), CtxA)),
        'add_traverser': (['add_traverser#0'], lambda c: c.add_traverser(ResourceTreeTraverser, CtxB)),
        'add_resource_url_adapter': (['add_resource_url_adapter#0'], lambda c: c.add_resource_url_adapter(ResourceURL, CtxB)),
        'add_request_method_placeholder': (['add_request_method#0'], lambda c: c.add_request_method(None, name='ext9')),
        'override_asset': (['override_asset#0'],
                           lambda c: c.override_asset('harness.c08.assetpkg:a/', 'harness.c08.assetpkg:b/')),
        'add_cache_buster': (['add_cache_buster#0'],
                             lambda c: c.add_cache_buster('harness.c08.assetpkg:a/', _cache_buster())),
    }


def _cache_buster():
    from pyramid.static import QueryStringConstantCacheBuster
    return QueryStringConstantCacheBuster('v1')


class _Raw(dict):
    def __missing__(self, k):
        self.update(_raw_table())
        return dict.__getitem__(self, k)


RAW = _Raw()
RAW_SITES = {
    'set_view_mapper': ['set_view_mapper#0'], 'add_accept_view_order': ['add_accept_view_order#0'],
    'set_response_factory': ['set_response_factory#0'], 'set_execution_policy': ['set_execution_policy#0'],
    'set_locale_negotiator': ['set_locale_negotiator#0'], 'add_translation_dirs': ['add_translation_dirs#0'],
    'set_authentication_policy': ['set_authentication_policy#0'],
    'set_authorization_policy': ['set_authorization_policy#0', 'set_authorization_policy#1'],
    'add_permission': ['add_permission#0'], 'set_csrf_storage_policy': ['set_csrf_storage_policy#0'],
    'add_response_adapter': ['add_response_adapter#0'], 'add_traverser': ['add_traverser#0'],
    'add_resource_url_adapter': ['add_resource_url_adapter#0'], 'add_request_method_placeholder': ['add_request_method#0'],
    'override_asset': ['override_asset#0'], 'add_cache_buster': ['add_cache_buster#0'],
}


# ------------------------------------------------------------------ one variant
class Built:
    pass


def _disc_family(d):
    """canonical text of a discriminator's shape (first component)."""
    if d is None:
        return 'None'
    if isinstance(d, tuple) and d and isinstance(d[0], str):
        return d[0]
    return _iname(d)


def build_variant(stmts, body, rootprefix=None):
    """stmts: {id: stmt}; body: nested list (int = statement id, {'inc': body} = include).
    Returns Built with: outcome, decl (per action: sid, order, deferred), runs, monitor log,
    registry, app."""
    setup()
    mon = Monitor()
    out = Built()
    out.mon = mon
    out.decl = []
    out.app = None
    out.registry = None
    out.rootprefix = rootprefix
    try:
        reg = _P['MonRegistry']('c08')
        config = _P['Configurator'](registry=reg, route_prefix=rootprefix)
        config.setup_registry()               # defaults are committed before the program starts
        reg.c08_attach(mon)
        config.add_subscriber(_prelude_response_subscriber, _P['NewResponse'])
        config.commit()
    except Exception as e:                    # no statement of the program was issued yet
        out.outcome = ['setup-error', type(e).__name__]
        return out
    out.registry = reg
    state = {'n': 0, 'inc': 0}
    from pyramid.registry import Deferred

    def wrap_new_actions(cfg, st):
        acts = cfg.action_state.actions
        j = 0
        for a in acts[state['n']:]:
            sid = st['id'] * 8 + j
            j += 1
            d = a['discriminator']
            deferred = isinstance(d, Deferred)
            if deferred:
                f = d.func

                def func(f=f, sid=sid):
                    prev, mon.ctx = mon.ctx, ('disc', sid)
                    mon.forces.append(sid)
                    try:
                        return f()
                    finally:
                        mon.ctx = prev
                d.func = func
            c = a['callable']

            def call(*args, _c=c, sid=sid, **kw):
                prev, mon.ctx = mon.ctx, ('act', sid)
                mon.runs.append(sid)
                try:
                    if _c is not None:
                        return _c(*args, **kw)
                finally:
                    mon.ctx = prev
            a['callable'] = call
            out.decl.append([sid, a['order'] or 0, 1 if deferred else 0,
                             'Deferred' if deferred else _disc_family(d)])
        state['n'] = len(acts)

    def run_body(cfg, items, in_prefix=False):
        for it in items:
            if isinstance(it, int):
                st = stmts[it]
                mon.ctx = ('decl', st['id'])
                try:
                    declare(cfg, st, in_prefix)
                finally:
                    mon.ctx = None
                wrap_new_actions(cfg, st)
            elif it == 'commit':
                cfg.commit()                  # a fresh ActionState follows
                state['n'] = 0
            else:
                state['inc'] += 1
                sub = it['inc']
                pfx = bool(it.get('prefix'))

                def includeme(c, sub=sub, pfx=pfx):
                    run_body(c, sub, in_prefix or pfx)
                includeme.__name__ = 'inc_%d' % state['inc']
                includeme.__qualname__ = includeme.__name__
                for _ in range(2 if it.get('twice') else 1):
                    # (a second include of the same callable inside one commit is skipped by ActionState.processSpec)
                    if pfx:
                        cfg.include(includeme, route_prefix=PREFIX)
                    else:
                        cfg.include(includeme)

    try:
        run_body(config, body)
        config.commit()
        out.outcome = ['done']
    except Exception as e:          # configuration-time failure: part of the observation
        mon.ctx = None
        out.outcome = ['config-error', type(e).__name__]
        return out
    try:
        out.app = config.make_wsgi_app()
    except Exception as e:
        out.outcome = ['app-error', type(e).__name__]
    return out


HEADERS = ('Content-Type', 'X-RespF', 'X-View', 'X-Tw', 'X-Sub', 'X-SubR', 'X-Root', 'X-ReqF', 'X-Ext', 'X-Deriv', 'Location')


def probe(app, p):
    """p = [method, path, query, user|None, token|None]"""
    Request = _P['Request']
    method, path, query, user, token = p[:5]
    req = Request.blank(path + (('?' + query) if query else ''))
    for h, v in (p[5] if len(p) > 5 else []):
        req.headers[h] = v
    req.method = method
    if method == 'POST':
        req.body = b''
    if user:
        req.headers['X-User'] = user
    if token:
        req.headers['X-CSRF-Token'] = token
    try:
        resp = req.get_response(app)
    except Exception as e:
        return ['EXC', type(e).__name__]
    body = resp.body[:120].decode('latin-1')
    if resp.status_int >= 400 and 'X-View' not in resp.headers:
        body = body[:40]          # default error pages: keep the title only
    return [resp.status_int, [[h, resp.headers[h]] for h in HEADERS if h in resp.headers], body]


# ------------------------------------------------------------------ which registrations exist
def triad(st):
    """abstract key of the registration slot a view statement writes"""
    kind = st.get('kind', 'view')
    if st['k'] == 'static':
        return 'view|None||__%s/' % st['name']
    if kind == 'view':
        return 'view|%s|%s|%s' % (st.get('ctx'), st.get('name', ''), st.get('route'))
    return '%s|%s' % (kind, st.get('route'))


def slotkey(st):
    """views with accept= live in a per-media-type sublist of their multiview"""
    return triad(st) + ('|' + st['accept'] if st.get('accept') else '')


def registrations(b, stmts):
    """Canonical summary of the final registry in the abstract keys of the model:
    {key-string: [statement ids]} (in container order for ordered containers)."""
    I = _P['I']
    reg = b.registry
    Registry = _P['Registry']
    q = lambda iface, name='': Registry.queryUtility(reg, iface, name)
    by_kind = {}
    route_of = {}
    mains = [st for st in stmts.values() if 'shadow_of' not in st]
    pattern_of = {}
    for st in stmts.values():
        by_kind.setdefault(st['k'], []).append(st['id'])
        if st['k'] == 'route':
            pattern_of[(st['name'], st['pattern'])] = st['id']
    for st in mains:
        if st['k'] == 'route':
            route_of[st['name']] = st['id']
        if st['k'] == 'static':
            route_of['__%s/' % st['name']] = st['id']
    custom = {(st['k'], st['name']): st['id'] for st in mains if st['k'] in ('vpred', 'rpred', 'deriver')}
    out = {}
    rootp = (getattr(b, 'rootprefix', None) or '').strip('/')

    def canon(name):
        # StaticURLInfo.add names the route of a static view '__<route_prefix>/<name>': an internal name (it never
        # reaches an answer) that spells the root configurator's unnormalised prefix differently at top level
        # ('__api//st1/') and inside an include ('__api/st1/'); the abstract key is the name without the prefix
        if rootp and isinstance(name, str) and name.startswith('__'):
            import re
            m = re.match(r'__/*%s/+(.*)$' % re.escape(rootp), name)
            if m:
                return '__' + m.group(1)
        return name
    mapper = q(I.IRoutesMapper)
    if mapper is not None:
        rs = [pattern_of.get((r.name, r.pattern), route_of.get(canon(r.name), -1)) for r in mapper.get_routes(include_static=True)]
        if rs:
            out['routes'] = rs
    for iface, key in ((I.ISecurityPolicy, 'policy'), (I.IRootFactory, 'rootf'), (I.ISessionFactory, 'sessf'),
                       (I.IRequestFactory, 'reqf'), (I.IViewMapperFactory, 'mapper'),
                       (I.ICSRFStoragePolicy, 'csrfstore'), (I.IResponseFactory, 'respf')):
        u = q(iface)
        if u is not None and hasattr(u, 'c08_sid'):
            out[key] = [u.c08_sid]
    dp = q(I.IDefaultPermission)
    if dp is not None:
        out['defperm'] = [i for i in by_kind.get('defperm', []) if stmts[i]['perm'] == dp] or [-1]
    co = q(I.IDefaultCSRFOptions)
    if co is not None and co.require_csrf:
        out['csrfopts'] = by_kind.get('csrf', [-1])[:1]
    for name, f in Registry.getUtilitiesFor(reg, I.IRendererFactory):
        if hasattr(f, 'c08_sid'):
            out['renderer:%s' % name] = [f.c08_sid]
    for name, f in Registry.getUtilitiesFor(reg, I.IRouteRequest):
        out['riface:%s' % canon(name)] = [route_of.get(canon(name), -1)]
    ex = q(I.IRequestExtensions)
    if ex is not None:
        names = list(ex.methods) + list(ex.descriptors)
        for st in mains:
            if st['k'] == 'reqm' and st['name'] in names:
                out['reqext:%s' % st['name']] = [st['id']]
    tw = q(I.ITweens)
    if tw is not None:
        tws = {('tw_' + st['name']): st['id'] for st in mains if st['k'] == 'tween'}
        # unconstrained tweens stack newest-outermost: list them in registration order
        l = list(reversed([tws.get(n.rsplit('.', 1)[-1], -1) for n, _ in tw.implicit() if n.startswith('harness.c08')]))
        if l:
            out['tweens'] = l
    for typ, key, kind in (('view', 'preds:view', 'vpred'), ('route', 'preds:route', 'rpred')):
        pl = q(I.IPredicateList, typ)
        if pl is not None:
            l = [custom[(kind, n)] for n, _ in pl.sorter.sorted() if (kind, n) in custom]
            if l:
                out[key] = l
    dv = q(I.IViewDerivers)
    if dv is not None:
        # derivers without constraints of their own nest newest-outermost: list them in registration order
        l = list(reversed([custom[('deriver', n)] for n, _ in dv.sorted() if ('deriver', n) in custom]))
        if l:
            out['derivers'] = l
    # views: which view statements are registered, in which order inside their slot
    intr = reg.introspector
    derived = {}
    for item in intr.get_category('views') or []:
        i = item['introspectable']
        c = i.get('callable')
        sid = getattr(c, 'c08_sid', None)
        if sid is None and hasattr(c, 'notfound_view'):
            # add_notfound_view(append_slash=True): the registered callable is the factory around the derived view
            nv = c.notfound_view
            sid = getattr(getattr(nv, '__original_view__', nv), 'c08_sid', None)
        if sid is None and canon(i.get('route_name')) in route_of and str(i.get('route_name')).startswith('__'):
            sid = route_of[canon(i.get('route_name'))]
        if sid is not None:
            derived[id(i.get('derived_callable'))] = sid
    def member(v):
        # a view on an exception context registered with add_view is stored as two derived callables (ordinary and
        # exception classifier) while the introspectable records the runtime_exc_view wrapper: go through the original view
        m = derived.get(id(v), -1)
        if m == -1:
            m = getattr(getattr(v, '__original_view__', None), 'c08_sid', -1)
        return m
    slots = {}
    real = reg.__dict__['adapters']._real if isinstance(reg.__dict__.get('adapters'), _AdaptersProxy) else reg.adapters
    for r in Registry.registeredAdapters(reg):
        if r.provided in (I.IView, I.ISecuredView, I.IMultiView):
            f = r.factory
            # Components keeps a registration record even after adapters.unregister(): ask the adapter registry
            if real.registered(r.required, r.provided, r.name) is not f:
                continue
            if r.provided is I.IMultiView:
                members = [member(v) for (_, v, _) in f.views]
                members += [member(v) for acc in f.accepts for (_, v, _) in f.media_views[acc]]
            else:
                members = [member(f)]
            for m in members:
                if m != -1:
                    slots.setdefault('view:' + slotkey(stmts[m]), []).append(m)
    for k, v in slots.items():
        # a view that is both a normal and an exception view is registered twice: keep one
        seen = []
        for m in v:
            if m not in seen:
                seen.append(m)
        out[k] = seen
    hs = []
    for r in Registry.registeredHandlers(reg):
        if hasattr(r.handler, 'c08_sid'):
            hs.append(r.handler.c08_sid)
    if hs:
        out['subs'] = hs
    ao = q(I.IAcceptOrder)
    if ao is not None:
        mine = {st['value']: st['id'] for st in mains if st['k'] == 'acceptorder'}
        l = [mine[n] for n, _ in ao.sorted() if n in mine]
        if l:
            out['accept'] = l
    sinfo = q(I.IStaticURLInfo)
    if sinfo is not None:
        l = [route_of.get(canon(rn), -1) for (_, _, rn) in sinfo.registrations]
        if l:
            out['static'] = l
    return out
