"""C08 translator: Python ast of the configuration directives (src/pyramid/config/*.py) and of the action
registration path (ActionConfiguratorMixin.action / commit, ActionState.action, Configurator.include)
-> Gallina definitions gen_emit_* / gen_cfg_* , re-run on every check (prop.facts) and emitted into
coq/Gen/Facts_C08.v.

Fail-closed: a statement outside the SUBSET, an expression outside the PRIMITIVE TABLE, an assignment to an
emission-relevant variable that the table does not describe -> Problem; the caller records it as a broken tie and
emits the stored fallback text (harness/c08/gen_fallback.json = the translation of the text the hand-written
reference model was written against) so that the Coq development still builds.

=== WHAT IS TRANSLATED ==================================================================================
 (E) EMISSION FUNCTIONS, one per directive method:
        gen_emit_<method> (valid : bool) (a : dargs) : option (list call)
     = which `self.action(...)` calls the directive makes, in which order, with which discriminator head, order=
     value, Deferred flag and callable flag -- None when the directive raises instead.  A `call` is
        mkCall site head order deferred has_callable      (coq/Model/C08_base.v)
     site = "<function>#<k>", k-th action call of the function in source order.
 (W) WORLD FUNCTIONS of the registration path, state-passing over `world` (coq/Model/C08_base.v):
        gen_cfg_action, gen_state_action, gen_commit, gen_include

=== CONTROL FLOW (mechanical, continuation-passing; nothing is looked up) =================================
  block s1; s2; ...      the translation of s1 receives the translation of the rest as its continuation
  if c: A else: B ; rest decision tree over the ATOMS of c (`and` / `or` / `not` split, each branch followed by its own
                         copy of <rest>, a test repeated on a path is resolved, an `if` whose branches are the same
                         term disappears) -- so `if a: if b: S`, `if a and b: S`, `elif` vs nested `else: if` coincide
  return / return f(..)  the result so far (after the emissions of f when f is a translated directive)
  raise ..               (E) None          (W) the world so far with outcome Raised
  with X: B              B        (context managers of these functions do not touch actions: route_prefix_context)
  try: B finally: F      B ; F    (callables are assumed not to raise -- C04's assumption; see NOTES.md)
  v = e                  substitution (no let is emitted; names of locals never occur in the output)
  INERT statements are skipped: a statement that contains no action call, no call of a translated function, no
                         return, no raise, and assigns no EMISSION-RELEVANT variable (= a name read by a test that
                         guards an emission/return, closed under the right-hand sides of assignments to such names).
                         Nested `def`s are inert (they must not contain action calls: checked).
  GUARD: a compound statement that contains `raise` but no emission / return / translated call and assigns no
                         relevant variable is argument validation:  if valid then <rest> else None
                         (`valid` = "no validation of this directive fires"; the correspondence run only issues
                         valid calls, an invalid one shows as ConfigurationError there)
  for / while containing an emission: outside the subset (Problem)

=== PRIMITIVE TABLE (trusted: each line is a claim about Python / Pyramid semantics) ======================
  self.action(D, C, order=O, ...) / config.action(...)     emit  mkCall site (head D) (ord O) (deferred D) (cb C)
     head D        the discriminator's head: None -> "None"; an interface name I.. -> that name; a tuple whose first
                   element is a string literal (or `'<fmt>' % x`) -> that literal; a name bound once in the function to
                   one of these, or to Deferred(f) with f's single `return` tuple -> the head of that (deferred = true)
     ord O         absent -> default_order; PHASEn_CONFIG -> phasen (regenerated constants); an int literal -> itself
     cb C          the constant None / absent -> false; anything else -> true
  self.<m>(..) / config.<m>(..) / info.<m>(self, ..) / return self.<m>(..)   with <m> a translated directive:
                   match gen_emit_<m> valid a with Some l => .. acc ++ l .. | None => None end
                   (the same argument record is handed on: the flags of different directives are disjoint)
  atoms (add_request_method)   `callable is None` -> a_callable_none a ; `property` -> a_property a ; `reify` -> a_reify a
        (StaticURLInfo.add)    `urlparse(name).netloc` -> a_name_is_url a
  v = self.maybe_dotted(v)                     v keeps its None-ness and truth value
  v = v + '<literal>'                          every table atom over v keeps its value (name + '/' is a URL iff name is)
  n, v = InstancePropertyHelper.make_property(v, ..)     v is not None afterwards (a property / reify object)
  v = <and/or/not over atoms>                  substitution
  @action_method, @viewdefaults                transparent for emission (both stay shape-pinned)
  self.<h>(..) / config.<h>(..) with <h> in CONFIG_HELPERS (introspectable, maybe_dotted, object_description,
     get_routes_mapper, _get_static_info, _make_spec, _derive_view)      a value; declares / executes no action, leaves the
                   configurator unchanged.  ANY OTHER method of the configurator called at statement level (commit,
                   include, begin, end, scan, ...) and any store / del of an attribute of self / config: Problem -- such a
                   statement must never fall under the INERT rule
  what the INERT statements compute (patterns, specs, the values the callables capture) is not translated: it is pinned per
                   directive as its statement-level residue (c08facts.residue_shapes, pins_residue.json)
  (W) see the table in the second half of this file (section WORLD FUNCTIONS)
"""
import ast
import glob
import json
import os

HERE = os.path.dirname(os.path.abspath(__file__))
FALLBACK = os.path.join(HERE, 'gen_fallback.json')


class Problem(Exception):
    pass


def u(node):
    try:
        return ast.unparse(node)
    except Exception:
        return '<%s>' % type(node).__name__


def coq_text(s):
    return '[' + '; '.join(str(ord(c)) for c in s) + ']%N'


# ------------------------------------------------------------------ boolean terms (atoms, decision trees)
class B:
    """boolean term: ('flag', coq) | ('const', bool) | ('not', t) | ('and', a, b) | ('or', a, b)"""


def b_flag(f):
    return ('flag', f)


def b_const(v):
    return ('const', bool(v))


def b_not(t):
    if t[0] == 'const':
        return b_const(not t[1])
    if t[0] == 'not':
        return t[1]
    return ('not', t)


def b_and(a, b):
    return ('and', a, b)


def b_or(a, b):
    return ('or', a, b)


# terms of the result: ('if', flag, T, E) | ('leaf', text) ; built by `decide`
def t_if(flag, t, e):
    if t == e:
        return t
    return ('if', flag, t, e)


def decide(cond, known, kt, ke):
    """decision tree for boolean term cond under the path facts `known` {flag: bool};
    kt / ke : known -> term  (continuations, called with the extended facts)"""
    k = cond[0]
    if k == 'const':
        return kt(known) if cond[1] else ke(known)
    if k == 'flag':
        f = cond[1]
        if f in known:
            return kt(known) if known[f] else ke(known)
        return t_if(f, kt(dict(known, **{f: True})), ke(dict(known, **{f: False})))
    if k == 'not':
        return decide(cond[1], known, ke, kt)
    if k == 'and':
        return decide(cond[1], known, lambda kn: decide(cond[2], kn, kt, ke), ke)
    if k == 'or':
        return decide(cond[1], known, kt, lambda kn: decide(cond[2], kn, kt, ke))
    raise Problem('boolean term %r' % (cond,))


def render(t, ind=2):
    if t[0] == 'leaf':
        return t[1]
    pad = ' ' * ind
    return '(if %s\n%s then %s\n%s else %s)' % (t[1], pad, render(t[2], ind + 2), pad, render(t[3], ind + 2))


# ------------------------------------------------------------------ (E) emission functions
# method name -> (file, class)
EMIT_FUNCS = [
    ('adapters.py', 'AdaptersConfiguratorMixin', ['add_subscriber', 'add_subscriber_predicate', 'add_response_adapter',
                                                  'add_traverser', 'add_resource_url_adapter']),
    ('assets.py', 'AssetsConfiguratorMixin', ['override_asset']),
    ('factories.py', 'FactoriesConfiguratorMixin', ['set_root_factory', 'set_session_factory', 'set_request_factory',
                                                    'set_response_factory', 'add_request_method', 'set_execution_policy']),
    ('i18n.py', 'I18NConfiguratorMixin', ['set_locale_negotiator', 'add_translation_dirs']),
    ('predicates.py', 'PredicateConfiguratorMixin', ['_add_predicate']),
    ('rendering.py', 'RenderingConfiguratorMixin', ['add_renderer']),
    ('routes.py', 'RoutesConfiguratorMixin', ['add_route', 'add_route_predicate']),
    ('security.py', 'SecurityConfiguratorMixin', ['set_security_policy', 'set_authentication_policy',
                                                  'set_authorization_policy', 'set_default_permission', 'add_permission',
                                                  'set_default_csrf_options', 'set_csrf_storage_policy']),
    ('tweens.py', 'TweensConfiguratorMixin', ['add_tween', '_add_tween']),
    ('views.py', 'ViewsConfiguratorMixin', ['add_view', 'add_view_predicate', 'add_accept_view_order', 'add_view_deriver',
                                            'set_view_mapper', 'add_forbidden_view', 'add_notfound_view',
                                            'add_exception_view', 'add_static_view', 'add_cache_buster']),
    ('views.py', 'StaticURLInfo', ['add', 'add_cache_buster']),
]
# Coq names (StaticURLInfo.add / add_cache_buster get a prefix: the mixin has an add_cache_buster of its own)
def coq_name(cls, meth):
    return 'gen_emit_' + ('static_info_' if cls == 'StaticURLInfo' else '') + meth


# atoms: (method, source text of the leaf) -> {'truth': B, 'none': B}
ATOMS = {
    ('add_request_method', 'callable'): {'none': b_flag('a_callable_none a'), 'truth': b_not(b_flag('a_callable_none a'))},
    ('add_request_method', 'property'): {'truth': b_flag('a_property a')},
    ('add_request_method', 'reify'): {'truth': b_flag('a_reify a')},
    ('add', 'urlparse(name).netloc'): {'truth': b_flag('a_name_is_url a')},
}
PHASES = {'PHASE0_CONFIG': 'phase0', 'PHASE1_CONFIG': 'phase1', 'PHASE2_CONFIG': 'phase2', 'PHASE3_CONFIG': 'phase3'}
RECEIVERS = ('self', 'config', 'info')
# helpers of the configurator that a directive may call while it is being declared: they return a value and neither
# declare nor execute actions nor change the configurator (get_routes_mapper / _get_static_info create the container
# on first use: the `decl` column of the declared table, watched by the monitor; _derive_view reads the registry as
# committed so far: add_notfound_view(append_slash=...), see NOTES.md)
CONFIG_HELPERS = ('introspectable', 'maybe_dotted', 'object_description', 'get_routes_mapper', '_get_static_info',
                  '_make_spec', '_derive_view')


def is_action_call(c):
    return isinstance(c, ast.Call) and isinstance(c.func, ast.Attribute) and c.func.attr == 'action' \
        and isinstance(c.func.value, ast.Name) and c.func.value.id in ('self', 'config')


class Emit:
    def __init__(self, meth, cls, node, translated):
        self.meth, self.cls, self.node = meth, cls, node
        self.translated = translated          # {method name on mixin: coq name}, {('info', name): coq name}
        self.sites = []
        for c in sorted([c for c in self.walk_own(node) if is_action_call(c)], key=lambda c: (c.lineno, c.col_offset)):
            self.sites.append(c)
        for d in ast.walk(node):
            if d is not node and isinstance(d, (ast.FunctionDef, ast.Lambda)):
                for c in ast.walk(d):
                    if is_action_call(c) or self.directive_of(c):
                        raise Problem('%s: a nested function declares actions (line %d)' % (meth, c.lineno))
        # fail closed on configurator STATE: the only methods of the configurator a directive may call at statement level
        # are the action call, translated directives and the helpers of CONFIG_HELPERS (table line: they neither declare
        # nor execute actions nor change the configurator); anything else (commit, include, begin, end, scan, ...) and
        # any store to an attribute of the configurator is outside the subset -- such a statement would otherwise be INERT
        for n in self.walk_own(node):
            if isinstance(n, ast.Call) and isinstance(n.func, ast.Attribute) and isinstance(n.func.value, ast.Name) \
                    and n.func.value.id in ('self', 'config'):
                if not (n.func.attr == 'action' or n.func.attr in CONFIG_HELPERS or self.directive_of(n)):
                    raise Problem('%s: call of %s.%s() at statement level is not in the primitive table (line %d)'
                                  % (meth, n.func.value.id, n.func.attr, n.lineno))
            if isinstance(n, (ast.Assign, ast.AugAssign, ast.AnnAssign, ast.Delete)):
                tg = n.targets if isinstance(n, (ast.Assign, ast.Delete)) else [n.target]
                for t in tg:
                    for x in ast.walk(t):
                        if isinstance(x, ast.Attribute) and isinstance(x.value, ast.Name) and x.value.id in ('self', 'config') \
                                and isinstance(x.ctx, (ast.Store, ast.Del)):
                            raise Problem('%s: store to %s.%s at statement level (line %d)'
                                          % (meth, x.value.id, x.attr, n.lineno))
        self.relevant = self.relevant_names()

    # ---- helpers
    def walk_own(self, node):
        """walk without descending into nested defs / lambdas"""
        todo = list(ast.iter_child_nodes(node))
        while todo:
            n = todo.pop()
            yield n
            if not isinstance(n, (ast.FunctionDef, ast.Lambda, ast.ClassDef)):
                todo.extend(ast.iter_child_nodes(n))

    def directive_of(self, c):
        """coq name of the translated directive a call invokes, or None"""
        if not (isinstance(c, ast.Call) and isinstance(c.func, ast.Attribute) and isinstance(c.func.value, ast.Name)):
            return None
        recv, attr = c.func.value.id, c.func.attr
        if recv in ('self', 'config') and attr in self.translated['mixin'] and attr != 'action':
            if self.cls == 'StaticURLInfo' and recv == 'self':
                return None
            return self.translated['mixin'][attr]
        if recv == 'info' and attr in self.translated['info']:
            return self.translated['info'][attr]
        return None

    def has_emission(self, node):
        nodes = [node] + list(self.walk_own(node))
        return any(is_action_call(n) or self.directive_of(n) for n in nodes)

    def has(self, node, kind):
        return any(isinstance(n, kind) for n in [node] + list(self.walk_own(node)))

    def assigned(self, node):
        out = set()
        for n in [node] + list(self.walk_own(node)):
            if isinstance(n, (ast.Assign, ast.AugAssign, ast.AnnAssign)):
                tg = n.targets if isinstance(n, ast.Assign) else [n.target]
                for t in tg:
                    for x in ast.walk(t):
                        if isinstance(x, ast.Name):
                            out.add(x.id)
            elif isinstance(n, (ast.For,)):
                for x in ast.walk(n.target):
                    if isinstance(x, ast.Name):
                        out.add(x.id)
            elif isinstance(n, ast.With):
                for it in n.items:
                    if it.optional_vars is not None:
                        for x in ast.walk(it.optional_vars):
                            if isinstance(x, ast.Name):
                                out.add(x.id)
        return out

    def relevant_names(self):
        rel = set()
        for n in self.walk_own(self.node):
            if isinstance(n, ast.If) and (self.has_emission(n) or self.has(n, ast.Return)):
                rel |= {x.id for x in ast.walk(n.test) if isinstance(x, ast.Name)}
        changed = True
        while changed:
            changed = False
            for n in self.walk_own(self.node):
                if isinstance(n, ast.Assign) and self.assigned(n) & rel:
                    new = {x.id for x in ast.walk(n.value) if isinstance(x, ast.Name)} - rel
                    # only boolean combinations propagate relevance (other right-hand sides go through the table)
                    if isinstance(n.value, (ast.BoolOp, ast.UnaryOp, ast.Name)) and new:
                        rel |= new
                        changed = True
        return rel - {'self', 'config'}

    # ---- expressions
    def leaf(self, e, env, what):
        if isinstance(e, ast.Name) and e.id in env and what in env[e.id]:
            return env[e.id][what]
        key = (self.meth, u(e))
        if key in ATOMS and what in ATOMS[key]:
            return ATOMS[key][what]
        raise Problem('%s: test %r is not in the primitive table (%s)' % (self.meth, u(e), what))

    def cond(self, e, env):
        if isinstance(e, ast.BoolOp):
            vals = [self.cond(v, env) for v in e.values]
            out = vals[0]
            for v in vals[1:]:
                out = b_and(out, v) if isinstance(e.op, ast.And) else b_or(out, v)
            return out
        if isinstance(e, ast.UnaryOp) and isinstance(e.op, ast.Not):
            return b_not(self.cond(e.operand, env))
        if isinstance(e, ast.Compare) and len(e.ops) == 1 and isinstance(e.comparators[0], ast.Constant) \
                and e.comparators[0].value is None and isinstance(e.ops[0], (ast.Is, ast.IsNot)):
            t = self.leaf(e.left, env, 'none')
            return t if isinstance(e.ops[0], ast.Is) else b_not(t)
        if isinstance(e, ast.Constant) and isinstance(e.value, bool):
            return b_const(e.value)
        return self.leaf(e, env, 'truth')

    # ---- the discriminator head, order, callable flag of an action call
    def single_assignment(self, name):
        asg = [n for n in self.walk_own(self.node) if isinstance(n, ast.Assign) and len(n.targets) == 1
               and isinstance(n.targets[0], ast.Name) and n.targets[0].id == name]
        if len(asg) != 1:
            raise Problem('%s: discriminator name %r is not bound exactly once' % (self.meth, name))
        return asg[0].value

    def head(self, d, depth=0):
        """-> (head text, deferred)"""
        if d is None or (isinstance(d, ast.Constant) and d.value is None):
            return 'None', False
        if isinstance(d, ast.Tuple) and d.elts:
            f = d.elts[0]
            if isinstance(f, ast.Constant) and isinstance(f.value, str):
                return f.value, False
            if isinstance(f, ast.BinOp) and isinstance(f.op, ast.Mod) and isinstance(f.left, ast.Constant) \
                    and isinstance(f.left.value, str):
                return f.left.value, False
            if isinstance(f, ast.Name) and f.id[:1] == 'I' and f.id[1:2].isupper():
                return f.id, False
        if isinstance(d, ast.Name) and d.id[:1] == 'I' and d.id[1:2].isupper():
            return d.id, False
        if isinstance(d, ast.Name) and depth == 0:
            v = self.single_assignment(d.id)
            if isinstance(v, ast.Call) and isinstance(v.func, ast.Name) and v.func.id == 'Deferred' and len(v.args) == 1 \
                    and isinstance(v.args[0], ast.Name):
                fn = [n for n in ast.walk(self.node) if isinstance(n, ast.FunctionDef) and n.name == v.args[0].id]
                if len(fn) != 1:
                    raise Problem('%s: deferred discriminator function not found' % self.meth)
                rets = [r for r in ast.walk(fn[0]) if isinstance(r, ast.Return)]
                if len(rets) != 1 or rets[0].value is None:
                    raise Problem('%s: deferred discriminator function must have one return' % self.meth)
                return self.head(rets[0].value, 1)[0], True
            return self.head(v, 1)
        raise Problem('%s: discriminator %r has no recognisable head' % (self.meth, u(d)))

    def call_record(self, c):
        k = self.sites.index(c)
        kws = {kw.arg: kw.value for kw in c.keywords}
        if None in kws:
            raise Problem('%s: **kwargs in an action call' % self.meth)
        d = c.args[0] if c.args else kws.get('discriminator')
        cb = c.args[1] if len(c.args) > 1 else kws.get('callable')
        o = c.args[4] if len(c.args) > 4 else kws.get('order')
        head, deferred = self.head(d)
        if o is None:
            order = 'default_order'
        elif isinstance(o, ast.Name) and o.id in PHASES:
            order = PHASES[o.id]
        elif isinstance(o, ast.Constant) and isinstance(o.value, int) and not isinstance(o.value, bool):
            order = '(%d)%%Z' % o.value
        elif isinstance(o, ast.UnaryOp) and isinstance(o.op, ast.USub) and isinstance(o.operand, ast.Constant) \
                and isinstance(o.operand.value, int):
            order = '(-%d)%%Z' % o.operand.value
        else:
            raise Problem('%s: order= argument %r is not in the table' % (self.meth, u(o)))
        has_cb = not (cb is None or (isinstance(cb, ast.Constant) and cb.value is None))
        return 'mkCall %s %s %s %s %s' % (coq_text('%s#%d' % (self.meth, k)), coq_text(head), order,
                                          'true' if deferred else 'false', 'true' if has_cb else 'false')

    # ---- statements (continuation passing).  state = (env, acc : coq term of the calls so far, known path facts)
    def block(self, stmts, env, acc, known, k):
        if not stmts:
            return k(env, acc, known)
        st, rest = stmts[0], stmts[1:]
        nxt = lambda e2, a2, kn2: self.block(rest, e2, a2, kn2, k)
        return self.stmt(st, env, acc, known, nxt)

    def stmt(self, st, env, acc, known, k):
        none = ('leaf', 'None')
        # expression statement / assignment / return whose value is an emission
        call = None
        if isinstance(st, ast.Expr) and isinstance(st.value, ast.Call):
            call = st.value
        elif isinstance(st, (ast.Assign, ast.Return)) and isinstance(st.value, ast.Call):
            call = st.value
        if call is not None and is_action_call(call):
            if isinstance(st, ast.Return):
                return ('leaf', 'Some (%s ++ [%s])' % (acc, self.call_record(call)))
            return k(env, '(%s ++ [%s])' % (acc, self.call_record(call)), known)
        if call is not None and self.directive_of(call):
            g = self.directive_of(call)
            inner_is_return = isinstance(st, ast.Return)
            v = 'l%d' % (acc.count('++') + acc.count('l'))
            cont = ('leaf', 'Some (%s ++ %s)' % (acc, v)) if inner_is_return else k(env, '(%s ++ %s)' % (acc, v), known)
            return ('leaf', 'match %s valid a with Some %s => %s | None => None end' % (g, v, render(cont, 6)))
        if isinstance(st, ast.Return):
            if st.value is not None and self.has_emission(st.value):
                raise Problem('%s: return value %r mixes an emission with other code' % (self.meth, u(st.value)))
            return ('leaf', 'Some %s' % acc)
        if isinstance(st, ast.Raise):
            return none
        if isinstance(st, (ast.FunctionDef, ast.ClassDef, ast.Pass, ast.Import, ast.ImportFrom, ast.Assert, ast.Delete,
                           ast.Global, ast.Nonlocal)):
            return k(env, acc, known)
        emits = self.has_emission(st)
        rets = self.has(st, ast.Return)
        raises = self.has(st, ast.Raise)
        touched = self.assigned(st) & self.relevant
        if not emits and not rets and not raises and not touched:
            return k(env, acc, known)                                   # INERT
        if not emits and not rets and raises and not touched and not isinstance(st, (ast.Assign, ast.Expr)):
            # GUARD: argument validation
            return decide(b_flag('valid'), known, lambda kn: k(env, acc, kn), lambda kn: none)
        if not emits and not rets and not raises and self.neutral(st):
            return k(env, acc, known)                                   # touches relevant names only neutrally
        if isinstance(st, ast.If):
            c = self.cond(st.test, env)
            return decide(c, known,
                          lambda kn: self.block(st.body, env, acc, kn, k),
                          lambda kn: self.block(st.orelse, env, acc, kn, k))
        if isinstance(st, ast.With):
            return self.block(st.body, env, acc, known, k)
        if isinstance(st, ast.Try) and not st.handlers and not st.orelse:
            return self.block(st.body + st.finalbody, env, acc, known, k)
        if isinstance(st, ast.Assign) and touched and not emits:
            return k(self.assign(st, env), acc, known)
        raise Problem('%s: statement outside the subset at line %d: %s' % (self.meth, st.lineno, u(st)[:70]))

    def neutral_assign(self, n):
        """assignments that keep every atom over the assigned name (table lines)"""
        if not (isinstance(n, ast.Assign) and len(n.targets) == 1 and isinstance(n.targets[0], ast.Name)):
            return False
        t, v = n.targets[0].id, n.value
        # v = self.maybe_dotted(v)
        if isinstance(v, ast.Call) and isinstance(v.func, ast.Attribute) and v.func.attr == 'maybe_dotted' \
                and len(v.args) == 1 and isinstance(v.args[0], ast.Name) and v.args[0].id == t:
            return True
        # v = v + '<literal>'   (a suffix does not change whether v is a URL / is None / is empty-or-not ... of the table)
        if isinstance(v, ast.BinOp) and isinstance(v.op, ast.Add) and isinstance(v.left, ast.Name) and v.left.id == t \
                and isinstance(v.right, ast.Constant) and isinstance(v.right.value, str):
            return True
        return False

    def neutral(self, st):
        for n in [st] + list(self.walk_own(st)):
            if isinstance(n, (ast.Assign, ast.AugAssign, ast.AnnAssign, ast.For, ast.With)) and self.assigned(n) & self.relevant:
                if isinstance(n, ast.Assign) and self.neutral_assign(n):
                    continue
                if isinstance(n, (ast.For, ast.With)):
                    # the loop / with statement itself binds a relevant name
                    own = set()
                    tg = [n.target] if isinstance(n, ast.For) else [i.optional_vars for i in n.items if i.optional_vars]
                    for t in tg:
                        own |= {x.id for x in ast.walk(t) if isinstance(x, ast.Name)}
                    if own & self.relevant:
                        return False
                    continue
                return False
        return True

    def assign(self, st, env):
        env = dict(env)
        v = st.value
        tg = st.targets[0] if len(st.targets) == 1 else None
        # v = self.maybe_dotted(v)
        if isinstance(tg, ast.Name) and isinstance(v, ast.Call) and isinstance(v.func, ast.Attribute) \
                and v.func.attr == 'maybe_dotted' and len(v.args) == 1 and isinstance(v.args[0], ast.Name) \
                and v.args[0].id == tg.id:
            return env
        # n, v = InstancePropertyHelper.make_property(v, ...)
        if isinstance(tg, ast.Tuple) and isinstance(v, ast.Call) and u(v.func).endswith('make_property') \
                and len(tg.elts) == 2 and all(isinstance(e, ast.Name) for e in tg.elts):
            names = [e.id for e in tg.elts]
            for n in names:
                if n in self.relevant:
                    if v.args and isinstance(v.args[0], ast.Name) and v.args[0].id == n:
                        env[n] = {'none': b_const(False), 'truth': b_const(True)}
                    else:
                        raise Problem('%s: make_property assigns relevant %r' % (self.meth, n))
            return env
        if isinstance(tg, ast.Name) and isinstance(v, (ast.BoolOp, ast.UnaryOp, ast.Name, ast.Compare)):
            env[tg.id] = {'truth': self.cond(v, env)}
            return env
        raise Problem('%s: assignment to the emission-relevant %s is not in the table: %s'
                      % (self.meth, sorted(self.assigned(st) & self.relevant), u(st)[:70]))

    def translate(self):
        body = self.block(self.node.body, {}, '[]', {}, lambda e, acc, kn: ('leaf', 'Some %s' % acc))
        text = render(body).replace('([] ++ ', '(').replace('[] ++ ', '')
        return 'Definition %s (valid : bool) (a : dargs) : option (list call) :=\n  %s.\n' % (
            coq_name(self.cls, self.meth), text)


def find_method(src, fn, cls, meth):
    tree = ast.parse(open(os.path.join(src, 'pyramid', 'config', fn)).read())
    for c in tree.body:
        if isinstance(c, ast.ClassDef) and c.name == cls:
            for f in c.body:
                if isinstance(f, ast.FunctionDef) and f.name == meth:
                    return f
    raise Problem('%s:%s.%s no longer exists' % (fn, cls, meth))


def translate_emissions(src):
    """-> (list of (coq name, text), problems)"""
    translated = {'mixin': {}, 'info': {}}
    for fn, cls, meths in EMIT_FUNCS:
        for m in meths:
            if cls == 'StaticURLInfo':
                translated['info'][m] = coq_name(cls, m)
            else:
                translated['mixin'][m] = coq_name(cls, m)
    out, problems, deps = {}, [], {}
    for fn, cls, meths in EMIT_FUNCS:
        for m in meths:
            name = coq_name(cls, m)
            try:
                e = Emit(m, cls, find_method(src, fn, cls, m), translated)
                out[name] = e.translate()
                deps[name] = [g for g in list(translated['mixin'].values()) + list(translated['info'].values())
                              if g != name and (g + ' valid a') in out[name]]
            except Problem as p:
                problems.append('translator: %s' % p)
            except Exception as p:      # pragma: no cover
                problems.append('translator: %s.%s: %r' % (cls, m, p))
    # callees first
    order, seen = [], set()

    def visit(n, stack=()):
        if n in seen or n not in out:
            return
        if n in stack:
            raise Problem('recursive directives %s' % (stack,))
        for d in deps.get(n, []):
            visit(d, stack + (n,))
        seen.add(n)
        order.append(n)
    try:
        for n in sorted(out):
            visit(n)
    except Problem as p:
        problems.append('translator: %s' % p)
    return [(n, out[n]) for n in order], problems


ALL_EMIT_NAMES = [coq_name(cls, m) for fn, cls, meths in EMIT_FUNCS for m in meths]


# every source function whose control flow is regenerated on every run (tools/coverage_map.py reads this); the closures
# nested in the directive methods are NOT translated: they are pinned in pins_closures.json
TRANSLATED = (['pyramid/config/%s:%s.%s' % (fn, cls, m) for fn, cls, meths in EMIT_FUNCS for m in meths] +
              ['pyramid/config/actions.py:ActionState.action', 'pyramid/config/actions.py:ActionConfiguratorMixin.action',
               'pyramid/config/actions.py:ActionConfiguratorMixin.commit'])


def translate_tree(src):
    """-> (coq text of all generated definitions, problems, summary)"""
    defs, problems = translate_emissions(src)
    have = dict(defs)
    fb = {}
    if os.path.exists(FALLBACK):
        with open(FALLBACK) as f:
            fb = json.load(f)
    missing = [n for n in ALL_EMIT_NAMES if n not in have]
    if missing:
        # fail closed: the stored translation of the reference text keeps the development building
        defs = [(n, fb.get('emit', {}).get(n, '')) for n in fb.get('order', ALL_EMIT_NAMES)]
        defs = [(n, have.get(n, t)) for n, t in defs]
    wdefs, wproblems = translate_world(src)
    problems += wproblems
    if wproblems:
        wdefs = fb.get('world', '')
    text = ''.join(t for _, t in defs) + wdefs
    summary = {'translated_directives': len(have), 'world_functions': 0 if wproblems else len(WORLD_FUNCS)}
    return text, problems, summary, defs, wdefs


# ------------------------------------------------------------------ (W) WORLD FUNCTIONS
"""
=== (W) state-passing translation over `world` (coq/Model/C08_base.v) ======================================
  every translated method is   gen_<f> (w : world) <modelled parameters> : world
  CONTROL FLOW as above (block / if decision trees / try-finally = sequence / substitution), plus
  for x in L: B ; rest      (fix loopN (l : list N) (w : world) {struct l} : world :=
                               match l with [] => <rest> | x :: t => loopN t <B> end) L w
  PARAMETERS (by name)      discriminator : disc ; callable : bool ("a callable is given"; default None = false) ;
                            order : Z (default literal) ; includepath : path (default () = []) ; info : N ;
                            introspectables : list N (default () = []) ; args, kw : erased ; **extra : the empty record
  PRIMITIVE TABLE
  self.autocommit / self.introspection / self.includepath / self.action_info     w_autocommit w / w_introspection w /
                                                                                 w_includepath w / w_info w
  self.introspector, introspector                 erased
  assert hash(discriminator)                      no effect (modelled discriminators are hashable)
  v = e with e erased; if <test on erased>: <assignments to erased>     no effect  (`if kw is None: kw = {}`)
  ()                                              []
  c is None / c is not None  (c the callable)     negb c / c
  self.begin() / self.end()                       w := p_begin w / p_end w
  undefer(d)                                      w := p_undefer w d
  c(*args, **kw)   (c the callable)               w := p_call w
  x.register(<erased>, i)   (x a loop element)    w := p_register w x i
  R = extra ; R.update(dict(k=v, ..))             R is the record {k: v}  (keys are the callee's parameter names)
  self.action_state.action(**R)                   gen_state_action w <R's fields in the callee's parameter order, the
                                                  callee's own defaults for absent keys>
  self.actions.append(R)                          w := p_append w (mkQ R.discriminator R.callable R.order R.includepath
                                                                       R.info R.introspectables)
  self.action_state.execute_actions(introspector=..)   w := p_execute w   (execute_actions itself: C04's model)
  self.action_state = ActionState()               w := p_fresh_state w
"""
WORLD_FUNCS = [('ActionState', 'action', 'gen_state_action'), ('ActionConfiguratorMixin', 'action', 'gen_cfg_action'),
               ('ActionConfiguratorMixin', 'commit', 'gen_commit')]
PTYPES = {'discriminator': 'disc', 'callable': 'bool', 'order': 'Z', 'includepath': 'path', 'info': 'N',
          'introspectables': 'list N', 'args': None, 'kw': None}
QFIELDS = ['discriminator', 'callable', 'order', 'includepath', 'info', 'introspectables']
SELF_ATTRS = {'autocommit': ('w_autocommit', 'bool'), 'introspection': ('w_introspection', 'bool'),
              'includepath': ('w_includepath', 'path'), 'action_info': ('w_info', 'N'), 'introspector': (None, None)}


class World:
    def __init__(self, cls, node, coqname, sigs):
        self.cls, self.node, self.name, self.sigs = cls, node, coqname, sigs
        self.loops = 0

    def default(self, pname, d):
        if d is None:
            return None
        if isinstance(d, ast.Constant) and d.value is None:
            return 'false' if pname == 'callable' else None
        if isinstance(d, ast.Constant) and isinstance(d.value, int) and PTYPES.get(pname) == 'Z':
            return '(%d)%%Z' % d.value
        if isinstance(d, ast.Tuple) and not d.elts:
            return '[]'
        raise Problem('%s: default of %s not in the table' % (self.name, pname))

    def signature(self):
        a = self.node.args
        names = [x.arg for x in a.args][1:]
        defaults = [None] * (len(names) - len(a.defaults)) + list(a.defaults)
        params = []
        for n, d in zip(names, defaults):
            if n not in PTYPES:
                raise Problem('%s: parameter %s is not in the table' % (self.name, n))
            if PTYPES[n] is not None:
                params.append((n, PTYPES[n], self.default(n, d)))
        return params, (a.kwarg.arg if a.kwarg else None)

    # values: ('v', coq, type) | ('erased',) | ('rec', {k: value})
    def expr(self, e, env, w):
        if isinstance(e, ast.Name):
            if e.id in env:
                return env[e.id]
            raise Problem('%s: unbound name %s' % (self.name, e.id))
        if isinstance(e, ast.Attribute) and isinstance(e.value, ast.Name) and e.value.id == 'self' and e.attr in SELF_ATTRS:
            f, t = SELF_ATTRS[e.attr]
            return ('erased',) if f is None else ('v', '%s %s' % (f, w), t)
        if isinstance(e, ast.Tuple) and not e.elts:
            return ('v', '[]', 'nil')
        if isinstance(e, ast.Dict) and not e.keys:
            return ('erased',)
        if isinstance(e, ast.Constant) and e.value is None:
            return ('v', 'None', 'none')
        raise Problem('%s: expression %r is not in the table' % (self.name, u(e)))

    def cond(self, e, env, w):
        if isinstance(e, ast.UnaryOp) and isinstance(e.op, ast.Not):
            return b_not(self.cond(e.operand, env, w))
        if isinstance(e, ast.BoolOp):
            vs = [self.cond(v, env, w) for v in e.values]
            out = vs[0]
            for v in vs[1:]:
                out = b_and(out, v) if isinstance(e.op, ast.And) else b_or(out, v)
            return out
        if isinstance(e, ast.Compare) and len(e.ops) == 1 and isinstance(e.comparators[0], ast.Constant) \
                and e.comparators[0].value is None and isinstance(e.ops[0], (ast.Is, ast.IsNot)):
            v = self.expr(e.left, env, w)
            if v[0] == 'v' and v[2] == 'bool' and isinstance(e.left, ast.Name) and e.left.id == 'callable':
                return b_flag(v[1]) if isinstance(e.ops[0], ast.IsNot) else b_not(b_flag(v[1]))
            if v[0] == 'erased':
                return ('erased',)
            raise Problem('%s: test %r is not in the table' % (self.name, u(e)))
        v = self.expr(e, env, w)
        if v[0] == 'v' and v[2] == 'bool':
            return b_flag(v[1])
        raise Problem('%s: test %r is not in the table' % (self.name, u(e)))

    def only_erased(self, stmts, env):
        for st in stmts:
            if not (isinstance(st, ast.Assign) and len(st.targets) == 1 and isinstance(st.targets[0], ast.Name)
                    and env.get(st.targets[0].id, ('erased',))[0] == 'erased'):
                return False
        return True

    def block(self, stmts, env, w, known, k):
        if not stmts:
            return k(env, w, known)
        st, rest = stmts[0], stmts[1:]
        return self.stmt(st, env, w, known, lambda e2, w2, kn2: self.block(rest, e2, w2, kn2, k))

    def stmt(self, st, env, w, known, k):
        if isinstance(st, ast.Assert):
            if u(st.test) == 'hash(discriminator)':
                return k(env, w, known)
            raise Problem('%s: assert %r' % (self.name, u(st.test)))
        if isinstance(st, ast.Expr) and isinstance(st.value, ast.Constant):
            return k(env, w, known)
        if isinstance(st, ast.If):
            c = self.cond(st.test, env, w)
            if c == ('erased',):
                if self.only_erased(st.body, env) and self.only_erased(st.orelse, env):
                    return k(env, w, known)
                raise Problem('%s: test on an unmodelled value guards modelled code: %s' % (self.name, u(st.test)))
            return decide(c, known, lambda kn: self.block(st.body, env, w, kn, k),
                          lambda kn: self.block(st.orelse, env, w, kn, k))
        if isinstance(st, ast.Try) and not st.handlers and not st.orelse:
            return self.block(st.body + st.finalbody, env, w, known, k)
        if isinstance(st, ast.For) and isinstance(st.target, ast.Name) and not st.orelse:
            it = self.expr(st.iter, env, w)
            if not (it[0] == 'v' and it[2] in ('list N', 'nil')):
                raise Problem('%s: loop over %r' % (self.name, u(st.iter)))
            self.loops += 1
            n = self.loops
            lw, lx, lt = 'w%d' % n, 'x%d' % n, 't%d' % n
            env2 = dict(env)
            env2[st.target.id] = ('v', lx, 'N')
            body = self.block(st.body, env2, lw, known, lambda e3, w3, kn3: ('leaf', 'loop%d %s (%s)' % (n, lt, w3)))
            rest = k(env, lw, known)
            return ('leaf', '(fix loop%d (l%d : list N) (%s : world) {struct l%d} : world :=\n      match l%d with [] => %s | %s :: %s => %s end) %s (%s)'
                    % (n, n, lw, n, n, render(rest, 8), lx, lt, render(body, 8), it[1], w))
        if isinstance(st, ast.Assign) and len(st.targets) == 1:
            tg, v = st.targets[0], st.value
            if isinstance(tg, ast.Attribute) and u(tg) == 'self.action_state' and u(v) == 'ActionState()':
                return k(env, 'p_fresh_state (%s)' % w, known)
            if isinstance(tg, ast.Name):
                env = dict(env)
                env[tg.id] = self.expr(v, env, w)
                if env[tg.id][0] == 'v' and env[tg.id][2] == 'nil':
                    env[tg.id] = ('v', '[]', 'list N')
                return k(env, w, known)
        if isinstance(st, ast.Expr) and isinstance(st.value, ast.Call):
            c = st.value
            f = u(c.func)
            if f == 'self.begin' and not c.args:
                return k(env, 'p_begin (%s)' % w, known)
            if f == 'self.end' and not c.args:
                return k(env, 'p_end (%s)' % w, known)
            if f == 'undefer' and len(c.args) == 1:
                d = self.expr(c.args[0], env, w)
                if d[0] == 'v' and d[2] == 'disc':
                    return k(env, 'p_undefer (%s) %s' % (w, d[1]), known)
            if isinstance(c.func, ast.Name) and c.func.id == 'callable' and env.get('callable', ('x',))[0] == 'v':
                return k(env, 'p_call (%s)' % w, known)
            if isinstance(c.func, ast.Attribute) and c.func.attr == 'register' and isinstance(c.func.value, ast.Name) \
                    and len(c.args) == 2:
                x = self.expr(c.func.value, env, w)
                i = self.expr(c.args[1], env, w)
                if x[0] == 'v' and x[2] == 'N' and i[0] == 'v' and i[2] == 'N' and self.expr(c.args[0], env, w)[0] == 'erased':
                    return k(env, 'p_register (%s) %s (%s)' % (w, x[1], i[1]), known)
            if isinstance(c.func, ast.Attribute) and c.func.attr == 'update' and isinstance(c.func.value, ast.Name) \
                    and env.get(c.func.value.id, ('x',))[0] == 'rec' and len(c.args) == 1 \
                    and isinstance(c.args[0], ast.Call) and u(c.args[0].func) == 'dict' and not c.args[0].args:
                rec = dict(env[c.func.value.id][1])
                for kw in c.args[0].keywords:
                    if kw.arg is None:
                        raise Problem('%s: ** inside dict(..)' % self.name)
                    rec[kw.arg] = self.expr(kw.value, env, w)
                env = dict(env)
                env[c.func.value.id] = ('rec', rec)
                return k(env, w, known)
            if f == 'self.action_state.action' and not c.args and len(c.keywords) == 1 and c.keywords[0].arg is None:
                r = self.expr(c.keywords[0].value, env, w)
                if r[0] != 'rec':
                    raise Problem('%s: **%s is not a record built here' % (self.name, u(c.keywords[0].value)))
                params, _ = self.sigs['gen_state_action']
                args = []
                for (pn, pt, pd) in params:
                    if pn in r[1] and r[1][pn][0] == 'v':
                        args.append('(%s)' % r[1][pn][1])
                    elif pn not in r[1] and pd is not None:
                        args.append(pd)
                    else:
                        raise Problem('%s: no value for the callee parameter %s' % (self.name, pn))
                extra = [x for x in r[1] if x not in [p[0] for p in params] and r[1][x][0] != 'erased']
                if extra:
                    raise Problem('%s: keys %s reach **extra of the callee' % (self.name, extra))
                return k(env, 'gen_state_action (%s) %s' % (w, ' '.join(args)), known)
            if f == 'self.actions.append' and len(c.args) == 1:
                r = self.expr(c.args[0], env, w)
                if r[0] == 'rec' and all(q in r[1] and r[1][q][0] == 'v' for q in QFIELDS):
                    return k(env, 'p_append (%s) (mkQ %s)' % (w, ' '.join('(%s)' % r[1][q][1] for q in QFIELDS)), known)
                raise Problem('%s: the appended action lacks one of %s' % (self.name, QFIELDS))
            if f == 'self.action_state.execute_actions' and not c.args and [kw.arg for kw in c.keywords] == ['introspector']:
                return k(env, 'p_execute (%s)' % w, known)
        raise Problem('%s: statement outside the subset at line %d: %s' % (self.name, st.lineno, u(st)[:70]))

    def translate(self):
        params, kwarg = self.signature()
        env = {n: ('v', n, t) for n, t, _ in params}
        for n, t in PTYPES.items():
            if t is None:
                env[n] = ('erased',)
        if kwarg:
            env[kwarg] = ('rec', {})
        body = self.block(self.node.body, env, 'w', {}, lambda e, w, kn: ('leaf', w))
        binders = ''.join(' (%s : %s)' % (n, t) for n, t, _ in params)
        return 'Definition %s (w : world)%s : world :=\n  %s.\n' % (self.name, binders, render(body))


def translate_world(src):
    problems, texts = [], []
    try:
        tree = ast.parse(open(os.path.join(src, 'pyramid', 'config', 'actions.py')).read())
        nodes = {}
        for c in tree.body:
            if isinstance(c, ast.ClassDef):
                for f in c.body:
                    if isinstance(f, ast.FunctionDef):
                        nodes[(c.name, f.name)] = f
        sigs = {}
        ws = []
        for cls, meth, name in WORLD_FUNCS:
            if (cls, meth) not in nodes:
                raise Problem('%s.%s no longer exists' % (cls, meth))
            wobj = World(cls, nodes[(cls, meth)], name, sigs)
            sigs[name] = wobj.signature()
            ws.append(wobj)
        for wobj in ws:
            texts.append(wobj.translate())
    except Problem as p:
        problems.append('translator: %s' % p)
    except Exception as p:      # pragma: no cover
        problems.append('translator (world functions): %r' % p)
    return ''.join(texts), problems


if __name__ == '__main__':
    import sys
    srcroot = sys.argv[1]
    text, problems, summary, defs, wdefs = translate_tree(srcroot)
    if '--write-fallback' in sys.argv:
        if problems:
            raise SystemExit('refusing to store a fallback with problems: %s' % problems)
        with open(FALLBACK, 'w') as f:
            json.dump({'order': [n for n, _ in defs], 'emit': dict(defs), 'world': wdefs}, f, indent=1)
    print(text)
    print(problems, summary)
