"""The multiview order of a view statement, mirrored from PredicateList.make with the REGENERATED default predicate
list and the REGENERATED weight expression: order = (MAX_ORDER - OR of weights) // (number of predicates + 1),
weight of the predicate at position n of the list = <expr extracted from `weights.append(...)`>."""
MAX_ORDER = 1 << 30
DEFAULT_PREDS = ['xhr', 'request_method', 'path_info', 'request_param', 'header', 'accept', 'containment', 'request_type',
                 'match_param', 'physical_path', 'is_authenticated', 'effective_principals', 'custom']
STATE = {'preds': list(DEFAULT_PREDS), 'weights': [1 << (n + 1) for n in range(24)]}

KINDS = (('xhr', 'xhr'), ('method', 'request_method'), ('param', 'request_param'), ('header', 'header'),
         ('accept', 'accept'), ('vp', 'vp'), ('vq', 'vq'))


def pred_kinds(st):
    return tuple(k for k, _ in KINDS if st.get(k) is not None)


def view_order(st, customs, reference=False):
    """reference=True: the documented scheme (default predicate list, weight 2**(n+1)), used by the generator to keep
    unintended ties out and by classify(); reference=False: what the code under check computes (regenerated list and
    weight expression), used for the model."""
    names = list(DEFAULT_PREDS if reference else STATE['preds']) + list(customs)
    score, n = 0, 0
    for k, pname in KINDS:
        if st.get(k) is not None and pname in names:
            score |= (1 << (names.index(pname) + 1)) if reference else STATE['weights'][names.index(pname)]
            n += 1
    return (MAX_ORDER - score) // (n + 1)
