"""Generator of C08 cases: a conflict-free program over the directive families of the property,
k variants (permutation respecting only route/route, subscriber/subscriber, tween/tween order,
then a random include tree), and a probe set covering every view, 404 and 403."""

PATTERNS = [('/p/{x}', '/p/1'), ('/p/a', '/p/a'), ('/q', '/q'), ('/{y}/z', '/w/z'), ('/p/{x}/e', '/p/1/e')]
SEQ_KINDS = {'route': 'route', 'static': 'route', 'sub': 'sub', 'tween': 'tween'}


from .order import pred_kinds, view_order


def view_key(st):
    return (st.get('kind', 'view'), st.get('ctx'), st.get('name', ''), st.get('route'),
            st.get('method'), st.get('param'), st.get('vp'), st.get('vq'), st.get('xhr'), st.get('header'),
            st.get('accept'))


ALL_TRUE = [['X-Requested-With', 'XMLHttpRequest'], ['X-H', '1']]


V1, V2 = 'application/vnd.c08.v1+json', 'application/vnd.c08.v2+json'
ROOT_PREFIXES = ['api', 'api/', '/api/', '/api']
# kinds whose members sit in a TopologicalSorter and may carry an explicit constraint:
#   kind -> (key naming a member, constraint placing the member AFTER the named one in the listing the harness reads back,
#            constraint placing it BEFORE)
CONSTRAINED = {'vpred': ('name', 'more', 'less'), 'deriver': ('name', 'over', 'under'), 'tween': ('name', 'over', 'under'),
               'acceptorder': ('value', 'less', 'more')}


def ranks_of(S):
    """{statement id: position} for the members of containers in which SOME member carries an explicit constraint
    (then the generator chains all of them, so the position is fixed by the constraints alone); None for a kind
    whose constraints do not determine a total order (not generated: outside the model)"""
    out = {}
    for kind, (key, after, before) in CONSTRAINED.items():
        members = [s for s in S if s['k'] == kind and 'shadow_of' not in s]
        if not any(s.get(after) or s.get(before) for s in members):
            continue
        byname = {s[key]: s['id'] for s in members}
        edges = set()
        for s in members:
            if s.get(after) in byname:
                edges.add((byname[s[after]], s['id']))
            if s.get(before) in byname:
                edges.add((s['id'], byname[s[before]]))
        todo = [s['id'] for s in members]
        pos = 0
        while todo:
            free = [i for i in todo if not any(b == i and a in todo for a, b in edges)]
            if len(free) != 1:
                return None                 # a cycle, or members the constraints leave unordered
            out[free[0]] = pos
            pos += 1
            todo.remove(free[0])
    return out


def wellformed(S):
    """every statement refers only to routes / predicates / deriver options that some statement declares"""
    routes = set(s['name'] for s in S if s['k'] == 'route')
    vpreds = set(s['name'] for s in S if s['k'] == 'vpred')
    rpreds = set(s['name'] for s in S if s['k'] == 'rpred')
    derivs = set(s['name'] for s in S if s['k'] == 'deriver')
    for s in S:
        if s['k'] == 'view':
            if s.get('route') and s['route'] not in routes:
                return False
            if (s.get('vp') is not None and 'vp' not in vpreds) or (s.get('vq') is not None and 'vq' not in vpreds):
                return False
            if (s.get('dopt') is not None and 'dv' not in derivs) or (s.get('dopt2') is not None and 'dw' not in derivs):
                return False
        if s['k'] == 'route' and s.get('rp') is not None and 'rp' not in rpreds:
            return False
        if s['k'] in CONSTRAINED:
            key, after, before = CONSTRAINED[s['k']]
            names = set(x[key] for x in S if x['k'] == s['k'])
            builtin = ('application/json', 'text/plain') if s['k'] == 'acceptorder' else ()
            for c in (after, before):
                if s.get(c) is not None and s[c] not in names and s[c] not in builtin:
                    return False
    return ranks_of(S) is not None


def gen_program(rng, stream):
    """stream: 'main' (no predicate-order ties), 'tie', 'pred2', 'deriv2'"""
    S = []

    def add(**kw):
        S.append(kw)

    chance = lambda p: rng.random() < p
    nroutes = rng.choice([0, 1, 1, 2, 2, 3])
    pats = rng.sample(PATTERNS, nroutes)
    has_rpred = chance(0.3)
    routes = []
    for i, (pat, _) in enumerate(pats):
        st = dict(k='route', name='r%d' % i, pattern=pat)
        if chance(0.4):
            st['factory'] = True
        if chance(0.15):
            st['method'] = rng.choice(['GET', 'POST'])
        if has_rpred and chance(0.4):
            st['rp'] = '1'
        if chance(0.3):
            st['prefix'] = 1
        if chance(0.15):
            st['nones'] = 1                  # optional arguments passed explicitly as None
        routes.append(st['name'])
        S.append(st)
    if has_rpred:
        add(k='rpred', name='rp')
    if chance(0.6):
        add(k='policy')
    if chance(0.5):
        add(k='defperm', perm=rng.choice(['p1', 'p2']))
    if chance(0.3):
        add(k='csrf')
    if chance(0.4):
        add(k='rootf', ctx=rng.choice(['A', 'B']))
    if chance(0.45):
        add(k='sessf')
    if chance(0.3):
        add(k='csrfstore')        # default-phase writer read at REQUEST time by every CSRF-checked view
    if chance(0.2):
        add(k='respf')            # response factory: read at request time (request.response)
    if chance(0.3):
        add(k='reqf')
    rnames = []
    if chance(0.3):
        rnames.append(None)
    if chance(0.45):
        rnames.append('tagr')
    if chance(0.15):
        rnames.append('json')
    for n in rnames:
        add(k='renderer', name=n)
    has_vp = chance(0.5) or stream in ('pred2', 'constrained')
    cons = stream == 'constrained'

    def constrain(a, b, after, before):
        """chain two members: one of them names the other (either direction, on either statement)"""
        holder, other = (a, b) if chance(0.5) else (b, a)
        holder[after if chance(0.5) else before] = other.get('name', other.get('value'))
    if has_vp:
        pv = dict(k='vpred', name='vp')
        S.append(pv)
    if stream == 'pred2' or (cons and chance(0.7)):
        pq = dict(k='vpred', name='vq')
        S.append(pq)
        if cons:
            constrain(pv, pq, 'more', 'less')
    has_dv = chance(0.4) or stream == 'deriv2' or cons
    if has_dv:
        dv = dict(k='deriver', name='dv')
        S.append(dv)
    if stream == 'deriv2' or (cons and chance(0.6)):
        dw = dict(k='deriver', name='dw')
        S.append(dw)
        if cons:
            constrain(dv, dw, 'over', 'under')
    if cons and chance(0.7):
        # vendor media types chained among themselves and to a built-in type
        o1 = dict(k='acceptorder', value=V1, more='application/json')
        o2 = dict(k='acceptorder', value=V2)
        if chance(0.5):
            o2['more'] = V1
        else:
            o1['less'] = V2
        S += [o1, o2]
        if chance(0.5):
            # RE-DECLARATION of a name the container already holds (a default media type, committed by setup_registry):
            # legal (no conflict inside this commit), it replaces the member's own constraints only -- the constraints
            # OTHER members declared relative to it (o1: V1 before json) must survive in either statement order
            S.append(dict(k='acceptorder', value='application/json', more='text/plain'))
    has_mapper = chance(0.3)
    if has_mapper:
        add(k='mapper')
    if chance(0.3):
        add(k='static', name='st1')
    for n in rng.sample(['ext1', 'ext2', 'ext3'], rng.choice([0, 0, 1, 2])):
        add(k='reqm', name=n, mode=rng.choice(['method', 'property', 'reify']))
    for _ in range(rng.choice([0, 0, 1, 2, 3])):
        add(k='sub', ev=rng.choice(['req', 'req', 'resp']))
    tw = [dict(k='tween', name=n) for n in rng.sample(['a', 'b', 'c'], 2 if cons and chance(0.5) else rng.choice([0, 0, 1, 2]))]
    if cons and len(tw) == 2:
        constrain(tw[0], tw[1], 'over', 'under')
    S += tw
    for kind, p in (('notfound', 0.3), ('forbidden', 0.35), ('exc', 0.3)):
        if chance(p):
            add(k='view', kind=kind)
            if kind == 'notfound' and chance(0.4):
                S[-1]['aslash'] = True       # add_notfound_view(append_slash=True): the wrapped view is derived at the statement
                if chance(0.5):
                    # ... with a renderer NAME: the helper is bound at the statement, the factory looked up when it renders
                    S[-1]['renderer'] = rng.choice(['json', 'string'] + (['tagr'] if 'tagr' in rnames else []))
                    S[-1]['ret'] = 'dict'
    if chance(0.3):
        add(k='view', name='boom', ret='raise')
    # ordinary views
    seen = set()
    kinds_in_slot = {}
    nviews = rng.choice([2, 3, 3, 4, 5, 6])
    has_wrapper = chance(0.25)
    tries = 0
    views = []
    while len(views) < nviews and tries < 60:
        tries += 1
        st = dict(k='view', name=rng.choice(['', 'x', 'x', 'y']))
        r = rng.random()
        if routes and r < 0.45:
            st['route'] = rng.choice(routes)
        elif r > 0.993:
            st['route'] = 'zz'                      # a route nobody declares: ConfigurationError in every variant
        if chance(0.3):
            st['ctx'] = rng.choice(['A', 'B'])
        elif st['name'] == '' and chance(0.2):
            st['ctx'] = 'E'                         # context=IExceptionResponse: the slot of Pyramid's own default
                                                    # exception-response view (committed before the program starts)
        if chance(0.35):
            st['method'] = rng.choice(['GET', 'POST'])
        if chance(0.35):
            st['param'] = rng.choice(['a', 'b'])
        if (has_vp and chance(0.35)) or chance(0.01):
            st['vp'] = rng.choice(['1', '2'])
        if (stream == 'pred2' or (cons and any(x['k'] == 'vpred' and x['name'] == 'vq' for x in S))) and chance(0.5) \
                and 'vp' not in st:
            st['vq'] = rng.choice(['1', '2'])
        if chance(0.12):
            st['xhr'] = True
        if chance(0.12):
            st['header'] = 'X-H'
        if chance(0.12):
            st['accept'] = rng.choice(['text/html', 'application/json'])
        slot = (st.get('ctx'), st['name'], st.get('route'), st.get('accept'))
        if view_key(st) in seen:
            continue
        customs = (['vp'] if has_vp else []) + (['vq'] if any(x['k'] == 'vpred' and x['name'] == 'vq' for x in S) else [])
        if stream != 'tie' and stream != 'pred2' and view_order(st, customs, True) in kinds_in_slot.get(slot, set()):
            continue                                # equal multiview order in one slot = tie (known finding)
        seen.add(view_key(st))
        kinds_in_slot.setdefault(slot, set()).add(view_order(st, customs, True))
        if chance(0.45):
            st['perm'] = rng.choice(['p1', 'p1', 'p2', 'NOPERM'])
        r = rng.random()
        if r < 0.2:
            st['renderer'] = rng.choice(['json', 'string'])
            st['ret'] = 'dict'
        elif r < 0.4 and ('tagr' in rnames or chance(0.05)):
            st['renderer'] = 'tagr'
            st['ret'] = 'dict'
        elif r < 0.5 and (None in rnames or chance(0.1)):
            st['ret'] = 'dict'                      # relies on a default renderer
        if 'ret' not in st and (chance(0.5) if has_mapper else chance(0.05)):
            st['ret'] = 'mv'                        # written for the custom mapper's calling convention
        if chance(0.25):
            st['csrf'] = rng.choice([True, False])
        if (has_dv and chance(0.5)) or stream == 'deriv2':
            st['dopt'] = 't'
        if stream == 'deriv2' or (cons and any(x['k'] == 'deriver' and x['name'] == 'dw' for x in S) and chance(0.6)):
            st['dopt'] = 't'
            st['dopt2'] = 'u'
        if has_wrapper and chance(0.3) and st.get('ctx') != 'E':
            st['wrapper'] = 'wr'
        if chance(0.15):
            st['nones'] = 1
        views.append(st)
    evs = [v for v in views if v.get('ctx') == 'E' and not v.get('route')]
    if evs and chance(0.7):
        # the slot of the committed default exception-response view gets BOTH a predicate-less replacement and a
        # predicated member (in the order the shuffle gives them): replacement vs multiview branch of register()
        sib = dict(k='view', name='', ctx='E')
        if not any(pred_kinds(v) for v in evs):
            sib['method'] = 'POST'
        if view_key(sib) not in seen and not any(pred_kinds(v) == pred_kinds(sib) for v in evs):
            seen.add(view_key(sib))
            views.append(sib)
    if chance(0.15):
        # the 'this one for POST, that one for everything else' split: two views of one slot whose predicate VALUES differ
        # only by a not_() wrapper (method '!POST' = request_method=not_('POST')); they never hold together, and their
        # discriminators (phash) must differ
        m = rng.choice(['POST', 'GET'])
        views += [dict(k='view', name='n', method=m), dict(k='view', name='n', method='!' + m)]
    if has_wrapper and chance(0.9):
        views.append(dict(k='view', name='wr', ret='wrap'))      # (sometimes missing: ValueError at request time, in every variant)
    if stream == 'tie' and views:
        # two views of one slot with the same predicate kinds whose predicates can hold together
        base = dict(k='view', name='x', param='a')
        other = dict(k='view', name='x', param='b')
        views = [v for v in views if not (v['name'] == 'x' and v.get('route') is None and v.get('ctx') is None
                                          and pred_kinds(v) == ('param',))]
        views += [base, other]
    if stream == 'eqsize':
        # views of ONE slot whose predicate-kind sets differ but have the same size, all holding for one request:
        # which of them answers is decided by the predicate weights alone
        pool = ['xhr', 'method', 'param', 'header'] + (['vp'] if has_vp else [])
        vals = {'xhr': True, 'method': 'GET', 'param': 'a', 'header': 'X-H', 'vp': '1'}
        size = rng.choice([1, 1, 2, 2, 3])
        import itertools
        sets = list(itertools.combinations(pool, size))
        rng.shuffle(sets)
        views = [v for v in views if not (v['name'] == 'x' and v.get('route') is None and v.get('ctx') is None)]
        customs = ['vp'] if has_vp else []
        used = set()
        for ks in sets[:rng.choice([2, 2, 3])]:
            v = dict(k='view', name='x')
            for k in ks:
                v[k] = vals[k]
            if view_order(v, customs, True) in used:
                continue                            # (different kinds can still tie after the integer division)
            used.add(view_order(v, customs, True))
            views.append(v)
    if cons and any(x['k'] == 'acceptorder' for x in S):
        views = [v for v in views if not (v['name'] == 'api')]
        views += [dict(k='view', name='api', accept=V2), dict(k='view', name='api', accept=V1),
                  dict(k='view', name='api', accept='application/json')]
        if any(x['k'] == 'acceptorder' and x['value'] == 'application/json' for x in S):
            views.append(dict(k='view', name='api', accept='text/plain'))
    if stream == 'pred2' or (cons and any(x['k'] == 'vpred' and x['name'] == 'vq' for x in S)):
        views = [v for v in views if not (v['name'] == 'y' and v.get('route') is None and v.get('ctx') is None)]
        views += [dict(k='view', name='y', vp='1'), dict(k='view', name='y', vq='1')]
    S += views
    rng.shuffle(S)
    for i, st in enumerate(S):
        st['id'] = i
    return S


def seq_class(S):
    """{statement id: ordered container whose member order the variants must keep, or None}; members placed by
    explicit constraints are free to move"""
    ranked = ranks_of(S) or {}
    return {s['id']: (None if s['id'] in ranked else SEQ_KINDS.get(s['k'])) for s in S}


def respecting_shuffle(rng, S):
    ids = [s['id'] for s in S]
    perm = ids[:]
    rng.shuffle(perm)
    cls = seq_class(S)
    for c in ('route', 'sub', 'tween'):
        members = [i for i in ids if cls[i] == c]            # original relative order
        slots = [p for p, i in enumerate(perm) if cls[i] == c]
        for p, i in zip(slots, members):
            perm[p] = i
    return perm


def nest(rng, seq, depth=0):
    """random include tree whose depth-first flattening is [seq]"""
    if len(seq) <= 1 or depth >= 3:
        return list(seq)
    body = []
    i = 0
    while i < len(seq):
        r = rng.random()
        if r < 0.55:
            body.append(seq[i])
            i += 1
        else:
            n = rng.randint(1, max(1, min(len(seq) - i, 5)))
            d = {'inc': nest(rng, seq[i:i + n], depth + 1)}
            if rng.random() < 0.08:
                d['twice'] = 1          # the same callable included a second time: processSpec must skip it
            body.append(d)
            i += n
    return body


def probes_for(rng, S, rootprefix=None):
    rp = ('/' + rootprefix.strip('/')) if rootprefix and rootprefix.strip('/') else ''
    paths = ['/', '/x', '/y', '/nope', '/nope/deeper']
    for st in S:
        if st['k'] == 'route' and st['pattern'] in dict(PATTERNS):
            paths.append(rp + ('/pfx' if st.get('prefix') else '') + dict(PATTERNS)[st['pattern']])
        if st['k'] == 'static':
            paths += [rp + '/%s/hello.txt' % st['name'], rp + '/%s/missing.txt' % st['name']]
        if st['k'] == 'view' and st.get('name') == 'boom':
            paths.append('/boom')
        if st['k'] == 'view' and st.get('name') == 'api':
            paths.append('/api')
        if st['k'] == 'view' and st.get('name') == 'n':
            paths.append('/n')
    paths = sorted(set(paths))
    queries = ['', 'a=1', 'b=1', 'a=1&b=1&vp=*&vq=*&rp=1', 'vp=1&vq=1', 'vp=2&rp=1']
    has_store = any(st['k'] == 'csrfstore' for st in S)
    out = []
    for p in paths:
        out.append(['GET', p, '', None, None])
        out.append(['GET', p, 'a=1&b=1&vp=*&vq=*&rp=1', 'p1', None])
        out.append(['GET', p, 'a=1&b=1&vp=*&vq=*&rp=1', 'p1', None, ALL_TRUE])
        if p == '/api':
            for acc in ('%s, %s' % (V1, V2), '*/*', 'application/json, %s' % V1, '%s;q=0.9, %s;q=0.1' % ('application/json', V2),
                        'text/plain, application/json', 'text/plain, %s' % V1):
                out.append(['GET', p, '', 'p1', None, [['Accept', acc]]])
        if any(st.get('accept') for st in S):
            out.append(['GET', p, 'a=1&vp=*', 'p1', None, ALL_TRUE + [['Accept', 'application/json']]])
            out.append(['GET', p, '', 'p1', None, [['Accept', 'text/html;q=0.5, application/json']]])
        for _ in range(3):
            m = rng.choice(['GET', 'GET', 'POST'])
            out.append([m, p, rng.choice(queries), rng.choice([None, 'p1', 'p1', 'p2']),
                        rng.choice([None, 'tok', 'ctok'] if has_store else [None, 'tok']) if m == 'POST' else None])
        if has_store or any(st['k'] == 'csrf' or st.get('csrf') for st in S):
            out.append(['POST', p, 'a=1&b=1&vp=*&vq=*&rp=1', 'p1', 'tok'])
            out.append(['POST', p, 'a=1&b=1&vp=*&vq=*&rp=1', 'p1', 'ctok'])
    seen = []
    for p in out:
        if p not in seen:
            seen.append(p)
    return seen


SEQ_KINDS_DUMMY = None
SHADOWABLE = ('renderer', 'defperm', 'policy', 'rootf', 'sessf', 'reqf', 'reqm', 'view', 'route', 'vpred', 'deriver', 'tween')


def make_shadow(rng, st, new_id):
    """a statement with the same discriminator as [st] but another payload; it is only ever placed in an
    include nested below the configurator that issues [st], so [st] overrides it and it must leave no trace"""
    sh = dict(st, id=new_id, shadow_of=st['id'])
    if st['k'] == 'defperm':
        sh['perm'] = 'p2' if st['perm'] == 'p1' else 'p1'
    elif st['k'] == 'rootf':
        sh['ctx'] = 'B' if st.get('ctx', 'A') == 'A' else 'A'
    elif st['k'] == 'route':
        sh['pattern'] = '/shadow/' + st['name']
    elif st['k'] == 'view':
        if rng.random() < 0.5:
            sh['perm'] = 'p2' if st.get('perm') != 'p2' else 'p1'     # secured vs unsecured twin
        else:
            sh.pop('perm', None)
    return sh


def insert_shadows(rng, body, shadows):
    """shadows: {main id: shadow id}; each shadow goes into a fresh include below the list holding its main"""
    out = []
    for it in body:
        if isinstance(it, int):
            out.append(it)
        else:
            out.append(dict(it, inc=insert_shadows(rng, it['inc'], shadows)))
    for it in list(out):
        if isinstance(it, int) and it in shadows:
            inc = {'inc': [shadows[it]]}
            if rng.random() < 0.3:
                inc = {'inc': [inc]}
            out.insert(rng.randint(0, len(out)), inc)
    return out


def gen_case(rng, tier):
    r = rng.random()
    stream = ('main' if r < 0.52 else 'constrained' if r < 0.64 else 'override' if r < 0.78 else 'eqsize' if r < 0.88
              else 'tie' if r < 0.93 else 'pred2' if r < 0.97 else 'deriv2')
    S = gen_program(rng, 'main' if stream == 'override' else stream)
    k = 5 if tier == 'quick' else 8
    variants = [[s['id'] for s in S]]
    for j in range(1, k):
        perm = respecting_shuffle(rng, S) if j % 2 == 1 or j > 3 else [s['id'] for s in S]
        variants.append(add_prefixes(rng, nest(rng, perm), S) if j >= 2 else perm)
    rootprefix = rng.choice(ROOT_PREFIXES) if any(s['k'] in ('route', 'static') for s in S) and rng.random() < 0.2 else None
    probes = probes_for(rng, S, rootprefix)
    if stream == 'override':
        cands = [s for s in S if s['k'] in SHADOWABLE and not (s['k'] == 'view' and s.get('kind', 'view') != 'view')]
        rng.shuffle(cands)
        shadows = {}
        for st in cands[:rng.choice([1, 1, 2, 3])]:
            sh = make_shadow(rng, st, len(S))
            S.append(sh)
            shadows[st['id']] = sh['id']
        # variant 0 stays the program without any shadow: the overridden twins must leave no trace at all
        variants = [variants[0]] + [insert_shadows(rng, v, shadows) for v in variants[1:]]
        rp = ('/' + rootprefix.strip('/')) if rootprefix else ''
        probes += [['GET', rp + '/shadow/r0', '', None, None], ['GET', rp + '/shadow/r1', '', 'p1', None]]
    case = {'stream': stream, 'stmts': S, 'variants': variants, 'probes': probes}
    if rootprefix:
        case['rootprefix'] = rootprefix          # Configurator(route_prefix=...): handed on unnormalised to top-level statements
    if not wellformed(S):
        case['illformed'] = True        # deliberately refers to something undeclared: every variant must refuse it
    return case


def flatten(body):
    out = []
    for it in body:
        if isinstance(it, int):
            out.append(it)
        elif isinstance(it, dict):
            out += flatten(it['inc'])
    return out


def add_prefixes(rng, body, S, inside=False):
    """mark includes as made with route_prefix: allowed when every route of the subtree is a 'prefix' route (their
    bare pattern is then declared there) and no enclosing include has a prefix"""
    byid = {s['id']: s for s in S}
    out = []
    for it in body:
        if isinstance(it, dict):
            sub = flatten(it['inc'])
            routes = [byid[i] for i in sub if byid[i]['k'] in ('route', 'static')]
            ok = not inside and all(r['k'] == 'route' and r.get('prefix') for r in routes)
            if ok and (routes and rng.random() < 0.7 or rng.random() < 0.1):
                out.append(dict(it, inc=add_prefixes(rng, it['inc'], S, True), prefix=1))
            else:
                out.append(dict(it, inc=add_prefixes(rng, it['inc'], S, inside)))
        else:
            out.append(it)
    return out
