"""Facts for C08: shape pins + the regenerated directive table (every `self.action(` site of
config/*.py with its phase and deferred flag, the phase constants, the default of order=) +
the declared read/write table of tables.py, emitted as Coq definitions."""
import os
from harness.common import facts as F
from . import tables as T

HERE = os.path.dirname(os.path.abspath(__file__))


def _fams(l):
    return '[' + '; '.join(str(T.FAM[f]) for f in l) + ']%N'


CLOSURE_PINS = os.path.join(HERE, 'pins_closures.json')


def closure_shapes(src):
    """The action CALLABLES: for every translated directive method the shapes of its nested functions (`register`,
    `discrim_func`, ...) in the usual pin form {file: {'Class.method.inner': hash}}, but with the function's own name
    blanked inside the hash, and compared per enclosing method as a MULTISET of hashes -- so renaming a callable is
    harmless.  The translator only follows the statement-level code of the directives; what the callables do is
    described by the declared read/write table and watched by the registry monitor -- but the monitor only sees the
    registry, so their text is pinned as well."""
    import ast
    import hashlib
    from . import translate
    out = {}
    for fn, cls, meths in translate.EMIT_FUNCS:
        rel = 'pyramid/config/' + fn
        for m in meths:
            try:
                node = translate.find_method(src, fn, cls, m)
            except Exception:
                continue

            def walk(parent, prefix):
                for d in ast.iter_child_nodes(parent):
                    if isinstance(d, ast.FunctionDef):
                        c = F.strip_doc(d)
                        for x in ast.walk(c):
                            if isinstance(x, ast.FunctionDef) and x.name == d.name:
                                x.name = '_'
                        out.setdefault(rel, {})[prefix + d.name] = hashlib.sha1(ast.dump(c).encode()).hexdigest()[:16]
                        walk(d, prefix + d.name + '.')
                    elif not isinstance(d, ast.ClassDef):
                        walk(d, prefix)
            walk(node, '%s.%s.' % (cls, m))
    return out


def check_closures(src, problems):
    import json
    got = closure_shapes(src)
    try:
        with open(CLOSURE_PINS) as f:
            want = json.load(f)
    except OSError:
        problems.append('pins_closures.json missing')
        return

    def per_method(d):
        out = {}
        for rel, qs in d.items():
            for q, h in qs.items():
                out.setdefault((rel, '.'.join(q.split('.')[:2])), []).append(h)
        return {k: sorted(v) for k, v in out.items()}
    g, w = per_method(got), per_method(want)
    for k in sorted(set(g) | set(w)):
        if g.get(k) != w.get(k):
            problems.append('callables of %s:%s changed (nested function shapes %s -> %s): the declared read/write table and '
                            'the store model describe the previous text' % (k[0], k[1], w.get(k), g.get(k)))


RESIDUE_PINS = os.path.join(HERE, 'pins_residue.json')


def residue_shapes(src):
    """The STATEMENT-LEVEL RESIDUE of the translated directives.  The translator follows the control flow around the
    action calls and skips INERT statements (argument normalisation, pattern / spec / name computation, the values the
    callables later capture).  Those statements decide WHAT the actions do, so they are pinned: per directive the ordered
    list of (a) signature and decorators, (b) every simple statement outside nested functions, (c) the header expression
    of every compound statement -- without the nesting structure, so `elif` vs nested `else: if` and an extra `pass`
    stay harmless, while an added / removed / changed / moved statement (a `self.commit()`, a dropped `rstrip`) breaks the tie."""
    import ast
    import hashlib
    from . import translate
    out = {}
    for fn, cls, meths in translate.EMIT_FUNCS:
        rel = 'pyramid/config/' + fn
        for m in meths:
            try:
                node = F.strip_doc(translate.find_method(src, fn, cls, m)).body[0]
            except Exception:
                continue
            # local names (assigned names, loop / with targets, nested function names -- not parameters) are numbered by
            # first appearance, so renaming a local or a callable stays harmless
            params = {a.arg for a in node.args.args + node.args.kwonlyargs + node.args.posonlyargs}
            params |= {a.arg for a in (node.args.vararg, node.args.kwarg) if a is not None}
            local = {}
            own = []
            todo = list(node.body)
            while todo:
                n = todo.pop(0)
                own.append(n)
                if isinstance(n, (ast.FunctionDef, ast.AsyncFunctionDef, ast.ClassDef)):
                    if n.name not in params:
                        local.setdefault(n.name, None)
                    continue
                todo[0:0] = list(ast.iter_child_nodes(n))
            for n in own:
                if isinstance(n, ast.Name) and isinstance(n.ctx, ast.Store) and n.id not in params:
                    local.setdefault(n.id, None)
            order = []
            for n in own:
                nm = n.name if isinstance(n, (ast.FunctionDef, ast.AsyncFunctionDef, ast.ClassDef)) else \
                    (n.id if isinstance(n, ast.Name) else None)
                if nm in local and nm not in order:
                    order.append(nm)
            for n in own:
                if isinstance(n, ast.Name) and n.id in local:
                    n.id = 'L%d' % order.index(n.id)
            items = ['sig:' + ast.dump(node.args)] + ['dec:' + ast.dump(d) for d in node.decorator_list]

            def walk(stmts):
                for st in stmts:
                    if isinstance(st, (ast.FunctionDef, ast.AsyncFunctionDef, ast.ClassDef)):
                        items.append('def')            # bodies: pins_closures.json
                    elif isinstance(st, ast.Pass):
                        continue
                    elif isinstance(st, ast.If):
                        items.append('if:' + ast.dump(st.test))
                        walk(st.body)
                        walk(st.orelse)
                    elif isinstance(st, (ast.For, ast.AsyncFor)):
                        items.append('for:' + ast.dump(st.target) + ast.dump(st.iter))
                        walk(st.body)
                        walk(st.orelse)
                    elif isinstance(st, ast.While):
                        items.append('while:' + ast.dump(st.test))
                        walk(st.body)
                        walk(st.orelse)
                    elif isinstance(st, (ast.With, ast.AsyncWith)):
                        items.append('with:' + ''.join(ast.dump(i) for i in st.items))
                        walk(st.body)
                    elif isinstance(st, ast.Try):
                        items.append('try')
                        walk(st.body)
                        for h in st.handlers:
                            items.append('except:' + (ast.dump(h.type) if h.type is not None else '') + str(h.name))
                            walk(h.body)
                        items.append('else')
                        walk(st.orelse)
                        items.append('finally')
                        walk(st.finalbody)
                    else:
                        items.append(ast.dump(st))
            walk(node.body)
            out.setdefault(rel, {})['%s.%s' % (cls, m)] = hashlib.sha1('\n'.join(items).encode()).hexdigest()[:16]
    return out


def check_residue(src, problems):
    import json
    got = residue_shapes(src)
    try:
        with open(RESIDUE_PINS) as f:
            want = json.load(f)
    except OSError:
        problems.append('pins_residue.json missing')
        return
    for rel in sorted(set(got) | set(want)):
        for q in sorted(set(got.get(rel, {})) | set(want.get(rel, {}))):
            if got.get(rel, {}).get(q) != want.get(rel, {}).get(q):
                problems.append('statement-level residue of the translated directive %s:%s changed (%s -> %s): the statements '
                                'the translator skips as inert (argument handling, the values the action callables capture) '
                                'are not what the model was written against'
                                % (rel, q, want.get(rel, {}).get(q), got.get(rel, {}).get(q)))


# class bodies and module constants the model relies on (value facts, fail-closed)
CLASS_FACTS = {
    ('config/__init__.py', 'Configurator'): {
        'bases': ['ActionConfiguratorMixin', 'PredicateConfiguratorMixin', 'TestingConfiguratorMixin', 'TweensConfiguratorMixin',
                  'SecurityConfiguratorMixin', 'ViewsConfiguratorMixin', 'RoutesConfiguratorMixin', 'ZCAConfiguratorMixin',
                  'I18NConfiguratorMixin', 'RenderingConfiguratorMixin', 'AssetsConfiguratorMixin', 'SettingsConfiguratorMixin',
                  'FactoriesConfiguratorMixin', 'AdaptersConfiguratorMixin'],
        # the root configurator's include chain is empty, no action info / base path before an include
        'attrs': {'includepath': '()', '_ainfo': 'None', 'basepath': 'None', 'info': "''",
                  'introspector': 'property(_get_introspector, _set_introspector, _del_introspector)'}},
    ('config/actions.py', 'ActionConfiguratorMixin'): {
        'bases': [], 'attrs': {'action_state': 'property(_get_action_state, _set_action_state)', '_ctx': 'action_state'}},
    ('config/views.py', 'ViewsConfiguratorMixin'): {
        'bases': None, 'attrs': {'set_forbidden_view': 'add_forbidden_view', 'set_notfound_view': 'add_notfound_view'}},
}


def check_class_facts(src, problems):
    import ast
    for (fn, cls), want in CLASS_FACTS.items():
        try:
            tree = ast.parse(open(os.path.join(src, 'pyramid', fn)).read())
            node = [c for c in tree.body if isinstance(c, ast.ClassDef) and c.name == cls][0]
        except Exception as e:
            problems.append('class %s:%s unreadable: %r' % (fn, cls, e))
            continue
        if want['bases'] is not None and [ast.unparse(b) for b in node.bases] != want['bases']:
            problems.append('base classes of %s changed: %s' % (cls, [ast.unparse(b) for b in node.bases]))
        attrs = {}
        for st in node.body:
            if isinstance(st, ast.Assign) and len(st.targets) == 1 and isinstance(st.targets[0], ast.Name):
                attrs[st.targets[0].id] = ast.unparse(st.value)
        for k, v in want['attrs'].items():
            if attrs.get(k) != v:
                problems.append('class attribute %s.%s changed: %r -> %r' % (cls, k, v, attrs.get(k)))
    try:
        m = F.Module(src, 'pyramid/config/predicates.py')
        v = T._eval_weight(m.const_expr('MAX_ORDER'), 0)      # restricted arithmetic evaluator (ints, <<, +, ...)
        from . import order
        if v != order.MAX_ORDER:
            problems.append('predicates.MAX_ORDER changed: %r (the order formula of harness/c08/order.py uses %r)' % (v, order.MAX_ORDER))
    except Exception as e:
        problems.append('predicates.MAX_ORDER unrecognised: %r' % e)


def facts(src):
    problems = []
    summary = F.check_shapes(src, os.path.join(HERE, 'pins.json'), problems)
    check_closures(src, problems)
    check_residue(src, problems)
    check_class_facts(src, problems)
    ex = T.extract(src, problems)
    sites = ex['sites']
    names = [s[0] for s in sites]
    # the set of sites must be the one the declared table was written for
    missing = [n for n in T.DECLARED if n not in names]
    extra = [n for n in names if n not in T.DECLARED]
    if missing:
        problems.append('action sites of the declared table no longer exist: %s' % missing)
    if extra:
        problems.append('new action sites without a declared read/write row: %s' % extra)
    for n, order, deferred in T.DEFAULT_SITES:
        got = [s for s in sites if s[0] == n]
        if got and (got[0][1], got[0][2]) != (order, deferred):
            problems.append('directive %s: phase/deferred changed (%s,%s) -> (%s,%s)'
                            % (n, order, deferred, got[0][1], got[0][2]))
    ph = ex['phases']
    preds = T.default_view_predicates(src, problems)
    out = [F.HEADER, 'Require Import Verif.Model.C04 Verif.Model.C08_base.\n']
    for i in range(4):
        out.append('Definition phase%d : Z := (%d)%%Z.\n' % (i, ph['PHASE%d_CONFIG' % i]))
    out.append('Definition default_order : Z := (%d)%%Z.\n' % ex['default_order'])
    out.append('(* every self.action( site: name, order= value, discriminator is Deferred *)\n')
    out.append('Definition sites : list (text * Z * bool) := [\n  ' + ';\n  '.join(
        '(%s, (%d)%%Z, %s)  (* %s  %s:%d  disc = %s *)' % (F.coq_text(s[0]), s[1], F.coq_bool(s[2]), s[0], s[4], s[5],
                                                          s[3].replace('*)', '* )').replace('(*', '( *'))
        for s in sites) + '].\n')
    out.append('Definition site_discs : list (text * text) := [\n  ' + ';\n  '.join(
        '(%s, %s)' % (F.coq_text(s[0]), F.coq_text(s[3])) for s in sites) + '].\n')
    out.append('(* DECLARED table (harness/c08/tables.py): name -> (discriminator reads, reads, writes (family, mode), '
               'touched at declaration) *)\n')
    rows = []
    for n in sorted(T.DECLARED):
        r = T.DECLARED[n]
        rows.append('(%s, (%s, %s, [%s], %s))  (* %s *)' % (
            F.coq_text(n), _fams(r['disc']), _fams(r['reads']),
            '; '.join('(%d, %d)%%N' % (T.FAM[f], T.MODE[m]) for f, m in r['writes']), _fams(r['decl']), n))
    out.append('Definition declared : list (text * (list N * list N * list (N * N) * list N)) := [\n  '
               + ';\n  '.join(rows) + '].\n')
    out.append('Definition default_view_preds : list text := %s.\n' % F.coq_texts(preds))
    weights, wexpr = T.predicate_weights(src, problems)
    if wexpr != '1 << n + 1':
        problems.append('PredicateList.make: weight expression changed \'1 << n + 1\' -> %r' % wexpr)
    out.append('(* weight of the predicate at position n of the predicate list: %s *)\n' % wexpr.replace('*)', '* )'))
    out.append('Definition pred_weights : list N := [%s]%%N.\n' % '; '.join(str(w) for w in weights))
    from . import translate
    gtext, tproblems, tsummary, _, _ = translate.translate_tree(src)
    problems += tproblems
    out.append('\n(* ---- regenerated from src/pyramid/config/*.py by harness/c08/translate.py: control flow translated\n'
               '   mechanically, leaves through the primitive table (see that file) ---- *)\n')
    out.append(gtext)
    summary.update(tsummary)
    summary.update({'phases': ph, 'default_order': ex['default_order'], 'n_sites': len(sites),
                    'sites': {s[0]: [s[1], s[2], s[3]] for s in sites}, 'default_view_predicates': preds,
                    'weight_expr': wexpr})
    return {'coq': ''.join(out), 'summary': summary, 'problems': problems, 'sites': sites, 'preds': preds, 'weights': weights}
