"""Tween factories addressable by dotted name (add_tween only accepts dotted names)."""


def _mk(tag):
    def factory(handler, registry):
        def tween(request):
            response = handler(request)
            response.headers['X-Tw'] = response.headers.get('X-Tw', '') + tag
            return response
        return tween
    factory.__name__ = 'tw_' + tag
    return factory


tw_a = _mk('a')
tw_b = _mk('b')
tw_c = _mk('c')
