"""C08 tables.

1. FAMILIES: the abstract key families of the store model and the registry keys
   (as the monitor names them) that belong to each.
2. DECLARED: the hand-declared read/write table, one row per `self.action(` site
   ("<function>#<n>", n-th site of the function in source order):
      disc   families read while the (deferred) discriminator is computed
      reads  families read while the action callable runs
      writes (family, mode) written by the callable; mode set | seq | acc
      decl   families touched while the directive is *declared* (eager; must be
             container references / harness-independent singletons only)
   The table is NOT trusted: (a) Coq checks phase discipline H2 over it together with the
   regenerated phases (Facts_ok-style lemma `table_ok_holds`), (b) every monitored run
   checks that the real reads/writes of every action are inside it.
3. extract(src): the REGENERATED part -- every action site with its order= argument,
   discriminator expression, and whether the discriminator is Deferred.
"""
import ast
import glob
import os

FAMILIES = [  # name, registry keys
    ('routes', ['U:IRoutesMapper']),
    ('riface', ['U:IRouteRequest']),
    ('view', ['A:view']),
    ('renderer', ['U:IRendererFactory']),
    ('policy', ['U:ISecurityPolicy']),
    ('defperm', ['U:IDefaultPermission']),
    ('csrfopts', ['U:IDefaultCSRFOptions']),
    ('rootf', ['U:IRootFactory', 'U:IDefaultRootFactory']),
    ('sessf', ['U:ISessionFactory']),
    ('reqf', ['U:IRequestFactory']),
    ('reqext', ['U:IRequestExtensions']),
    ('preds', ['U:IPredicateList']),
    ('derivers', ['U:IViewDerivers']),
    ('subs', ['S:handlers']),
    ('tweens', ['U:ITweens']),
    ('static', ['U:IStaticURLInfo']),
    ('mapper', ['U:IViewMapperFactory']),
    ('accept', ['U:IAcceptOrder']),
    ('authn', ['U:IAuthenticationPolicy']),
    ('authz', ['U:IAuthorizationPolicy']),
    ('respf', ['U:IResponseFactory']),
    ('execpol', ['U:IExecutionPolicy']),
    ('locale', ['U:ILocaleNegotiator']),
    ('transdirs', ['U:ITranslationDirectories']),
    ('csrfstore', ['U:ICSRFStoragePolicy']),
    ('overrides', ['U:IPackageOverrides']),
    ('respadapt', ['A:IResponse']),
    ('traverser', ['A:ITraverser']),
    ('resurl', ['A:IResourceURL']),
    # membership of an ordered container whose position is fixed by explicit constraints (weighs_more_than /
    # weighs_less_than, under / over): the TopologicalSorter is sorted by its READERS only, so such writes commute
    ('predsc', []),
    ('deriversc', []),
    ('tweensc', []),
    ('acceptc', []),
]
FAM = {n: i + 1 for i, (n, _) in enumerate(FAMILIES)}
FAM_OF_REGKEY = {rk: n for n, rks in FAMILIES for rk in rks}
MODE = {'set': 0, 'seq': 1, 'acc': 2}

_VIEW_READS = ['riface', 'renderer', 'defperm', 'policy', 'csrfopts', 'mapper', 'derivers', 'deriversc', 'accept', 'acceptc']


GUARDS = {'set_authentication_policy#0': ['policy']}
# add_notfound_view(append_slash=True) derives the wrapped view while the statement is declared (self._derive_view): it
# reads these families AS COMMITTED SO FAR.  Inside one commit nothing of the program is committed yet, so every
# ordering / nesting sees the defaults; programs with such a statement get no intermediate commit (NOTES.md).
EAGER_DERIVE = ['derivers', 'deriversc', 'mapper', 'renderer', 'defperm', 'policy', 'csrfopts', 'preds', 'predsc', 'accept', 'acceptc']


def R(disc=(), reads=(), writes=(), decl=()):
    return {'disc': list(disc), 'reads': list(reads), 'writes': list(writes), 'decl': list(decl)}


DECLARED = {
    'add_subscriber#0': R(reads=['preds', 'predsc'], writes=[('subs', 'seq')]),
    'add_response_adapter#0': R(writes=[('respadapt', 'set')]),
    'add_traverser#0': R(writes=[('traverser', 'set')]),
    'add_resource_url_adapter#0': R(writes=[('resurl', 'set')]),
    'override_asset#0': R(writes=[('overrides', 'seq')]),   # exercised by the census case
    'set_root_factory#0': R(writes=[('rootf', 'set')]),
    'set_session_factory#0': R(writes=[('sessf', 'set')]),
    'set_request_factory#0': R(writes=[('reqf', 'set')]),
    'set_response_factory#0': R(writes=[('respf', 'set')]),
    'add_request_method#0': R(),
    'add_request_method#1': R(writes=[('reqext', 'set')]),
    'add_request_method#2': R(writes=[('reqext', 'set')]),
    'set_execution_policy#0': R(writes=[('execpol', 'set')]),
    'set_locale_negotiator#0': R(writes=[('locale', 'set')]),
    'add_translation_dirs#0': R(writes=[('transdirs', 'seq')]),
    '_add_predicate#0': R(writes=[('preds', 'seq'), ('predsc', 'acc')]),
    'add_renderer#0': R(writes=[('renderer', 'set')]),
    'add_route#0': R(reads=['preds', 'predsc'], writes=[('routes', 'seq')], decl=['routes']),
    'add_route#1': R(writes=[('riface', 'set')]),
    'set_security_policy#0': R(writes=[('policy', 'set')]),
    # legacy API.  Its callable also reads ISecurityPolicy -- a key of its OWN phase -- only to refuse the
    # combination with set_security_policy (ConfigurationError): whether that refusal happens depends on the
    # order of the two statements.  Outside the directive families of the property; accepted by the monitor
    # as GUARDS, not part of the H2 table (see NOTES.md).
    'set_authentication_policy#0': R(reads=['authz'], writes=[('authn', 'set'), ('policy', 'set')]),
    'set_authorization_policy#0': R(writes=[('authz', 'set')]),
    'set_authorization_policy#1': R(reads=['authn']),
    'set_default_permission#0': R(writes=[('defperm', 'set')]),
    'add_permission#0': R(),
    'set_default_csrf_options#0': R(writes=[('csrfopts', 'set')]),
    'set_csrf_storage_policy#0': R(writes=[('csrfstore', 'set')]),
    '_add_tween#0': R(writes=[('tweens', 'seq'), ('tweensc', 'acc')], decl=['tweens']),
    'add_view#0': R(disc=['preds', 'predsc', 'derivers', 'deriversc'], reads=_VIEW_READS, writes=[('view', 'acc')]),
    'add_accept_view_order#0': R(writes=[('accept', 'seq'), ('acceptc', 'acc')]),
    'add_view_deriver#0': R(writes=[('derivers', 'seq'), ('deriversc', 'acc')]),
    'set_view_mapper#0': R(writes=[('mapper', 'set')]),
    'add#0': R(writes=[('static', 'seq')], decl=['static', 'routes']),
    'add_cache_buster#0': R(writes=[('static', 'seq')], decl=['static']),
}

# default rows (used when the extractor fails, so that the generated file still type-checks)
DEFAULT_SITES = [
    ['add_subscriber#0', 0, 0], ['add_response_adapter#0', 0, 0], ['add_traverser#0', 0, 0],
    ['add_resource_url_adapter#0', 0, 0], ['override_asset#0', -20, 0], ['set_root_factory#0', 0, 0],
    ['set_session_factory#0', 0, 0], ['set_request_factory#0', 0, 0], ['set_response_factory#0', 0, 0],
    ['add_request_method#0', 0, 0], ['add_request_method#1', 0, 0], ['add_request_method#2', 0, 0],
    ['set_execution_policy#0', 0, 0], ['set_locale_negotiator#0', 0, 0], ['add_translation_dirs#0', 0, 0],
    ['_add_predicate#0', -20, 0], ['add_renderer#0', -20, 0], ['add_route#0', 0, 0], ['add_route#1', -10, 0],
    ['set_security_policy#0', -10, 0], ['set_authentication_policy#0', -10, 0],
    ['set_authorization_policy#0', -20, 0], ['set_authorization_policy#1', 0, 0],
    ['set_default_permission#0', -20, 0], ['add_permission#0', 0, 0], ['set_default_csrf_options#0', -20, 0],
    ['set_csrf_storage_policy#0', 0, 0], ['_add_tween#0', 0, 0], ['add_view#0', 0, 1],
    ['add_accept_view_order#0', -20, 0], ['add_view_deriver#0', -20, 0], ['set_view_mapper#0', -20, 0],
    ['add#0', 0, 0], ['add_cache_buster#0', 0, 0],
]
DEFAULT_DISCS = {
    'add_route#0': "('route-connect', name)", 'add_route#1': "('route', name)",
    'add_renderer#0': '(IRendererFactory, name)', 'set_default_permission#0': 'IDefaultPermission',
    'add_view#0': "Deferred:('view', context, name, route_name, phash)",
}


def extract(src, problems):
    """-> {'phases': {name: int}, 'default_order': int, 'sites': [[name, order, deferred, disc_text, file, line]]}"""
    phases = {}
    try:
        tree = ast.parse(open(os.path.join(src, 'pyramid', 'interfaces.py')).read())
        for st in tree.body:
            if isinstance(st, ast.Assign) and len(st.targets) == 1 and isinstance(st.targets[0], ast.Name) \
                    and st.targets[0].id.startswith('PHASE') and st.targets[0].id.endswith('_CONFIG'):
                phases[st.targets[0].id] = ast.literal_eval(st.value)
    except Exception as e:
        problems.append('phase constants unrecognised: %r' % e)
    for n in ('PHASE0_CONFIG', 'PHASE1_CONFIG', 'PHASE2_CONFIG', 'PHASE3_CONFIG'):
        if not isinstance(phases.get(n), int):
            problems.append('phase constant %s is not an int literal' % n)
            phases[n] = {'PHASE0_CONFIG': -30, 'PHASE1_CONFIG': -20, 'PHASE2_CONFIG': -10, 'PHASE3_CONFIG': 0}[n]
    # default of the order= parameter of Configurator.action and ActionState.action
    default_order = None
    try:
        tree = ast.parse(open(os.path.join(src, 'pyramid', 'config', 'actions.py')).read())
        defaults = []
        for node in ast.walk(tree):
            if isinstance(node, ast.FunctionDef) and node.name == 'action':
                names = [a.arg for a in node.args.args]
                ds = node.args.defaults
                d = dict(zip(names[len(names) - len(ds):], ds))
                defaults.append(ast.literal_eval(d['order']))
        if len(defaults) != 2 or defaults[0] != defaults[1] or not isinstance(defaults[0], int):
            raise ValueError(defaults)
        default_order = defaults[0]
    except Exception as e:
        problems.append('default of order= in action() unrecognised: %r' % e)
        default_order = 0
    sites = []
    for fn in sorted(glob.glob(os.path.join(src, 'pyramid', 'config', '*.py'))):
        try:
            tree = ast.parse(open(fn).read())
        except SyntaxError as e:
            problems.append('cannot parse %s: %s' % (fn, e))
            continue
        for func in [n for n in ast.walk(tree) if isinstance(n, ast.FunctionDef)]:
            calls = []
            inner = set()
            for sub in ast.walk(func):
                if sub is not func and isinstance(sub, ast.FunctionDef):
                    for x in ast.walk(sub):
                        inner.add(id(x))
            for node in ast.walk(func):
                if id(node) in inner:
                    continue
                if isinstance(node, ast.Call) and isinstance(node.func, ast.Attribute) and node.func.attr == 'action' \
                        and isinstance(node.func.value, ast.Name) and node.func.value.id in ('self', 'config'):
                    calls.append(node)
            calls.sort(key=lambda c: (c.lineno, c.col_offset))
            deferred_names = {}
            for node in ast.walk(func):
                if isinstance(node, ast.Assign) and len(node.targets) == 1 and isinstance(node.targets[0], ast.Name) \
                        and isinstance(node.value, ast.Call) and isinstance(node.value.func, ast.Name) \
                        and node.value.func.id == 'Deferred':
                    deferred_names[node.targets[0].id] = node.value
            for k, c in enumerate(calls):
                name = '%s#%d' % (func.name, k)
                kws = {kw.arg: kw.value for kw in c.keywords}
                darg = c.args[0] if c.args else kws.get('discriminator')
                oarg = kws.get('order')
                if len(c.args) > 4:
                    oarg = c.args[4]
                if oarg is None:
                    order = default_order
                elif isinstance(oarg, ast.Name) and oarg.id in phases:
                    order = phases[oarg.id]
                else:
                    try:
                        order = ast.literal_eval(oarg)
                        if not isinstance(order, int):
                            raise ValueError
                    except Exception:
                        problems.append('%s: order= argument %s is not a phase constant' % (name, ast.unparse(oarg)))
                        order = default_order
                deferred = 0
                dtext = ast.unparse(darg) if darg is not None else 'None'
                if isinstance(darg, ast.Name) and darg.id in deferred_names:
                    deferred = 1
                    # the tuple returned by the deferred function
                    fnode = deferred_names[darg.id].args[0] if deferred_names[darg.id].args else None
                    ret = None
                    if isinstance(fnode, ast.Name):
                        for sub in ast.walk(func):
                            if isinstance(sub, ast.FunctionDef) and sub.name == fnode.id:
                                rets = [r for r in ast.walk(sub) if isinstance(r, ast.Return)]
                                if len(rets) == 1 and rets[0].value is not None:
                                    ret = ast.unparse(rets[0].value)
                    dtext = 'Deferred:' + (ret or '?')
                elif isinstance(darg, ast.Name):
                    # discriminator = <expr> assigned once in the function
                    asg = [n for n in ast.walk(func) if isinstance(n, ast.Assign) and len(n.targets) == 1
                           and isinstance(n.targets[0], ast.Name) and n.targets[0].id == darg.id]
                    if len(asg) == 1:
                        dtext = ast.unparse(asg[0].value)
                sites.append([name, order, deferred, dtext, os.path.basename(fn), c.lineno])
    return {'phases': phases, 'default_order': default_order, 'sites': sites}


def default_view_predicates(src, problems):
    """names registered by add_default_view_predicates, in order."""
    try:
        tree = ast.parse(open(os.path.join(src, 'pyramid', 'config', 'views.py')).read())
        for node in ast.walk(tree):
            if isinstance(node, ast.FunctionDef) and node.name == 'add_default_view_predicates':
                for sub in ast.walk(node):
                    if isinstance(sub, ast.For) and isinstance(sub.iter, ast.Tuple):
                        names = [ast.literal_eval(e.elts[0]) for e in sub.iter.elts]
                        if all(isinstance(n, str) for n in names):
                            return names
        raise ValueError('shape')
    except Exception as e:
        problems.append('add_default_view_predicates unrecognised: %r' % e)
        return ['xhr', 'request_method', 'path_info', 'request_param', 'header', 'accept', 'containment',
                'request_type', 'match_param', 'physical_path', 'is_authenticated', 'effective_principals', 'custom']


def _eval_weight(node, n):
    """restricted evaluation of the weight expression in the loop variable n"""
    if isinstance(node, ast.Constant) and isinstance(node.value, int):
        return node.value
    if isinstance(node, ast.Name) and node.id == 'n':
        return n
    if isinstance(node, ast.BinOp):
        a, b = _eval_weight(node.left, n), _eval_weight(node.right, n)
        ops = {ast.LShift: lambda: a << b, ast.Add: lambda: a + b, ast.Sub: lambda: a - b, ast.Mult: lambda: a * b,
               ast.BitOr: lambda: a | b, ast.Pow: lambda: a ** b}
        if type(node.op) in ops and 0 <= b < 64:
            return ops[type(node.op)]()
    raise ValueError('unsupported weight expression')


def predicate_weights(src, problems, count=24):
    """weight of the predicate at position n, from `weights.append(<expr>)` in PredicateList.make"""
    try:
        tree = ast.parse(open(os.path.join(src, 'pyramid', 'config', 'predicates.py')).read())
        found = []
        for cls in tree.body:
            if isinstance(cls, ast.ClassDef) and cls.name == 'PredicateList':
                for fn in cls.body:
                    if isinstance(fn, ast.FunctionDef) and fn.name == 'make':
                        for node in ast.walk(fn):
                            if isinstance(node, ast.Call) and isinstance(node.func, ast.Attribute) and node.func.attr == 'append' \
                                    and isinstance(node.func.value, ast.Name) and node.func.value.id == 'weights' and len(node.args) == 1:
                                found.append(node.args[0])
        if len(found) != 1:
            raise ValueError('%d weights.append sites' % len(found))
        ws = [_eval_weight(found[0], n) for n in range(count)]
        if any(w < 0 or w >= 1 << 40 for w in ws):
            raise ValueError('weights out of range')
        return ws, ast.unparse(found[0])
    except Exception as e:
        problems.append('predicate weight expression unrecognised: %r' % e)
        return [1 << (n + 1) for n in range(count)], '1 << n + 1'
