"""C12 facts extractor: shape pins + every data-like constant the model uses, read with ast from <src>.

Fail-closed: an unrecognised shape appends to `problems` and the default (the value in the repaired tree) is
emitted so that Gen/Facts_C12.v still type-checks."""
import ast
import json
import os
from harness.common import facts as F

HERE = os.path.dirname(os.path.abspath(__file__))


def _walk(node, typ):
    return [n for n in ast.walk(node) if isinstance(n, typ)]


def u_(n):
    try:
        return ast.unparse(n)
    except Exception:
        return ''


def _const(n):
    return n.value if isinstance(n, ast.Constant) else None


def _encoding_of_policy(fn, default_enc, where, problems):
    """both bytes_() calls inside strings_differ(...) -> 'utf8' | 'latin1' | None"""
    calls = [c for c in _walk(fn, ast.Call) if isinstance(c.func, ast.Name) and c.func.id == 'bytes_']
    if len(calls) != 2:
        problems.append('%s: expected two bytes_() calls, found %d' % (where, len(calls)))
        return None
    encs = []
    for c in calls:
        if len(c.args) == 1 and not c.keywords:
            e = default_enc
        elif len(c.args) == 2 and isinstance(_const(c.args[1]), str) and not c.keywords:
            e = c.args[1].value
        elif len(c.args) == 1 and len(c.keywords) == 1 and c.keywords[0].arg == 'encoding' \
                and isinstance(_const(c.keywords[0].value), str):
            e = c.keywords[0].value.value
        else:
            problems.append('%s: bytes_() call of unknown form' % where)
            return None
        e = e.lower().replace('_', '-')
        encs.append({'utf-8': 'utf8', 'utf8': 'utf8', 'latin-1': 'latin1', 'latin1': 'latin1',
                     'iso-8859-1': 'latin1'}.get(e))
    if encs[0] != encs[1] or encs[0] is None:
        problems.append('%s: token encodings %r not modelled' % (where, encs))
        return None
    return encs[0]


def masked_shape(node):
    """shape of a configuration directive with its introspection bookkeeping blanked: the statements
    `intr = self.introspectable(..)` and `intr[..] = ..` (C20's subject) are dropped, everything else counts"""
    node = F.strip_doc(node)

    class Drop(ast.NodeTransformer):
        def visit_Assign(self, st):
            tg = st.targets[0] if len(st.targets) == 1 else None
            if isinstance(tg, ast.Name) and tg.id == 'intr':
                return None
            if isinstance(tg, ast.Subscript) and isinstance(tg.value, ast.Name) and tg.value.id == 'intr':
                return None
            return self.generic_visit(st)
    node = Drop().visit(node)
    import hashlib
    return hashlib.sha1(ast.dump(node).encode()).hexdigest()[:16]


def compute_masked(src, spec):
    out = {}
    for rel, quals in spec.items():
        m = F.Module(src, rel)
        out[rel] = {q: masked_shape(m.find(q)) for q in quals}
    return out


def check_masked(src, problems, summary):
    with open(os.path.join(HERE, 'pins_masked.json')) as f:
        pins = json.load(f)
    for rel, quals in pins.items():
        try:
            m = F.Module(src, rel)
        except (OSError, SyntaxError) as e:
            problems.append('cannot parse %s: %s' % (rel, e))
            continue
        for q, want in quals.items():
            node = m.find(q)
            got = masked_shape(node) if node is not None else 'missing'
            summary['masked %s:%s' % (rel, q)] = got
            if got != want:
                problems.append('masked shape pin %s:%s changed (%s -> %s): apart from its introspectable bookkeeping the '
                                'directive is no longer the text the model follows' % (rel, q, want, got))


def class_level_facts(src, problems):
    """class bodies / decorators the model relies on and no function pin sees"""
    try:
        m = F.Module(src, 'pyramid/csrf.py')
        want = ast.dump(ast.parse('_token_factory = staticmethod(lambda: text_(uuid.uuid4().hex))').body[0])
        for cls in ('SessionCSRFStoragePolicy', 'CookieCSRFStoragePolicy'):
            c = m.find(cls)
            tf = [st for st in c.body if isinstance(st, ast.Assign) and any(
                isinstance(t, ast.Name) and t.id == '_token_factory' for t in st.targets)]
            if len(tf) != 1 or ast.dump(tf[0]) != want:
                problems.append('%s._token_factory is not `staticmethod(lambda: text_(uuid.uuid4().hex))`: the minted token '
                                'is assumed non-empty and unguessable' % cls)
        imp = [st for st in m.tree.body if isinstance(st, ast.Import) and any(a.name == 'uuid' and a.asname is None for a in st.names)]
        if len(imp) != 1 or any(isinstance(st, (ast.Assign, ast.FunctionDef, ast.ClassDef)) and
                                getattr(st, 'name', None) == 'uuid' for st in m.tree.body):
            problems.append('csrf.py: `import uuid` not found exactly once')
        for cls in ('LegacySessionCSRFStoragePolicy', 'SessionCSRFStoragePolicy', 'CookieCSRFStoragePolicy'):
            c = m.find(cls)
            if [ast.dump(d) for d in c.decorator_list] != [ast.dump(ast.parse('implementer(ICSRFStoragePolicy)').body[0].value)]:
                problems.append('%s: decorators are not exactly @implementer(ICSRFStoragePolicy)' % cls)
    except Exception as e:
        problems.append('csrf.py class-level facts: %r' % (e,))
    try:
        m = F.Module(src, 'pyramid/session.py')
        c = m.find('BaseCookieSessionFactory.CookieSession')
        body = {}
        for st in c.body:
            if isinstance(st, ast.Assign) and len(st.targets) == 1 and isinstance(st.targets[0], ast.Name):
                body.setdefault(st.targets[0].id, []).append(ast.dump(st.value))
        for name, expr in (('get', 'manage_accessed(dict.get)'), ('__setitem__', 'manage_changed(dict.__setitem__)')):
            if body.get(name) != [ast.dump(ast.parse(expr).body[0].value)]:
                problems.append('CookieSession.%s is not `%s` (the session policy reads / stores the token through it)' % (name, expr))
        if [ast.dump(b) for b in c.bases] != [ast.dump(ast.parse('dict').body[0].value)]:
            problems.append('CookieSession is no longer a plain dict subclass')
        for meth, deco in (('get_csrf_token', 'manage_accessed'), ('new_csrf_token', 'manage_changed')):
            f = m.find('BaseCookieSessionFactory.CookieSession.' + meth)
            if f is None or [ast.dump(d) for d in f.decorator_list] != [ast.dump(ast.parse(deco).body[0].value)]:
                problems.append('CookieSession.%s is not decorated with exactly @%s' % (meth, deco))
        outer = m.find('BaseCookieSessionFactory')
        tail = [st for st in outer.body if not isinstance(st, ast.ClassDef)
                and not (isinstance(st, ast.Expr) and isinstance(st.value, ast.Constant))]
        if [ast.dump(st) for st in tail] != [ast.dump(ast.parse('return CookieSession').body[0])] if False else \
                not (len(tail) == 1 and isinstance(tail[0], ast.Return) and isinstance(tail[0].value, ast.Name)
                     and tail[0].value.id == 'CookieSession'):
            problems.append('BaseCookieSessionFactory does more than define and return CookieSession')
    except Exception as e:
        problems.append('session.py class-level facts: %r' % (e,))


def extract(src):
    problems = []
    summary = F.check_shapes(src, os.path.join(HERE, 'pins.json'), problems)
    check_masked(src, problems, summary)
    class_level_facts(src, problems)
    v = {
        # defaults = the repaired tree
        'copies_trusted': True, 'catches_valueerror': True,
        'enc_utf8_legacy': True, 'enc_utf8_session': True, 'enc_utf8_cookie': True,
        'https_req': 'https', 'https_origin': 'https', 'origin_header': 'Origin', 'origin_sep': ' ',
        'origin_pick_last': True, 'null_origin': 'null', 'std_ports': ['443', '80'],
        'own_format': [(1, ''), (0, ':'), (2, '')], 'settings_key': 'pyramid.csrf_trusted_origins',
        'dot': '.',
        'builtin_require': False, 'builtin_token': 'csrf_token', 'builtin_header': 'X-CSRF-Token',
        'builtin_safe': ['GET', 'HEAD', 'OPTIONS', 'TRACE'], 'builtin_check_origin': True,
        'builtin_allow_no_origin': False, 'builtin_callback_none': True,
        'sdc_require': True, 'sdc_token': 'csrf_token', 'sdc_header': 'X-CSRF-Token',
        'sdc_safe': ['GET', 'HEAD', 'OPTIONS', 'TRACE'], 'sdc_check_origin': True,
        'sdc_allow_no_origin': False, 'sdc_callback_none': True,
        'token_arg_default': 'csrf_token', 'header_arg_default': 'X-CSRF-Token',
        'sdc_order': -20, 'policy_order': 0, 'view_order': 0,
        'sdc_positional_order_ok': True, 'view_option_plumbing_ok': True, 'special_views_opt_out': True,
    }

    # ---------------- csrf.py
    try:
        m = F.Module(src, 'pyramid/csrf.py')
        util = F.Module(src, 'pyramid/util.py')
        bdef = util.find('bytes_')
        default_enc = None
        try:
            names = [a.arg for a in bdef.args.args]
            default_enc = bdef.args.defaults[names.index('encoding') - (len(names) - len(bdef.args.defaults))].value
        except Exception:
            problems.append('util.bytes_: default encoding not found')
        for key, cls in (('enc_utf8_legacy', 'LegacySessionCSRFStoragePolicy'),
                         ('enc_utf8_session', 'SessionCSRFStoragePolicy'),
                         ('enc_utf8_cookie', 'CookieCSRFStoragePolicy')):
            fn = m.find(cls + '.check_csrf_token')
            if fn is None:
                problems.append('%s.check_csrf_token missing' % cls)
                continue
            e = _encoding_of_policy(fn, default_enc or 'latin-1', cls, problems)
            if e is not None:
                v[key] = (e == 'utf8')

        fn = m.find('check_csrf_origin')
        if fn is None:
            raise ValueError('check_csrf_origin missing')
        # scheme tests
        cmps = [c for c in _walk(fn, ast.Compare) if isinstance(c.left, ast.Attribute) and c.left.attr == 'scheme'
                and len(c.ops) == 1 and isinstance(c.ops[0], ast.NotEq) and isinstance(_const(c.comparators[0]), str)]
        by = {c.left.value.id: c.comparators[0].value for c in cmps if isinstance(c.left.value, ast.Name)}
        if set(by) == {'request', 'originp'} and len(cmps) == 2:
            v['https_req'], v['https_origin'] = by['request'], by['originp']
        else:
            problems.append('check_csrf_origin: the two `.scheme != <literal>` tests were not recognised')
        # request.headers.get("Origin")
        hg = [c for c in _walk(fn, ast.Call) if isinstance(c.func, ast.Attribute) and c.func.attr == 'get'
              and isinstance(c.func.value, ast.Attribute) and c.func.value.attr == 'headers']
        if len(hg) == 1 and len(hg[0].args) == 1 and isinstance(_const(hg[0].args[0]), str):
            v['origin_header'] = hg[0].args[0].value
        else:
            problems.append('check_csrf_origin: request.headers.get(<literal>) not recognised')
        # origin.split(' ')[-1]
        subs = [s for s in _walk(fn, ast.Subscript) if isinstance(s.value, ast.Call)
                and isinstance(s.value.func, ast.Attribute) and s.value.func.attr == 'split']
        ok = False
        if len(subs) == 1 and len(subs[0].value.args) == 1 and isinstance(_const(subs[0].value.args[0]), str) \
                and len(subs[0].value.args[0].value) == 1:
            try:
                idx = ast.literal_eval(subs[0].slice)
            except Exception:
                idx = None
            if idx in (-1, 0):
                v['origin_sep'] = subs[0].value.args[0].value
                v['origin_pick_last'] = (idx == -1)
                ok = True
        if not ok:
            problems.append('check_csrf_origin: origin.split(<char>)[-1] not recognised')
        # trusted_origins is None ... else copy
        ifs = [i for i in _walk(fn, ast.If) if isinstance(i.test, ast.Compare) and isinstance(i.test.left, ast.Name)
               and i.test.left.id == 'trusted_origins' and len(i.test.ops) == 1 and isinstance(i.test.ops[0], ast.Is)
               and _const(i.test.comparators[0]) is None and isinstance(i.test.comparators[0], ast.Constant)]
        if len(ifs) == 1:
            body = ifs[0].body
            sk = [c for c in _walk(ifs[0], ast.Call) if isinstance(c.func, ast.Attribute) and c.func.attr == 'get'
                  and c.args and isinstance(_const(c.args[0]), str)]
            asl = [c for c in _walk(ifs[0], ast.Call) if isinstance(c.func, ast.Name) and c.func.id == 'aslist']
            if len(sk) == 1 and len(asl) == 1 and len(body) == 1:
                v['settings_key'] = sk[0].args[0].value
            else:
                problems.append('check_csrf_origin: settings lookup not recognised')
            oe = ifs[0].orelse
            if not oe:
                v['copies_trusted'] = False
            elif len(oe) == 1 and ast.dump(oe[0]) == ast.dump(ast.parse('trusted_origins = list(trusted_origins)').body[0]):
                v['copies_trusted'] = True
            else:
                problems.append('check_csrf_origin: else-branch of `trusted_origins is None` not recognised')
        else:
            problems.append('check_csrf_origin: `if trusted_origins is None` not recognised')
        # every other assignment to / mutation of trusted_origins must be .append
        apps = [c for c in _walk(fn, ast.Call) if isinstance(c.func, ast.Attribute) and isinstance(c.func.value, ast.Name)
                and c.func.value.id == 'trusted_origins']
        if len(apps) != 2 or any(c.func.attr != 'append' for c in apps):
            problems.append('check_csrf_origin: expected exactly two trusted_origins.append calls')
        # host_port not in {...}
        pc = [c for c in _walk(fn, ast.Compare) if isinstance(c.left, ast.Attribute) and c.left.attr == 'host_port']
        if len(pc) == 1 and isinstance(pc[0].ops[0], ast.NotIn) and isinstance(pc[0].comparators[0], ast.Set) \
                and all(isinstance(_const(e), str) for e in pc[0].comparators[0].elts):
            v['std_ports'] = sorted(e.value for e in pc[0].comparators[0].elts)
        else:
            problems.append('check_csrf_origin: `request.host_port not in {..}` not recognised')
        # "{0.domain}:{0.host_port}".format(request)
        fm = [c for c in _walk(fn, ast.Call) if isinstance(c.func, ast.Attribute) and c.func.attr == 'format'
              and isinstance(_const(c.func.value), str)]
        ok = False
        if len(fm) == 1:
            import string
            pieces = []
            try:
                for lit, field, spec, conv in string.Formatter().parse(fm[0].func.value.value):
                    if lit:
                        pieces.append((0, lit))
                    if field is not None:
                        if spec or conv or field not in ('0.domain', '0.host_port'):
                            raise ValueError(field)
                        pieces.append((1 if field == '0.domain' else 2, ''))
                v['own_format'] = pieces
                ok = True
            except Exception:
                ok = False
        if not ok:
            problems.append('check_csrf_origin: own-host format string not recognised')
        # origin == 'null'
        nc = [c for c in _walk(fn, ast.Compare) if isinstance(c.left, ast.Name) and c.left.id == 'origin'
              and len(c.ops) == 1 and isinstance(c.ops[0], ast.Eq) and isinstance(_const(c.comparators[0]), str)]
        if len(nc) == 1:
            v['null_origin'] = nc[0].comparators[0].value
        else:
            problems.append("check_csrf_origin: `origin == 'null'` not recognised")
        # try: originp = urlparse(origin) except ValueError: return _fail(..)
        up = [a for a in _walk(fn, ast.Assign) if isinstance(a.value, ast.Call) and isinstance(a.value.func, ast.Name)
              and a.value.func.id == 'urlparse']
        if len(up) == 1:
            tries = [t for t in _walk(fn, ast.Try) if up[0] in t.body]
            if not tries:
                v['catches_valueerror'] = False
            elif len(tries) == 1 and len(tries[0].handlers) == 1 and isinstance(tries[0].handlers[0].type, ast.Name) \
                    and tries[0].handlers[0].type.id == 'ValueError' and len(tries[0].body) == 1 \
                    and not tries[0].orelse and not tries[0].finalbody \
                    and len(tries[0].handlers[0].body) == 1 and isinstance(tries[0].handlers[0].body[0], ast.Return) \
                    and isinstance(tries[0].handlers[0].body[0].value, ast.Call) \
                    and getattr(tries[0].handlers[0].body[0].value.func, 'id', None) == '_fail':
                v['catches_valueerror'] = True
            else:
                problems.append('check_csrf_origin: try/except around urlparse not recognised')
        else:
            problems.append('check_csrf_origin: `originp = urlparse(origin)` not recognised')

        # check_csrf_token signature defaults
        ct = m.find('check_csrf_token')
        names = [a.arg for a in ct.args.args]
        dfl = dict(zip(names[len(names) - len(ct.args.defaults):], ct.args.defaults))
        if names == ['request', 'token', 'header', 'raises'] and isinstance(_const(dfl.get('token')), str) \
                and isinstance(_const(dfl.get('header')), str):
            v['token_arg_default'], v['header_arg_default'] = dfl['token'].value, dfl['header'].value
        else:
            problems.append('check_csrf_token: signature not recognised')
    except Exception as e:
        problems.append('csrf.py facts: %r' % (e,))

    # ---------------- util.is_same_domain
    try:
        fn = F.Module(src, 'pyramid/util.py').find('is_same_domain')
        cs = [c for c in _walk(fn, ast.Compare) if isinstance(c.left, ast.Subscript)]
        if len(cs) == 1 and isinstance(c := cs[0], ast.Compare) and isinstance(c.ops[0], ast.Eq) \
                and ast.literal_eval(c.left.slice) == 0 and isinstance(_const(c.comparators[0]), str) \
                and len(c.comparators[0].value) == 1:
            v['dot'] = c.comparators[0].value
        else:
            problems.append('is_same_domain: `pattern[0] == "."` not recognised')
    except Exception as e:
        problems.append('is_same_domain facts: %r' % (e,))

    # ---------------- viewderivers.csrf_view built-in defaults
    try:
        fn = F.Module(src, 'pyramid/viewderivers.py').find('csrf_view')
        ifs = [i for i in fn.body if isinstance(i, ast.If) and ast.dump(i.test) ==
               ast.dump(ast.parse('defaults is None').body[0].value)]
        got = {}
        for st in ifs[0].body:
            got[st.targets[0].id] = st.value
        sm = got['safe_methods']
        if not (isinstance(sm, ast.Call) and sm.func.id == 'frozenset'):
            raise ValueError('safe_methods')
        v['builtin_safe'] = sorted(ast.literal_eval(sm.args[0]))
        for k, name, typ in (('builtin_require', 'default_val', bool), ('builtin_token', 'token', str),
                             ('builtin_header', 'header', str), ('builtin_check_origin', 'check_origin', bool),
                             ('builtin_allow_no_origin', 'allow_no_origin', bool)):
            val = ast.literal_eval(got[name])
            if not isinstance(val, typ):
                raise ValueError(name)
            v[k] = val
        v['builtin_callback_none'] = ast.literal_eval(got['callback']) is None
        if set(got) != {'default_val', 'token', 'header', 'safe_methods', 'check_origin', 'allow_no_origin', 'callback'}:
            raise ValueError('unexpected names %r' % sorted(got))
        if not v['builtin_callback_none']:
            raise ValueError('callback default is not None')
    except Exception as e:
        problems.append('csrf_view built-in defaults not recognised: %r' % (e,))

    # ---------------- config.set_default_csrf_options signature defaults
    try:
        fn = F.Module(src, 'pyramid/config/security.py').find('SecurityConfiguratorMixin.set_default_csrf_options')
        names = [a.arg for a in fn.args.args]
        dfl = {n: ast.literal_eval(d) for n, d in zip(names[len(names) - len(fn.args.defaults):], fn.args.defaults)}
        doc_order = ['self', 'require_csrf', 'token', 'header', 'safe_methods', 'check_origin', 'allow_no_origin', 'callback']
        if sorted(names) != sorted(doc_order) or names[0] != 'self':
            raise ValueError(names)
        # the documented POSITIONAL order of the public directive (callers may pass the options positionally)
        v['sdc_positional_order_ok'] = (names == doc_order) and not fn.args.kwonlyargs and not fn.args.vararg \
            and not getattr(fn.args, 'posonlyargs', [])
        if not v['sdc_positional_order_ok']:
            problems.append('set_default_csrf_options: positional order of the parameters is %r, documented %r'
                            % (names[1:], doc_order[1:]))
        v['sdc_require'] = bool(dfl['require_csrf']) if isinstance(dfl['require_csrf'], bool) else 1 / 0
        v['sdc_token'], v['sdc_header'] = dfl['token'], dfl['header']
        if not isinstance(v['sdc_token'], str) or not isinstance(v['sdc_header'], str):
            raise ValueError('token/header')
        v['sdc_safe'] = sorted(dfl['safe_methods'])
        v['sdc_check_origin'], v['sdc_allow_no_origin'] = dfl['check_origin'], dfl['allow_no_origin']
        if not isinstance(v['sdc_check_origin'], bool) or not isinstance(v['sdc_allow_no_origin'], bool):
            raise ValueError('bools')
        v['sdc_callback_none'] = dfl['callback'] is None
        if not v['sdc_callback_none']:
            raise ValueError('callback default is not None')
        # (the flow of the arguments into DefaultCSRFOptions and the registration are regenerated: translate_cfg.py)
    except Exception as e:
        problems.append('set_default_csrf_options defaults not recognised: %r' % (e,))

    # ---------------- how the require_csrf view option reaches csrf_view: add_view is wrapped by viewdefaults (class-level
    # __view_defaults__ merged under the call's keywords; the wrapper itself is shape-pinned), its parameter is never
    # rebound and is handed on by keyword to the deriver; _derive_view (pinned) puts it into info.options
    try:
        vm = F.Module(src, 'pyramid/config/views.py')
        av = vm.find('ViewsConfiguratorMixin.add_view')
        ok = [ast.dump(d) for d in av.decorator_list] == [ast.dump(ast.parse(x).body[0].value) for x in ('viewdefaults', 'action_method')]
        names = [a.arg for a in av.args.args]
        dfl = dict(zip(names[len(names) - len(av.args.defaults):], av.args.defaults))
        ok = ok and 'require_csrf' in dfl and isinstance(dfl['require_csrf'], ast.Constant) and dfl['require_csrf'].value is None
        stores = [n for n in _walk(av, ast.Name) if n.id == 'require_csrf' and isinstance(n.ctx, (ast.Store, ast.Del))]
        ok = ok and not stores
        passes = [c for c in _walk(av, ast.Call) if isinstance(c.func, ast.Attribute) and c.func.attr == '_derive_view'
                  and any(k.arg == 'require_csrf' and isinstance(k.value, ast.Name) and k.value.id == 'require_csrf'
                          for k in c.keywords)]
        ok = ok and len(passes) >= 1
        derive_calls = [c for c in _walk(av, ast.Call) if isinstance(c.func, ast.Attribute) and c.func.attr == '_derive_view']
        ok = ok and len(passes) == len(derive_calls)
        for nm in ('add_exception_view', 'add_notfound_view', 'add_forbidden_view'):
            f2 = vm.find('ViewsConfiguratorMixin.' + nm)
            ok = ok and [ast.dump(d) for d in f2.decorator_list][:1] == [ast.dump(ast.parse('viewdefaults').body[0].value)]
        v['view_option_plumbing_ok'] = bool(ok)
        if not ok:
            problems.append('config/views.py: add_view is no longer `@viewdefaults @action_method` with require_csrf=None handed '
                            'unchanged to every _derive_view(..) call')
    except Exception as e:
        v['view_option_plumbing_ok'] = False
        problems.append('config/views.py view-option plumbing not recognised: %r' % (e,))

    # ---------------- add_exception_view / add_notfound_view / add_forbidden_view opt out of CSRF checking themselves:
    # 'require_csrf' is refused as a caller's option, and the settings they build carry require_csrf=False and
    # exception_only=True and are handed to self.add_view(**..)
    try:
        vm = F.Module(src, 'pyramid/config/views.py')
        ok = True
        for nm in ('add_exception_view', 'add_notfound_view', 'add_forbidden_view'):
            f2 = vm.find('ViewsConfiguratorMixin.' + nm)
            loops = [l for l in _walk(f2, ast.For) if isinstance(l.iter, ast.Tuple)
                     and all(isinstance(_const(e), str) for e in l.iter.elts)
                     and 'require_csrf' in [e.value for e in l.iter.elts]
                     and any(isinstance(n, ast.Raise) for n in ast.walk(l))
                     and any(isinstance(n, ast.Compare) and isinstance(n.ops[0], ast.In) and isinstance(n.comparators[0], ast.Name)
                             and n.comparators[0].id == 'view_options' for n in ast.walk(l))]
            dicts = [c for c in _walk(f2, ast.Call) if isinstance(c.func, ast.Name) and c.func.id == 'dict'
                     and any(k.arg == 'require_csrf' for k in c.keywords)]
            good = (len(loops) == 1 and len(dicts) == 1
                    and all(_const(k.value) is False and isinstance(k.value, ast.Constant) for k in dicts[0].keywords if k.arg == 'require_csrf')
                    and any(k.arg == 'exception_only' and _const(k.value) is True for k in dicts[0].keywords))
            rets = [r for r in _walk(f2, ast.Return) if isinstance(r.value, ast.Call) and u_(r.value.func) == 'self.add_view'
                    and not r.value.args and len(r.value.keywords) == 1 and r.value.keywords[0].arg is None]
            calls = [c for c in _walk(f2, ast.Call) if u_(c.func) == 'self.add_view']
            good = good and len(rets) == 1 and len(calls) == 1
            # nothing may put another require_csrf into the settings afterwards
            stores = [n for n in _walk(f2, ast.Subscript) if isinstance(n.ctx, ast.Store) and _const(n.slice) == 'require_csrf']
            ok = ok and good and not stores
        v['special_views_opt_out'] = bool(ok)
        if not ok:
            problems.append('config/views.py: add_exception_view / add_notfound_view / add_forbidden_view no longer refuse '
                            'require_csrf and register with require_csrf=False, exception_only=True')
    except Exception as e:
        v['special_views_opt_out'] = False
        problems.append('config/views.py special views not recognised: %r' % (e,))

    # ---------------- execution order (`order=`) of the directives' actions relative to add_view's
    try:
        def action_order(fn, where, default, phases):
            calls = [c for c in _walk(fn, ast.Call) if isinstance(c.func, ast.Attribute) and c.func.attr == 'action'
                     and isinstance(c.func.value, ast.Name) and c.func.value.id == 'self']
            if len(calls) != 1:
                raise ValueError('%s: expected one self.action(...) call, found %d' % (where, len(calls)))
            kws = [k for k in calls[0].keywords if k.arg == 'order']
            if any(k.arg is None for k in calls[0].keywords) or len(calls[0].args) > 4:
                raise ValueError('%s: action call of unknown form' % where)
            if not kws:
                return default
            val = kws[0].value
            if isinstance(val, ast.Name) and val.id in phases:
                return phases[val.id]
            lit = ast.literal_eval(val)
            if not isinstance(lit, int) or isinstance(lit, bool):
                raise ValueError('%s: order is not an int' % where)
            return lit
        im = F.Module(src, 'pyramid/interfaces.py')
        phases = {n: im.const(n) for n in ('PHASE0_CONFIG', 'PHASE1_CONFIG', 'PHASE2_CONFIG', 'PHASE3_CONFIG')}
        if not all(isinstance(x, int) for x in phases.values()):
            raise ValueError('phase constants')
        am = F.Module(src, 'pyramid/config/actions.py')
        adef = am.find('ActionConfiguratorMixin.action')
        names = [a.arg for a in adef.args.args]
        default = ast.literal_eval(adef.args.defaults[names.index('order') - (len(names) - len(adef.args.defaults))])
        if not isinstance(default, int):
            raise ValueError('default order')
        sm = F.Module(src, 'pyramid/config/security.py')
        v['sdc_order'] = action_order(sm.find('SecurityConfiguratorMixin.set_default_csrf_options'),
                                      'set_default_csrf_options', default, phases)
        v['policy_order'] = action_order(sm.find('SecurityConfiguratorMixin.set_csrf_storage_policy'),
                                         'set_csrf_storage_policy', default, phases)
        v['view_order'] = action_order(F.Module(src, 'pyramid/config/views.py').find('ViewsConfiguratorMixin.add_view'),
                                       'add_view', default, phases)
    except Exception as e:
        problems.append('action orders not recognised: %r' % (e,))

    # ---------------- third-party constants of the running interpreter (urllib.parse, str.isspace)
    import urllib.parse as up
    try:
        v['url_c0'] = sorted(ord(c) for c in up._WHATWG_C0_CONTROL_OR_SPACE)
        v['url_unsafe'] = sorted(ord(c) for b in up._UNSAFE_URL_BYTES_TO_REMOVE for c in b)
        v['url_scheme_chars'] = sorted(ord(c) for c in up.scheme_chars)
        if any(len(b) != 1 for b in up._UNSAFE_URL_BYTES_TO_REMOVE):
            raise ValueError('multi-character unsafe sequence')
    except Exception as e:
        problems.append('urllib.parse constants not found: %r' % (e,))
        v['url_c0'] = list(range(33))
        v['url_unsafe'] = [9, 10, 13]
        v['url_scheme_chars'] = sorted(ord(c) for c in
                                       'abcdefghijklmnopqrstuvwxyzABCDEFGHIJKLMNOPQRSTUVWXYZ0123456789+-.')
    v['py_whitespace'] = [c for c in range(0x110000) if chr(c).isspace()]
    return v, summary, problems


LITS = {  # WSGI / WebOb literals (third party, hand-stated; validated by the correspondence run)
    'lit_HTTP_': 'HTTP_', 'lit_CONTENT_TYPE_hdr': 'CONTENT-TYPE', 'lit_CONTENT_LENGTH_hdr': 'CONTENT-LENGTH',
    'lit_CONTENT_TYPE': 'CONTENT_TYPE', 'lit_CONTENT_LENGTH': 'CONTENT_LENGTH',
    'lit_REQUEST_METHOD': 'REQUEST_METHOD', 'lit_url_scheme': 'wsgi.url_scheme', 'lit_SERVER_NAME': 'SERVER_NAME',
    'lit_SERVER_PORT': 'SERVER_PORT', 'lit_HTTP_HOST': 'HTTP_HOST', 'lit_HTTP_REFERER': 'HTTP_REFERER',
    'lit_https': 'https', 'lit_443': '443', 'lit_80': '80',
}


def emit(v):
    out = [F.HEADER]
    def nlist(l):
        return '[' + '; '.join(str(x) for x in l) + ']%N'
    for k in sorted(v):
        x = v[k]
        if k == 'own_format':
            out.append('Definition own_format : list (N * text) := [%s].\n' %
                       '; '.join('(%d%%N, %s)' % (t, F.coq_text(s)) for t, s in x))
        elif isinstance(x, bool):
            out.append('Definition %s : bool := %s.\n' % (k, F.coq_bool(x)))
        elif isinstance(x, int):
            out.append('Definition %s : Z := (%d)%%Z.\n' % (k, x))
        elif isinstance(x, str):
            out.append('Definition %s : text := %s.\n' % (k, F.coq_text(x)))
        elif isinstance(x, list) and all(isinstance(e, str) for e in x) and not k.startswith(('url_', 'py_')):
            out.append('Definition %s : list text := %s.\n' % (k, F.coq_texts(x)))
        else:
            out.append('Definition %s : list N := %s.\n' % (k, nlist(x)))
    out.append('(* WSGI / WebOb literals *)\n')
    for k in sorted(LITS):
        out.append('Definition %s : text := %s.\n' % (k, F.coq_text(LITS[k])))
    return ''.join(out)
