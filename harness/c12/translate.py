"""C12 translator: Python ast of the CSRF functions -> Gallina definitions gen_*, re-run on every check
(prop.facts) and written to coq/Gen/Facts_C12_prog.v (a second generated file: the generated program uses the
primitives of coq/Model/C12.v, which itself imports the regenerated constants of coq/Gen/Facts_C12.v).

Translated functions (source -> generated definition):
  util.is_same_domain                               gen_is_same_domain host pattern : bool
  util.strings_differ                               gen_strings_differ s1 s2 : bool            (int arithmetic: table below)
  session CookieSession.new/get_csrf_token          gen_sess_new / gen_sess_get r st : text * option text   (the legacy policy calls them)
  csrf.get_csrf_token / new_csrf_token (module API) gen_api_get / gen_api_new s r st : text * option text    (what a view body calls)
  config set_default_csrf_options + DefaultCSRFOptions.__init__   gen_directive_options d : options   (data flow; translate_cfg.py)
  csrf.{Legacy,Session,Cookie}*Policy.new/get/check gen_<pol>_new / _get : text * option text ; gen_<pol>_check : tverdict * option text
  csrf.check_csrf_token                             gen_check_csrf_token s token header raises r : tverdict
  csrf.check_csrf_origin (with its _fail closure)   gen_check_csrf_origin settings caller allow raises r : overdict
  viewderivers.csrf_view (incl. the inner wrapper)  gen_view_outcome c r : outcome

Fail-closed: a statement outside the SUBSET, an expression outside the PRIMITIVE TABLE, a typing surprise, a changed
module-level binding of a name the table relies on -> Problem; the caller records a broken tie and emits the stored
fallback text (harness/c12/gen_fallback.json = translation of the text the model was written against).

=== CONTROL FLOW (mechanical, continuation passing; nothing is looked up) ===================================
  block s1; s2; ...        the translation of s1 receives the translation of the rest as its continuation
  v = e                    substitution (no let is emitted; names of locals never occur in the output)
  if c: A else: B ; rest   decision tree over the ATOMS of c (`a and b`, `a or b`, `not a`, constants folded, a test
                           repeated on a path resolved, an `if` with equal branches disappears); each branch gets its own
                           copy of <rest> (so `elif` vs nested `if`, `if a: if b:` vs `if a and b:`, an assignment made in
                           both branches vs before the `if` give the same term)
  return e / raise E(..)   result constructor of the function's result type (table below)
  inner def f(..): B       a closure: `return f(a)` is B inlined with the parameter bound to a (check_csrf_origin._fail);
                           the view wrapper inside csrf_view is translated where it is defined; the cookie policy's
                           response callback is erased (table)
  try: v = urlparse(x)     match urlparse_m (r_v6 r) x with PUrl sc nl => <rest, v.scheme := sc, v.netloc := nl>
  except ValueError: H       | PValueError => <H> | PUnmodelled => raise-unmodelled end   (without try: PValueError => raise ValueError)
  calls that may raise     bytes_(x, enc) / a check_* call: a match around the statement that evaluates it, in evaluation order

=== PRIMITIVE TABLE (trusted: each line is a claim about Python / WebOb / Pyramid semantics) ================
  string literal "abc"           the list of its code points;  "" -> []
  x == y, x != y (str)           text_eqb x y / negated            x in {lits} / not in      mem_text x [lits sorted]
  not x, x (truth of a str)      is_empty x / negated               x in l (l a list of str)  mem_text x l
  x is None / x is not None      is_none x (option) ; on a path where it is false (or x is known truthy) x may be used as a
                                 str: or_empty x
  x.lower() lower x ; x[0] == "c" text_eqb (firstn 1 x) "c" ; x[1:] tl x ; x.endswith(y) endswith x y
  x.split("c")[-1]               last (split_on c x) []            text_(x)  x
  request.scheme / .method / .domain / .host_port / .referrer       req_scheme r / req_method r / req_domain r / req_host_port r / env_get lit_HTTP_REFERER r
  request.headers.get(h)         header_get h r : option            request.headers.get(h, "")   or_empty (header_get h r)
  request.POST.get(t, "")        or_empty (lookup_last t (r_post r))
  request.registry.settings.get("pyramid.csrf_trusted_origins", [])  settings   (exactly this key)
  aslist(x) aslist x ; list(x) x as a FRESH list ; l.append(e) l := l ++ [e] ONLY on a fresh list (else: mutation of a caller's list = Problem)
  "{0.domain}:{0.host_port}".format(request)   concatenation of the pieces
  urlparse(x) (see above) ; v.scheme / v.netloc
  any(f(..) for h in l)          existsb (fun h => ..) l
  is_same_domain(a, b)           gen_is_same_domain a b
  _fail message literals         "missing Origin or Referer." RMissing | "null does not match any trusted origins." RNull |
                                 "Origin could not be parsed." RParse | "Origin is insecure while host is secure." RInsecure |
                                 f"{..} does not match any trusted origins." RNoMatch
  check_csrf_origin: return True OPass ; return False (inside _fail) OFail reason ; raise BadCSRFOrigin(.. + reason) OFail reason
  check_csrf_token: return True TPass ; return False / raise BadCSRFToken(..) TFail
  request.registry.getUtility(ICSRFStoragePolicy) the policy ; policy.check_csrf_token(request, x)  fst (gen_policy_check s r (r_stored r) x)
                                 (dispatch on the configured policy class; emitted glue)
  policies: the held token is a state variable ST : option text
    request.session.get(self.key, None) ST ; request.session[self.key] = x  ST := Some x
    self.cookie_profile.bind(request).get_value()  ST ; request.cookies[self.cookie_name] = x  ST := Some x
    def set_cookie..; request.add_response_callback(set_cookie)   erased (delivery of the cookie: response_produced in the model)
    self._token_factory()        r_fresh r
    request.session.new_csrf_token()   r_fresh r, ST := Some (r_fresh r)      (pyramid.session, shape-pinned)
    request.session.get_csrf_token()   session_token ST (r_fresh r), ST := session_store ST (r_fresh r)   (pyramid.session, shape-pinned)
    self.get_csrf_token(request) / self.new_csrf_token(request)   the generated function of the same class, threading ST
    bytes_(x, 'utf-8') encode_tok true x ; bytes_(x) encode_tok false x : None = UnicodeEncodeError
    strings_differ(a, b)         strings_differ a b
  strings_differ (spec flag arith): int literal n  n : N ; len(b) length b (only compared: Nat.eqb) ; n += e  n := N.add n e, a truth
    value e added as b2n e (True = 1) ; compare_digest(a, b) bytes_eqb a b (hmac, binding checked) ; n != 0  negb (N.eqb n 0)
  session object (store 'sessobj', decorators must be exactly @manage_changed / @manage_accessed):
    self.get('_csrft_', None) ST ; self['_csrft_'] = x  ST := Some x (the same literal key in both) ;
    text_(binascii.hexlify(os.urandom(n))), n >= 16   r_fresh r ; self.new_csrf_token()  gen_sess_new r ST
    legacy policy: request.session.new_csrf_token() / .get_csrf_token()   gen_sess_new / gen_sess_get r ST
  module API (spec flag api): request.registry [.getUtility(ICSRFStoragePolicy)] (directly or through locals) the policy ;
    policy.get_csrf_token(request) / .new_csrf_token(request)   gen_policy_get / gen_policy_new s r ST (dispatch glue)
  csrf_view: info.options.get('require_csrf') c_explicit c (x is True: is_true, x is not False: negb is_false) ;
    info.registry.queryUtility(IDefaultCSRFOptions) registered_options c : option options ; defaults.<field> o_<field> ;
    info.exception_only c_exception_only c ; frozenset([lits]) the list ; callback is None / callback(request)  negb has-callback / r_cb r ;
    token or header  truthy ; view(context, request) Ran ;
    check_csrf_origin(request, raises=True, allow_no_origin=a)  OPass continue | OFail w BadOrigin w | ORaise e Raised e
    check_csrf_token(request, token, header, raises=True)       TPass continue | TFail BadToken | TRaise e Raised e
"""
import ast
import json
import os
import string

HERE = os.path.dirname(os.path.abspath(__file__))
FALLBACK = os.path.join(HERE, 'gen_fallback.json')

(TEXT, OPT, BOOL, REQ, LISTT, LISTOWN, OPTLIST, ERASED, REASON, VIEW, CLOSURE, POLICY, BOUND, SELF, INFO, OPTBOOL,
 OPTOPTS, CALLBACK, PARSED, BYTES, CTXT, VIEWFN, INT, NAT) = (
    'text', 'option text', 'bool', 'request', 'list text', 'list text (fresh)', 'option (list text)', 'erased', 'reason',
    'view', 'closure', 'policy', 'bound cookies', 'self', 'info', 'option bool', 'option options', 'callback', 'parsed url',
    'bytes', 'context', 'view function', 'int', 'length')
SESSION_KEY = '_csrft_'


class Problem(Exception):
    pass


def u(node):
    try:
        return ast.unparse(node)
    except Exception:
        return '<%s>' % type(node).__name__


# ------------------------------------------------------------------ terms
class Term:
    pass


class K(Term):
    def __init__(self, text):
        self.text = text

    def key(self):
        return ('K', self.text)


class A(Term):
    def __init__(self, fn, args):
        self.fn, self.args = fn, list(args)

    def key(self):
        return ('A', self.fn) + tuple(a.key() for a in self.args)


class If(Term):
    def __init__(self, atom, t, e):
        self.atom, self.t, self.e = atom, t, e

    def key(self):
        return ('If', self.atom.key(), self.t.key(), self.e.key())


class Match(Term):
    """match scrut with | pat_i => body_i end  (patterns are fixed strings of the table)"""

    def __init__(self, scrut, arms):
        self.scrut, self.arms = scrut, list(arms)

    def key(self):
        return ('Match', self.scrut.key()) + tuple((p, b.key()) for p, b in self.arms)


class Lam(Term):
    def __init__(self, var, body):
        self.var, self.body = var, body

    def key(self):
        return ('Lam', self.var, self.body.key())


def lit(s):
    return K('[' + '; '.join(str(ord(c)) for c in s) + ']') if s else K('(@nil N)')


def b_atom(t):
    return ('atom', t)


def b_not(b):
    if b[0] == 'const':
        return ('const', not b[1])
    if b[0] == 'not':
        return b[1]
    return ('not', b)


def implied(b, pol, out):
    k = b[0]
    if k == 'atom':
        out[b[1].key()] = pol
    elif k == 'not':
        implied(b[1], not pol, out)
    elif k == 'and' and pol:
        for x in b[1]:
            implied(x, True, out)
    elif k == 'or' and not pol:
        for x in b[1]:
            implied(x, False, out)
    return out


def mk_if(b, t, e):
    k = b[0]
    if k == 'const':
        return t if b[1] else e
    if k == 'atom':
        return t if t.key() == e.key() else If(b[1], t, e)
    if k == 'not':
        return mk_if(b[1], e, t)
    if k == 'and':
        return t if not b[1] else mk_if(b[1][0], mk_if(('and', b[1][1:]), t, e), e)
    if k == 'or':
        return e if not b[1] else mk_if(b[1][0], t, mk_if(('or', b[1][1:]), t, e))
    raise Problem('internal: condition %r' % (b,))


def b_term(b):
    k = b[0]
    if k == 'const':
        return K('true' if b[1] else 'false')
    if k == 'atom':
        return b[1]
    if k == 'not':
        return A('negb', [b_term(b[1])])
    if k in ('and', 'or'):
        ts = [b_term(x) for x in b[1]]
        out = ts[-1]
        for t in reversed(ts[:-1]):
            out = A('andb' if k == 'and' else 'orb', [t, out])
        return out
    raise Problem('internal: condition %r' % (b,))


def simplify(t, known):
    if isinstance(t, If):
        ak = t.atom.key()
        if isinstance(t.atom, A) and t.atom.fn == 'is_empty' and isinstance(t.atom.args[0], K) \
                and t.atom.args[0].text.startswith(('[', '(@nil')):
            return simplify(t.t if t.atom.args[0].text.startswith('(@nil') else t.e, known)   # emptiness of a literal
        if ak in known:
            return simplify(t.t if known[ak] else t.e, known)
        a = simplify(t.t, dict(known, **{}) | {ak: True})
        b = simplify(t.e, dict(known) | {ak: False})
        return a if a.key() == b.key() else If(t.atom, a, b)
    if isinstance(t, Match):
        return Match(t.scrut, [(p, simplify(b, known)) for p, b in t.arms])
    return t


def render(t, ind):
    sp = ' ' * ind
    if isinstance(t, K):
        return t.text
    if isinstance(t, A):
        if t.fn == 'app':
            return '%s ++ %s' % (paren(t.args[0], ind), paren(t.args[1], ind))
        if t.fn == 'cons' and isinstance(t.args[1], K) and t.args[1].text == 'nil':
            return '[%s]' % render(t.args[0], ind)
        if t.fn == 'pair':
            return '(%s, %s)' % (render(t.args[0], ind), render(t.args[1], ind))
        return '%s %s' % (t.fn, ' '.join(paren(a, ind) for a in t.args))
    if isinstance(t, Lam):
        return 'fun %s => %s' % (t.var, render(t.body, ind))
    if isinstance(t, If):
        return 'if %s\n%sthen%s\n%selse%s' % (render(t.atom, ind), sp, render_in(t.t, ind + 2), sp, render_in(t.e, ind + 2))
    if isinstance(t, Match):
        arms = ''.join('\n%s| %s =>%s' % (sp, p, render_in(b, ind + 4)) for p, b in t.arms)
        return 'match %s with%s\n%send' % (render(t.scrut, ind), arms, sp)
    raise Problem('internal: cannot render %r' % (t,))


def render_in(t, ind):
    s = render(t, ind)
    if isinstance(t, (If, Match)):
        return '\n' + ' ' * ind + s
    return ' ' + s


def paren(t, ind):
    s = render(t, ind)
    if isinstance(t, K) and (' ' not in s or s.startswith('[') or s.startswith('(')):
        return s
    if isinstance(t, A) and t.fn in ('pair',) or (isinstance(t, A) and t.fn == 'cons' and s.startswith('[')):
        return s
    return '(' + s + ')'


# ------------------------------------------------------------------ result types
RET = {
    'bool': dict(true=K('true'), false=K('false')),
    'tverdict': dict(true=K('TPass'), false=K('TFail'), raise_=lambda e: K('TRaise ' + e)),
    'overdict': dict(true=K('OPass'), raise_=lambda e: K('ORaise ' + e)),
    'outcome': dict(raise_=lambda e: K('Raised ' + e)),
    'text*store': dict(),
    'tverdict*store': dict(),
}

MESSAGES = {
    'missing Origin or Referer.': 'RMissing',
    'null does not match any trusted origins.': 'RNull',
    'Origin could not be parsed.': 'RParse',
    'Origin is insecure while host is secure.': 'RInsecure',
}
NOMATCH_SUFFIX = ' does not match any trusted origins.'
SETTINGS_KEY = 'pyramid.csrf_trusted_origins'


class Tr:
    """translates one function; `spec` gives result type, parameter objects (by position) and extra environment"""

    def __init__(self, fn, spec, cls=None):
        self.fn, self.spec, self.cls = fn, spec, cls
        self.ret = spec['ret']
        self.nb = 0
        self.binds = []
        self.used = set()
        self.closure_reason = None

    def fresh(self, stem):
        self.nb += 1
        return '%s_%d' % (''.join(c if c.isalnum() else '_' for c in stem) or 'v', self.nb)

    # ---------------------------------------------------------------- entry
    def translate(self):
        fn = self.fn
        if not isinstance(fn, ast.FunctionDef):
            raise Problem('not a plain def')
        if [u(d) for d in fn.decorator_list] != list(self.spec.get('decorators', [])):
            raise Problem('decorators are %r, expected %r' % ([u(d) for d in fn.decorator_list],
                                                             list(self.spec.get('decorators', []))))
        env = self.bind_params(fn, self.spec['params'])
        env.update(self.spec.get('env', {}))

        def k_end(env2, facts):
            raise Problem('control can reach the end of the function without a return')
        return simplify(self.block(list(fn.body), env, {}, k_end), {})

    def bind_params(self, fn, params):
        a = fn.args
        if a.vararg or a.kwarg or getattr(a, 'posonlyargs', []):
            raise Problem('unexpected parameter list (*args / **kwargs / positional-only)')
        names = [x.arg for x in a.args] + [x.arg for x in a.kwonlyargs]
        if len(names) != len(params):
            raise Problem('expected %d parameters, found %d (%s)' % (len(params), len(names), names))
        env = {}
        for nm, (obj, ty, want) in zip(names, params):
            if want is not None and want.startswith('=') and nm != want[1:]:
                raise Problem('keyword parameter %s was renamed to %s (callers pass it by name)' % (want[1:], nm))
            env[nm] = (obj, ty)
        for n in ast.walk(fn):
            if isinstance(n, (ast.Global, ast.Nonlocal, ast.Lambda, ast.ListComp, ast.SetComp, ast.DictComp, ast.NamedExpr,
                              ast.Await, ast.Yield, ast.YieldFrom, ast.While, ast.For, ast.With, ast.ClassDef, ast.Delete,
                              ast.AsyncFunctionDef)):
                raise Problem('construct outside the subset: %s' % type(n).__name__)
            if isinstance(n, ast.AugAssign) and not self.spec.get('arith'):
                raise Problem('construct outside the subset: AugAssign')
        return env

    # ---------------------------------------------------------------- statements
    def wrap(self, t, binds):
        for scrut, arms_before, pat, arms_after in reversed(binds):
            t = Match(scrut, arms_before + [(pat, t)] + arms_after)
        return t

    def block(self, stmts, env, facts, k):
        if not stmts:
            return k(env, facts)
        s, rest = stmts[0], stmts[1:]

        def k_next(env2, facts2):
            return self.block(rest, env2, facts2, k)

        saved, self.binds = self.binds, []
        try:
            t = self.stmt(s, env, facts, k_next)
            return self.wrap(t, self.binds)
        finally:
            self.binds = saved

    def stmt(self, s, env, facts, k_next):
        if isinstance(s, ast.Expr) and isinstance(s.value, ast.Constant) and isinstance(s.value.value, str):
            return k_next(env, facts)
        if isinstance(s, ast.Pass):
            return k_next(env, facts)
        if isinstance(s, ast.Return):
            return self.ret_value(s, env, facts)
        if isinstance(s, ast.Raise):
            return self.raise_value(s, env, facts)
        if isinstance(s, ast.Assign):
            return k_next(self.assign(s, env, facts), facts)
        if isinstance(s, ast.FunctionDef):
            return k_next(self.inner_def(s, env, facts), facts)
        if isinstance(s, ast.AugAssign):
            # n += e   (n an int local; e an int or a truth value: Python adds True as 1, False as 0)
            if not (isinstance(s.op, ast.Add) and isinstance(s.target, ast.Name) and s.target.id in env
                    and env[s.target.id][1] == INT):
                raise Problem('augmented assignment outside the table: %s' % u(s))
            env = dict(env)
            env[s.target.id] = (A('N.add', [env[s.target.id][0], self.as_int(s.value, env, facts)]), INT)
            return k_next(env, facts)
        if isinstance(s, ast.Expr):
            return self.expr_stmt(s, env, facts, k_next)
        if isinstance(s, ast.If):
            c = self.cond(s.test, env, facts)
            binds, self.binds = self.binds, []          # binds made by the test wrap the whole if
            ft = implied(c, True, dict(facts))
            fe = implied(c, False, dict(facts))
            t = self.block(list(s.body), env, ft, k_next)
            e = self.block(list(s.orelse), env, fe, k_next)
            self.binds = binds
            return mk_if(c, t, e)
        if isinstance(s, ast.Try):
            return self.try_urlparse(s, env, facts, k_next)
        raise Problem('statement outside the subset: %s' % u(s).split('\n')[0])

    def as_int(self, n, env, facts):
        obj, ty = self.expr(n, env, facts)
        if ty == INT:
            return obj
        if ty == BOOL:
            return A('b2n', [b_term(obj)])
        raise Problem('%s is a %s where an int is expected' % (u(n), ty))

    def pair(self, val, env):
        return A('pair', [val, env['$store'][0]])

    def ret_value(self, s, env, facts):
        if s.value is None:
            raise Problem('bare return')
        r, v = self.ret, s.value
        if r == 'outcome':
            # return view(context, request)  /  return <view value>
            obj, ty = self.expr(v, env, facts)
            if ty in (VIEW, VIEWFN):
                return obj
            raise Problem('return of a %s where the view result is expected: %s' % (ty, u(s)))
        if r == 'overdict' and isinstance(v, ast.Call) and isinstance(v.func, ast.Name) and v.func.id in env \
                and env[v.func.id][1] == CLOSURE:
            return self.inline_closure(env[v.func.id][0], v, env, facts)
        if r in ('text*store',):
            self._newstore = None
            obj, ty = self.expr(v, env, facts)
            if self._newstore is not None:
                env = dict(env)
                env['$store'] = self._newstore
                self._newstore = None
            return self.pair(self.as_text(obj, ty, facts, v), env)
        obj, ty = self.expr(v, env, facts)
        if ty != BOOL:
            raise Problem('return of a %s where a truth value is expected: %s' % (ty, u(s)))
        if r == 'tverdict*store':
            return mk_if(obj, self.pair(K('TPass'), env), self.pair(K('TFail'), env))
        if r == 'overdict':
            if self.closure_reason is None:
                if obj == ('const', True):
                    return K('OPass')
                raise Problem('check_csrf_origin returns something other than True outside _fail: %s' % u(s))
            return mk_if(obj, K('OPass'), A('OFail', [self.closure_reason]))
        if r in ('bool', 'tverdict'):
            return mk_if(obj, RET[r]['true'], RET[r]['false'])
        raise Problem('return in a function of result type %s: %s' % (r, u(s)))

    def raise_value(self, s, env, facts):
        e = s.exc
        if not (isinstance(e, ast.Call) and isinstance(e.func, ast.Name) and not e.keywords and len(e.args) == 1 and s.cause is None):
            raise Problem('raise outside the table: %s' % u(s))
        if e.func.id == 'BadCSRFToken' and self.ret == 'tverdict':
            self.used.add('BadCSRFToken')
            if not isinstance(e.args[0], ast.Constant):
                raise Problem('BadCSRFToken message is not a literal: %s' % u(s))
            return K('TFail')
        if e.func.id == 'BadCSRFOrigin' and self.ret == 'overdict':
            self.used.add('BadCSRFOrigin')
            return A('OFail', [self.reason_of(e.args[0], env)])
        raise Problem('raise outside the table: %s' % u(s))

    def reason_of(self, n, env):
        if isinstance(n, ast.Name) and n.id in env and env[n.id][1] == REASON:
            return env[n.id][0]
        if isinstance(n, ast.BinOp) and isinstance(n.op, ast.Add) and isinstance(n.left, ast.Constant) \
                and isinstance(n.left.value, str):
            return self.reason_of(n.right, env)
        if isinstance(n, ast.Constant) and isinstance(n.value, str):
            if n.value in MESSAGES:
                return K(MESSAGES[n.value])
            raise Problem('failure message outside the table: %r' % n.value)
        if isinstance(n, ast.JoinedStr) and len(n.values) == 2 and isinstance(n.values[0], ast.FormattedValue) \
                and isinstance(n.values[1], ast.Constant) and n.values[1].value == NOMATCH_SUFFIX:
            return K('RNoMatch')
        raise Problem('failure message outside the table: %s' % u(n))

    def inline_closure(self, fdef, call, env, facts):
        if call.keywords or len(call.args) != 1 or len(fdef.args.args) != 1 or fdef.args.defaults:
            raise Problem('closure call outside the subset: %s' % u(call))
        reason = self.reason_of(call.args[0], env)
        env2 = dict(env)
        env2[fdef.args.args[0].arg] = (reason, REASON)
        saved, self.closure_reason = self.closure_reason, reason
        try:
            def k_end(e, f):
                raise Problem('the closure %s can end without a return' % fdef.name)
            return self.block(list(fdef.body), env2, facts, k_end)
        finally:
            self.closure_reason = saved

    def inner_def(self, s, env, facts):
        if s.decorator_list:
            raise Problem('decorated inner function %s' % s.name)
        env = dict(env)
        if self.spec.get('wrapper') == s.name:
            # the CSRF wrapper: translated here, with its own parameters (context, request)
            if [a.arg for a in s.args.args][1:] and len(s.args.args) == 2 and not s.args.defaults:
                env2 = dict(env)
                env2[s.args.args[0].arg] = (None, CTXT)
                env2[s.args.args[1].arg] = (K('r'), REQ)
                sub = Tr(s, dict(self.spec, ret='outcome', wrapper=None))
                sub.nb = self.nb + 100

                def k_end(e, f):
                    raise Problem('the wrapper can end without a return')
                term = sub.block(list(s.body), env2, facts, k_end)
                self.used |= sub.used
                env[s.name] = (term, VIEW)
                return env
            raise Problem('the wrapper %s does not take (context, request)' % s.name)
        if self.spec.get('erase_callback') and self.is_cookie_callback(s, env):
            env[s.name] = (None, ERASED)
            return env
        env[s.name] = (s, CLOSURE)
        return env

    def is_cookie_callback(self, s, env):
        """def set_cookie(request, response): self.cookie_profile.set_cookies(response, <the minted token>)"""
        if len(s.args.args) != 2 or len(s.body) != 1 or not isinstance(s.body[0], ast.Expr):
            return False
        c = s.body[0].value
        ok = (isinstance(c, ast.Call) and u(c.func) == '%s.cookie_profile.set_cookies' % self.spec['selfname'](env)
              and len(c.args) == 2 and not c.keywords and isinstance(c.args[0], ast.Name)
              and c.args[0].id == s.args.args[1].arg and isinstance(c.args[1], ast.Name) and c.args[1].id in env
              and env[c.args[1].id][0] is not None and env[c.args[1].id][0].key() == K('(r_fresh r)').key())
        return ok

    def assign(self, s, env, facts):
        if len(s.targets) != 1:
            raise Problem('chained assignment: %s' % u(s))
        tg = s.targets[0]
        env = dict(env)
        if isinstance(tg, ast.Subscript) and self.ret.endswith('*store'):
            # request.session[self.key] = x   /   request.cookies[self.cookie_name] = x
            me = self.spec['selfname'](env)
            st_kind = self.spec['store']
            if st_kind == 'sessobj':            # self['_csrft_'] = x   inside the session object itself
                want = (me, repr(SESSION_KEY))
            elif st_kind == 'session':
                want = ('%s.session' % self.req_name(env), '%s.key' % me)
            elif st_kind == 'cookie':
                want = ('%s.cookies' % self.req_name(env), '%s.cookie_name' % me)
            else:
                want = None
            if (u(tg.value), u(tg.slice)) != want:
                raise Problem('store outside the table: %s' % u(s))
            obj, ty = self.expr(s.value, env, facts)
            env['$store'] = (A('Some', [self.as_text(obj, ty, facts, s.value)]), OPT)
            return env
        if not isinstance(tg, ast.Name):
            raise Problem('assignment target outside the subset: %s' % u(s))
        self._newstore = None
        obj, ty = self.expr(s.value, env, facts, target=tg.id)
        if self._newstore is not None:
            env['$store'] = self._newstore
            self._newstore = None
        env[tg.id] = (obj, ty)
        return env

    _newstore = None

    def req_name(self, env):
        for nm, (obj, ty) in env.items():
            if ty == REQ:
                return nm
        raise Problem('no request parameter')

    def expr_stmt(self, s, env, facts, k_next):
        c = s.value
        if not isinstance(c, ast.Call):
            raise Problem('expression statement outside the subset: %s' % u(s))
        # l.append(e)
        if isinstance(c.func, ast.Attribute) and c.func.attr == 'append' and isinstance(c.func.value, ast.Name) \
                and len(c.args) == 1 and not c.keywords:
            nm = c.func.value.id
            if nm not in env:
                raise Problem('append on an unbound name: %s' % u(s))
            lobj, lty = env[nm]
            if lty != LISTOWN:
                raise Problem('%s mutates a list that is not a fresh copy (a caller-supplied / settings list): %s' % (u(s), lty))
            eobj, ety = self.expr(c.args[0], env, facts)
            env = dict(env)
            env[nm] = (A('app', [lobj, A('cons', [self.as_text(eobj, ety, facts, c.args[0]), K('nil')])]), LISTOWN)
            return k_next(env, facts)
        # request.add_response_callback(set_cookie)
        if isinstance(c.func, ast.Attribute) and c.func.attr == 'add_response_callback' and len(c.args) == 1 \
                and isinstance(c.args[0], ast.Name) and env.get(c.args[0].id, (0, 0))[1] == ERASED \
                and isinstance(c.func.value, ast.Name) and env.get(c.func.value.id, (0, 0))[1] == REQ:
            return k_next(env, facts)
        # check_csrf_origin(...) / check_csrf_token(...) as statements of the wrapper
        if isinstance(c.func, ast.Name) and c.func.id in ('check_csrf_origin', 'check_csrf_token') and self.ret == 'outcome' \
                and c.func.id not in env:
            self.used.add(c.func.id)
            call = self.check_call(c, env, facts)
            rest = k_next(env, facts)
            if c.func.id == 'check_csrf_origin':
                return Match(call, [('OPass', rest), ('OFail w', K('BadOrigin w')), ('ORaise e', K('Raised e'))])
            return Match(call, [('TPass', rest), ('TFail', K('BadToken')), ('TRaise e', K('Raised e'))])
        raise Problem('expression statement outside the subset: %s' % u(s))

    def check_call(self, c, env, facts):
        f = c.func.id
        sig = {'check_csrf_origin': (['request'], ['trusted_origins', 'allow_no_origin', 'raises']),
               'check_csrf_token': (['request', 'token', 'header', 'raises'], [])}[f]
        args = {}
        if len(c.args) > len(sig[0]):
            raise Problem('too many positional arguments: %s' % u(c))
        for nm, a in zip(sig[0], c.args):
            args[nm] = a
        for kw in c.keywords:
            if kw.arg is None or kw.arg in args or kw.arg not in sig[0] + sig[1]:
                raise Problem('keyword outside the signature: %s' % u(c))
            args[kw.arg] = kw.value
        robj, rty = self.expr(args.get('request', ast.Constant(None)), env, facts)
        if rty != REQ:
            raise Problem('%s not called on the request: %s' % (f, u(c)))
        raises = args.get('raises')
        if not (isinstance(raises, ast.Constant) and raises.value is True):
            raise Problem('%s must be called with raises=True (default True) inside the wrapper: %s' % (f, u(c))) \
                if raises is not None else None
        if f == 'check_csrf_origin':
            if 'trusted_origins' in args:
                raise Problem('check_csrf_origin called with trusted_origins inside the wrapper: %s' % u(c))
            if 'allow_no_origin' in args:
                aobj, aty = self.expr(args['allow_no_origin'], env, facts)
                if aty != BOOL:
                    raise Problem('allow_no_origin is a %s' % aty)
                allow = b_term(aobj)
            else:
                allow = K('false')
            return A('gen_check_csrf_origin', [K('(c_settings c)'), K('None'), allow, K('true'), K('r')])
        tok = self.opt_arg(args.get('token'), env, facts, 'csrf_token')
        hdr = self.opt_arg(args.get('header'), env, facts, 'X-CSRF-Token')
        return A('gen_check_csrf_token', [K('(c_storage c)'), tok, hdr, K('true'), K('r')])

    def opt_arg(self, n, env, facts, default):
        if n is None:
            return A('Some', [lit(default)])
        obj, ty = self.expr(n, env, facts)
        if ty == OPT:
            return obj
        if ty == TEXT:
            return A('Some', [obj])
        raise Problem('token/header argument is a %s' % ty)

    def try_urlparse(self, s, env, facts, k_next):
        ok = (len(s.body) == 1 and not s.orelse and not s.finalbody and len(s.handlers) == 1
              and isinstance(s.handlers[0].type, ast.Name) and s.handlers[0].type.id == 'ValueError'
              and s.handlers[0].name is None and self.is_urlparse_assign(s.body[0]))
        if not ok:
            raise Problem('try statement outside the table (try: v = urlparse(x) / except ValueError: ..): %s'
                          % u(s).split('\n')[0])
        handler = self.block(list(s.handlers[0].body), env, facts, k_next)
        return self.urlparse_match(s.body[0], env, facts, k_next, handler)

    @staticmethod
    def is_urlparse_assign(st):
        return isinstance(st, ast.Assign) and len(st.targets) == 1 and isinstance(st.targets[0], ast.Name) \
            and isinstance(st.value, ast.Call) and isinstance(st.value.func, ast.Name) and st.value.func.id == 'urlparse' \
            and len(st.value.args) == 1 and not st.value.keywords

    def urlparse_match(self, st, env, facts, k_next, on_valueerror):
        if 'urlparse' in env:
            raise Problem('urlparse is rebound')
        self.used.add('urlparse')
        xobj, xty = self.expr(st.value.args[0], env, facts)
        x = self.as_text(xobj, xty, facts, st.value.args[0])
        sc, nl = self.fresh('scheme'), self.fresh('netloc')
        env2 = dict(env)
        env2[st.targets[0].id] = ((K(sc), K(nl)), PARSED)
        ok = k_next(env2, facts)
        if self.ret not in ('overdict',):
            raise Problem('urlparse outside check_csrf_origin')
        return Match(A('urlparse_m', [K('(r_v6 r)'), x]),
                     [('PUrl %s %s' % (sc, nl), ok), ('PValueError', on_valueerror), ('PUnmodelled', K('ORaise EUnmodelled'))])

    # ---------------------------------------------------------------- expressions
    def as_text(self, obj, ty, facts, node):
        if ty == TEXT:
            return obj
        if ty == OPT:
            none_k = A('is_none', [obj]).key()
            empty_k = A('is_empty', [A('or_empty', [obj])]).key()
            if facts.get(none_k) is False or facts.get(empty_k) is False or (isinstance(obj, A) and obj.fn == 'Some'):
                return A('or_empty', [obj])
            raise Problem('%s may be None here but is used as a str' % u(node))
        raise Problem('%s is a %s where a str is expected' % (u(node), ty))

    def truth(self, obj, ty, node):
        if ty == BOOL:
            return obj
        if ty == TEXT:
            return b_not(b_atom(A('is_empty', [obj])))
        if ty == OPT:
            return b_not(b_atom(A('is_empty', [A('or_empty', [obj])])))
        if ty == CALLBACK:
            return obj
        raise Problem('truth value of a %s is outside the table: %s' % (ty, u(node)))

    def cond(self, n, env, facts):
        if isinstance(n, ast.UnaryOp) and isinstance(n.op, ast.Not):
            return b_not(self.cond(n.operand, env, facts))
        if isinstance(n, ast.BoolOp):
            parts = []
            f = dict(facts)
            for v in n.values:
                c = self.cond(v, env, f)
                if c[0] == 'const' and c[1] == isinstance(n.op, ast.Or):
                    parts.append(c)                  # decides the whole expression: the rest is never evaluated
                    break
                parts.append(c)
                f = implied(c, isinstance(n.op, ast.And), dict(f))     # short circuit: later operands see earlier ones
            return ('and' if isinstance(n.op, ast.And) else 'or', parts)
        obj, ty = self.expr(n, env, facts)
        return self.truth(obj, ty, n)

    def expr(self, n, env, facts, target=None):
        if isinstance(n, ast.Name):
            if n.id in env:
                return env[n.id]
            raise Problem('name %s is unbound here or outside the table' % n.id)
        if isinstance(n, ast.Constant):
            if isinstance(n.value, bool):
                return ('const', n.value), BOOL
            if isinstance(n.value, str):
                return lit(n.value), TEXT
            if n.value is None:
                return K('None'), OPT
            if isinstance(n.value, int) and self.spec.get('arith') and 0 <= n.value < 1000:
                return K(str(n.value)), INT
            raise Problem('constant outside the table: %s' % u(n))
        if isinstance(n, (ast.UnaryOp, ast.BoolOp)) and (isinstance(n, ast.BoolOp) or isinstance(n.op, ast.Not)):
            return self.cond(n, env, facts), BOOL
        if isinstance(n, ast.Compare):
            if len(n.ops) != 1:
                raise Problem('chained comparison: %s' % u(n))
            return self.compare(n.ops[0], n.left, n.comparators[0], env, facts, n), BOOL
        if isinstance(n, ast.Attribute):
            return self.attribute(n, env, facts)
        if isinstance(n, ast.Subscript):
            return self.subscript(n, env, facts)
        if isinstance(n, ast.Call):
            return self.call(n, env, facts, target)
        raise Problem('expression outside the table: %s' % u(n))

    def compare(self, op, l, r, env, facts, whole):
        if isinstance(op, (ast.Is, ast.IsNot)):
            lobj, lty = self.expr(l, env, facts)
            if isinstance(r, ast.Constant) and r.value is None:
                if lty == OPT:
                    b = ('const', True) if lobj.key() == K('None').key() else \
                        ('const', False) if isinstance(lobj, A) and lobj.fn == 'Some' else b_atom(A('is_none', [lobj]))
                elif lty == OPTLIST:
                    b = b_atom(A('is_none_l', [lobj]))
                elif lty == OPTOPTS:
                    b = b_atom(A('is_none_o', [lobj]))
                elif lty == CALLBACK:
                    b = b_not(lobj)
                elif lty == TEXT:
                    b = ('const', False)
                else:
                    raise Problem('`is None` on a %s: %s' % (lty, u(whole)))
            elif isinstance(r, ast.Constant) and isinstance(r.value, bool) and lty == OPTBOOL:
                b = b_atom(A('is_true' if r.value else 'is_false', [lobj]))
            else:
                raise Problem('`is` outside the table: %s' % u(whole))
            return b_not(b) if isinstance(op, ast.IsNot) else b
        lobj, lty = self.expr(l, env, facts)
        robj, rty = self.expr(r, env, facts) if not isinstance(r, ast.Set) else (None, None)
        if isinstance(op, (ast.Eq, ast.NotEq)) and lty == rty and lty in (NAT, INT):
            b = b_atom(A('Nat.eqb' if lty == NAT else 'N.eqb', [lobj, robj]))
            return b_not(b) if isinstance(op, ast.NotEq) else b
        if isinstance(op, (ast.Eq, ast.NotEq)):
            a, b2 = self.as_text(lobj, lty, facts, l), self.as_text(robj, rty, facts, r)
            if a.key() == lit('').key():
                a, b2 = b2, a
            if b2.key() == lit('').key():
                b = ('const', a.key() == lit('').key()) if isinstance(a, K) and a.text.startswith(('[', '(@nil')) \
                    else b_atom(A('is_empty', [a]))
            else:
                b = b_atom(A('text_eqb', [a, b2]))
            return b_not(b) if isinstance(op, ast.NotEq) else b
        if isinstance(op, (ast.In, ast.NotIn)):
            a = self.as_text(lobj, lty, facts, l)
            if isinstance(r, ast.Set):
                if not all(isinstance(e, ast.Constant) and isinstance(e.value, str) for e in r.elts):
                    raise Problem('set display with non-literal members: %s' % u(whole))
                lst = K('[' + '; '.join(lit(v).text for v in sorted(e.value for e in r.elts)) + ']')
                b = b_atom(A('mem_text', [a, lst]))
            elif rty in (LISTT, LISTOWN):
                b = b_atom(A('mem_text', [a, robj]))
            else:
                raise Problem('`in` with a %s on the right: %s' % (rty, u(whole)))
            return b_not(b) if isinstance(op, ast.NotIn) else b
        raise Problem('comparison operator outside the table: %s' % u(whole))

    def attribute(self, n, env, facts):
        base = n.value
        if isinstance(base, ast.Name) and base.id in env:
            bobj, bty = env[base.id]
            if bty == REQ:
                m = {'scheme': ('req_scheme r', TEXT), 'method': ('req_method r', TEXT), 'domain': ('req_domain r', TEXT),
                     'host_port': ('req_host_port r', TEXT), 'referrer': ('env_get lit_HTTP_REFERER r', OPT),
                     'referer': ('env_get lit_HTTP_REFERER r', OPT)}
                if n.attr in m:
                    return K('(%s)' % m[n.attr][0]), m[n.attr][1]
                if n.attr == 'registry':
                    return None, 'registry'
            if bty == PARSED and n.attr in ('scheme', 'netloc'):
                return bobj[0 if n.attr == 'scheme' else 1], TEXT
            if bty == OPTOPTS:
                if facts.get(A('is_none_o', [bobj]).key()) is not False:
                    raise Problem('%s may be None here' % u(base))
                o = A('or_options', [bobj])
                m = {'require_csrf': ('o_require', BOOL), 'token': ('o_token', OPT), 'header': ('o_header', OPT),
                     'safe_methods': ('o_safe', LISTT), 'check_origin': ('o_check_origin', BOOL),
                     'allow_no_origin': ('o_allow_no_origin', BOOL), 'callback': ('o_callback', CALLBACK)}
                if n.attr in m:
                    fn, ty = m[n.attr]
                    t = A(fn, [o])
                    return (b_atom(t) if ty in (BOOL, CALLBACK) else t), ty
            if bty == INFO and n.attr == 'exception_only':
                return b_atom(K('(c_exception_only c)')), BOOL
        raise Problem('attribute outside the table: %s' % u(n))

    def subscript(self, n, env, facts):
        # x[0] (only inside ==), x[1:], x.split(c)[-1]
        sl = n.slice
        if isinstance(sl, ast.Slice) and sl.upper is None and sl.step is None and isinstance(sl.lower, ast.Constant) \
                and sl.lower.value == 1:
            obj, ty = self.expr(n.value, env, facts)
            return A('tl', [self.as_text(obj, ty, facts, n.value)]), TEXT
        if isinstance(sl, ast.Constant) and sl.value == 0:
            obj, ty = self.expr(n.value, env, facts)
            return A('firstn', [K('1%nat'), self.as_text(obj, ty, facts, n.value)]), TEXT
        try:
            idx = ast.literal_eval(sl)
        except Exception:
            idx = None
        v = n.value
        if idx == -1 and isinstance(v, ast.Call) and isinstance(v.func, ast.Attribute) and v.func.attr == 'split' \
                and len(v.args) == 1 and not v.keywords and isinstance(v.args[0], ast.Constant) \
                and isinstance(v.args[0].value, str) and len(v.args[0].value) == 1:
            obj, ty = self.expr(v.func.value, env, facts)
            return A('last', [A('split_on', [K(str(ord(v.args[0].value))), self.as_text(obj, ty, facts, v.func.value)]),
                              K('(@nil N)')]), TEXT
        raise Problem('subscript outside the table: %s' % u(n))

    def call(self, n, env, facts, target):
        f = n.func
        src = u(f)
        if isinstance(f, ast.Name):
            if f.id in env:
                obj, ty = env[f.id]
                if ty == VIEWFN and len(n.args) == 2 and not n.keywords:
                    return K('Ran'), VIEW
                if ty == CALLBACK and len(n.args) == 1 and not n.keywords and self.expr(n.args[0], env, facts)[1] == REQ:
                    return b_atom(K('(r_cb r)')), BOOL
                raise Problem('call outside the table: %s' % u(n))
            name = f.id
            if name == 'len' and len(n.args) == 1 and not n.keywords and self.spec.get('arith'):
                obj, ty = self.expr(n.args[0], env, facts)
                if ty != BYTES:
                    raise Problem('len(..) of a %s' % ty)
                return A('length', [obj]), NAT
            if name == 'compare_digest' and len(n.args) == 2 and not n.keywords:
                self.used.add(name)
                a = [self.expr(x, env, facts) for x in n.args]
                if a[0][1] != BYTES or a[1][1] != BYTES:
                    raise Problem('compare_digest on %s, %s' % (a[0][1], a[1][1]))
                return b_atom(A('bytes_eqb', [a[0][0], a[1][0]])), BOOL
            if name == 'text_' and len(n.args) == 1 and not n.keywords and self.spec.get('store') == 'sessobj' \
                    and u(n.args[0]).startswith('binascii.hexlify(os.urandom(') and isinstance(n.args[0], ast.Call) \
                    and len(n.args[0].args) == 1 and isinstance(n.args[0].args[0], ast.Call) \
                    and len(n.args[0].args[0].args) == 1 and isinstance(n.args[0].args[0].args[0], ast.Constant) \
                    and isinstance(n.args[0].args[0].args[0].value, int) and n.args[0].args[0].args[0].value >= 16 \
                    and not n.args[0].keywords and not n.args[0].args[0].keywords:
                # the session's own fresh token: hex of >= 16 random bytes (non-empty, unguessable)
                self.used.update(['text_', 'binascii', 'os'])
                return K('(r_fresh r)'), TEXT
            if name == 'text_' and len(n.args) == 1 and not n.keywords:
                self.used.add(name)
                obj, ty = self.expr(n.args[0], env, facts)
                return self.as_text(obj, ty, facts, n.args[0]), TEXT
            if name == 'aslist' and len(n.args) == 1 and not n.keywords:
                self.used.add(name)
                obj, ty = self.expr(n.args[0], env, facts)
                if ty != LISTT:
                    raise Problem('aslist of a %s' % ty)
                return A('aslist', [obj]), LISTOWN
            if name == 'list' and len(n.args) == 1 and not n.keywords:
                obj, ty = self.expr(n.args[0], env, facts)
                if ty == OPTLIST and facts.get(A('is_none_l', [obj]).key()) is False:
                    return A('or_nil', [obj]), LISTOWN
                if ty in (LISTT, LISTOWN):
                    return obj, LISTOWN
                raise Problem('list(..) of a %s: %s' % (ty, u(n)))
            if name == 'frozenset' and len(n.args) == 1 and not n.keywords and isinstance(n.args[0], (ast.List, ast.Tuple)) \
                    and all(isinstance(e, ast.Constant) and isinstance(e.value, str) for e in n.args[0].elts):
                return K('[' + '; '.join(lit(v).text for v in sorted(e.value for e in n.args[0].elts)) + ']'), LISTT
            if name == 'is_same_domain' and len(n.args) == 2 and not n.keywords:
                self.used.add(name)
                a = [self.expr(x, env, facts) for x in n.args]
                return b_atom(A('gen_is_same_domain', [self.as_text(a[0][0], a[0][1], facts, n.args[0]),
                                                        self.as_text(a[1][0], a[1][1], facts, n.args[1])])), BOOL
            if name == 'any' and len(n.args) == 1 and isinstance(n.args[0], ast.GeneratorExp):
                g = n.args[0]
                if len(g.generators) != 1 or g.generators[0].ifs or g.generators[0].is_async \
                        or not isinstance(g.generators[0].target, ast.Name):
                    raise Problem('generator outside the subset: %s' % u(n))
                lobj, lty = self.expr(g.generators[0].iter, env, facts)
                if lty not in (LISTT, LISTOWN):
                    raise Problem('any(..) over a %s' % lty)
                var = self.fresh(g.generators[0].target.id)
                env2 = dict(env)
                env2[g.generators[0].target.id] = (K(var), TEXT)
                saved, self.binds = self.binds, []
                body = self.cond(g.elt, env2, {})
                if self.binds:
                    raise Problem('a call that may raise inside any(..)')
                self.binds = saved
                return b_atom(A('existsb', [Lam(var, b_term(body)), lobj])), BOOL
            if name == 'strings_differ' and len(n.args) == 2 and not n.keywords:
                self.used.add(name)
                a = [self.expr(x, env, facts) for x in n.args]
                if a[0][1] != BYTES or a[1][1] != BYTES:
                    raise Problem('strings_differ on %s, %s' % (a[0][1], a[1][1]))
                return b_atom(A('gen_strings_differ', [a[0][0], a[1][0]])), BOOL
            if name == 'bytes_' and 1 <= len(n.args) <= 2 and not n.keywords:
                self.used.add(name)
                obj, ty = self.expr(n.args[0], env, facts)
                x = self.as_text(obj, ty, facts, n.args[0])
                if len(n.args) == 2:
                    if not (isinstance(n.args[1], ast.Constant) and isinstance(n.args[1].value, str)):
                        raise Problem('bytes_ encoding is not a literal')
                    enc = n.args[1].value.lower().replace('_', '-')
                    if enc not in ('utf-8', 'utf8', 'latin-1', 'latin1', 'iso-8859-1'):
                        raise Problem('bytes_ encoding %r outside the table' % n.args[1].value)
                    utf8 = enc in ('utf-8', 'utf8')
                else:
                    utf8 = False
                b = self.fresh('bytes')
                self.binds.append((A('encode_tok', [K('true' if utf8 else 'false'), x]), [],
                                   'Some %s' % b, [('None', self.raise_term('EUnicode', env))]))
                return K(b), BYTES
        # the session object's own methods (pyramid.session CookieSession): the held token is ST
        if self.ret.endswith('*store') and self.spec.get('store') == 'sessobj':
            me = self.spec['selfname'](env)
            if src == '%s.get' % me and len(n.args) == 2 and not n.keywords and isinstance(n.args[0], ast.Constant) \
                    and n.args[0].value == SESSION_KEY and isinstance(n.args[1], ast.Constant) and n.args[1].value is None:
                return env['$store'][0], OPT
            if src == '%s.new_csrf_token' % me and not n.args and not n.keywords:
                callt = A('gen_sess_new', [K('r'), env['$store'][0]])
                v, st = self.fresh('tok'), self.fresh('st')
                self.binds.append((callt, [], '(%s, %s)' % (v, st), []))
                self._newstore = (K(st), OPT)
                return K(v), TEXT
        # method-style entries, matched on the source text of the callee
        req = None
        try:
            req = self.req_name(env)
        except Problem:
            pass
        if req is not None:
            if src == '%s.headers.get' % req and not n.keywords and len(n.args) in (1, 2):
                h = self.expr(n.args[0], env, facts)
                hdr = self.as_text(h[0], h[1], facts, n.args[0])
                t = A('header_get', [hdr, K('r')])
                if len(n.args) == 1:
                    return t, OPT
                if isinstance(n.args[1], ast.Constant) and n.args[1].value == '':
                    return A('or_empty', [t]), TEXT
                raise Problem('default of headers.get outside the table: %s' % u(n))
            if src == '%s.POST.get' % req and not n.keywords and len(n.args) == 2 \
                    and isinstance(n.args[1], ast.Constant) and n.args[1].value == '':
                h = self.expr(n.args[0], env, facts)
                return A('or_empty', [A('lookup_last', [self.as_text(h[0], h[1], facts, n.args[0]), K('(r_post r)')])]), TEXT
            if src == '%s.registry.settings.get' % req and not n.keywords and len(n.args) == 2 \
                    and isinstance(n.args[0], ast.Constant) and n.args[0].value == SETTINGS_KEY \
                    and isinstance(n.args[1], ast.List) and not n.args[1].elts:
                return K('settings'), LISTT
            if src == '%s.registry.getUtility' % req and len(n.args) == 1 and not n.keywords \
                    and u(n.args[0]) == 'ICSRFStoragePolicy':
                self.used.add('ICSRFStoragePolicy')
                return None, POLICY
            if self.ret.endswith('*store') and self.spec.get('store') in ('session', 'legacy', 'cookie'):
                me = self.spec['selfname'](env)
                if self.spec['store'] == 'session':
                    if src == '%s.session.get' % req and len(n.args) == 2 and not n.keywords and u(n.args[0]) == '%s.key' % me \
                            and isinstance(n.args[1], ast.Constant) and n.args[1].value is None:
                        return env['$store'][0], OPT
                if self.spec['store'] == 'legacy':
                    if src in ('%s.session.new_csrf_token' % req, '%s.session.get_csrf_token' % req) \
                            and not n.args and not n.keywords:
                        # the session object's method, itself regenerated (gen_sess_new / gen_sess_get)
                        g = 'gen_sess_new' if src.endswith('new_csrf_token') else 'gen_sess_get'
                        callt = A(g, [K('r'), env['$store'][0]])
                        v, st = self.fresh('tok'), self.fresh('st')
                        self.binds.append((callt, [], '(%s, %s)' % (v, st), []))
                        self._newstore = (K(st), OPT)
                        return K(v), TEXT
                if self.spec['store'] == 'cookie':
                    if src == '%s.cookie_profile.bind' % me and len(n.args) == 1 and not n.keywords \
                            and self.expr(n.args[0], env, facts)[1] == REQ:
                        return None, BOUND
                if src == '%s._token_factory' % me and not n.args and not n.keywords:
                    return K('(r_fresh r)'), TEXT
                if src in ('%s.get_csrf_token' % me, '%s.new_csrf_token' % me) and len(n.args) == 1 and not n.keywords \
                        and self.expr(n.args[0], env, facts)[1] == REQ:
                    g = 'gen_%s_%s' % (self.spec['pol'], 'get' if src.endswith('get_csrf_token') else 'new')
                    callt = A(g, [K('r'), env['$store'][0]])
                    v, st = self.fresh('tok'), self.fresh('st')
                    self.binds.append((callt, [], '(%s, %s)' % (v, st), []))
                    self._newstore = (K(st), OPT)
                    return K(v), TEXT
        base = None
        if isinstance(f, ast.Attribute) and isinstance(f.value, ast.Name) and f.value.id in env:
            base = env[f.value.id]
        elif isinstance(f, ast.Attribute) and req is not None and self.spec.get('api') \
                and u(f.value) in ('%s.registry.getUtility(ICSRFStoragePolicy)' % req, '%s.registry' % req):
            base = self.expr(f.value, env, facts)          # the policy / registry used without a local name
        if base is not None:
            bobj, bty = base
            if bty == BOUND and f.attr == 'get_value' and not n.args and not n.keywords:
                return env['$store'][0], OPT
            if bty == 'registry' and f.attr == 'getUtility' and len(n.args) == 1 and not n.keywords \
                    and u(n.args[0]) == 'ICSRFStoragePolicy':
                self.used.add('ICSRFStoragePolicy')
                return None, POLICY
            if bty == POLICY and f.attr in ('get_csrf_token', 'new_csrf_token') and len(n.args) == 1 and not n.keywords \
                    and self.expr(n.args[0], env, facts)[1] == REQ and self.spec.get('api'):
                # the configured policy's method (dispatch glue gen_policy_get / gen_policy_new), threading the held token
                g = 'gen_policy_get' if f.attr == 'get_csrf_token' else 'gen_policy_new'
                callt = A(g, [K('s'), K('r'), env['$store'][0]])
                v, st = self.fresh('tok'), self.fresh('st')
                self.binds.append((callt, [], '(%s, %s)' % (v, st), []))
                self._newstore = (K(st), OPT)
                return K(v), TEXT
            if bty == POLICY and f.attr == 'check_csrf_token' and len(n.args) == 2 and not n.keywords \
                    and self.expr(n.args[0], env, facts)[1] == REQ:
                sobj, sty = self.expr(n.args[1], env, facts)
                x = self.as_text(sobj, sty, facts, n.args[1])
                callt = A('fst', [A('gen_policy_check', [K('s'), K('r'), K('(r_stored r)'), x])])
                if self.ret != 'tverdict':
                    raise Problem('policy.check_csrf_token outside check_csrf_token')
                b = self.fresh('ok')
                self.binds.append((A('verdict_bool', [callt]), [], 'Some %s' % b,
                                   [('None', A('verdict_error', [callt]))]))
                return b_atom(K(b)), BOOL
            if bty in (TEXT, OPT) and f.attr == 'lower' and not n.args and not n.keywords:
                return A('lower', [self.as_text(bobj, bty, facts, f.value)]), TEXT
            if bty in (TEXT, OPT) and f.attr == 'endswith' and len(n.args) == 1 and not n.keywords:
                a = self.expr(n.args[0], env, facts)
                return b_atom(A('endswith', [self.as_text(bobj, bty, facts, f.value),
                                             self.as_text(a[0], a[1], facts, n.args[0])])), BOOL
            if bty == INFO and src.endswith('.options.get'):
                pass
        if isinstance(f, ast.Attribute) and f.attr == 'format' and isinstance(f.value, ast.Constant) \
                and isinstance(f.value.value, str) and len(n.args) == 1 and not n.keywords \
                and self.expr(n.args[0], env, facts)[1] == REQ:
            parts = []
            for text, field, spec_, conv in string.Formatter().parse(f.value.value):
                if text:
                    parts.append(lit(text))
                if field is not None:
                    if spec_ or conv or field not in ('0.domain', '0.host_port'):
                        raise Problem('format field outside the table: %s' % u(n))
                    parts.append(K('(req_domain r)' if field == '0.domain' else '(req_host_port r)'))
            out = parts[-1] if parts else lit('')
            for p in reversed(parts[:-1]):
                out = A('app', [p, out])
            return out, TEXT
        if self.spec.get('info') and src == '%s.options.get' % self.spec['info'](env) and len(n.args) == 1 \
                and not n.keywords and isinstance(n.args[0], ast.Constant) and n.args[0].value == 'require_csrf':
            return K('(c_explicit c)'), OPTBOOL
        if self.spec.get('info') and src == '%s.registry.queryUtility' % self.spec['info'](env) and len(n.args) == 1 \
                and not n.keywords and u(n.args[0]) == 'IDefaultCSRFOptions':
            self.used.add('IDefaultCSRFOptions')
            return K('(registered_options c)'), OPTOPTS
        raise Problem('call outside the table: %s' % u(n))

    def raise_term(self, err, env):
        r = self.ret
        if r == 'tverdict*store':
            return A('pair', [K('(TRaise %s)' % err), env['$store'][0]])
        if r in RET and 'raise_' in RET[r]:
            return RET[r]['raise_'](err)
        raise Problem('an exception (%s) in a function of result type %s' % (err, r))


# ------------------------------------------------------------------ specs
def _self_of(env):
    for nm, (obj, ty) in env.items():
        if ty == SELF:
            return nm
    raise Problem('no self parameter')


def _info_of(env):
    for nm, (obj, ty) in env.items():
        if ty == INFO:
            return nm
    raise Problem('no info parameter')


def policy_specs():
    out = []
    for pol, cls, store in (('legacy', 'LegacySessionCSRFStoragePolicy', 'legacy'),
                            ('session', 'SessionCSRFStoragePolicy', 'session'),
                            ('cookie', 'CookieCSRFStoragePolicy', 'cookie')):
        base = dict(file='pyramid/csrf.py', pol=pol, store=store, selfname=_self_of,
                    env={'$store': (K('st'), OPT)})
        out.append(dict(base, qual='%s.new_csrf_token' % cls, gen='gen_%s_new' % pol, ret='text*store',
                        params=[(None, SELF, None), (K('r'), REQ, None)], erase_callback=(pol == 'cookie'),
                        sig='(r : request) (st : option text) : text * option text'))
        out.append(dict(base, qual='%s.get_csrf_token' % cls, gen='gen_%s_get' % pol, ret='text*store',
                        params=[(None, SELF, None), (K('r'), REQ, None)],
                        sig='(r : request) (st : option text) : text * option text'))
        out.append(dict(base, qual='%s.check_csrf_token' % cls, gen='gen_%s_check' % pol, ret='tverdict*store',
                        params=[(None, SELF, None), (K('r'), REQ, None), (K('supplied'), TEXT, None)],
                        sig='(r : request) (st : option text) (supplied : text) : tverdict * option text'))
    return out


FUNCS = [
    dict(file='pyramid/util.py', qual='is_same_domain', gen='gen_is_same_domain', ret='bool',
         params=[(K('host'), TEXT, None), (K('pattern'), TEXT, None)], sig='(host pattern : text) : bool'),
    dict(file='pyramid/util.py', qual='strings_differ', gen='gen_strings_differ', ret='bool', arith=True,
         params=[(K('s1'), BYTES, None), (K('s2'), BYTES, None)], sig='(s1 s2 : list N) : bool'),
    dict(file='pyramid/session.py', qual='BaseCookieSessionFactory.CookieSession.new_csrf_token', gen='gen_sess_new',
         ret='text*store', store='sessobj', selfname=_self_of, decorators=['manage_changed'],
         env={'$store': (K('st'), OPT)}, params=[(None, SELF, None)],
         sig='(r : request) (st : option text) : text * option text'),
    dict(file='pyramid/session.py', qual='BaseCookieSessionFactory.CookieSession.get_csrf_token', gen='gen_sess_get',
         ret='text*store', store='sessobj', selfname=_self_of, decorators=['manage_accessed'],
         env={'$store': (K('st'), OPT)}, params=[(None, SELF, None)],
         sig='(r : request) (st : option text) : text * option text'),
] + policy_specs() + [
    dict(file=None, gen='gen_policy_check', glue=(
        'Definition gen_policy_check (s : storage) (r : request) (st : option text) (supplied : text) : tverdict * option text :=\n'
        '  match s with\n  | Legacy => gen_legacy_check r st supplied\n  | Session => gen_session_check r st supplied\n'
        '  | Cookie => gen_cookie_check r st supplied\n  end.\n')),
    dict(file=None, gen='gen_policy_get', glue=(
        'Definition gen_policy_get (s : storage) (r : request) (st : option text) : text * option text :=\n'
        '  match s with\n  | Legacy => gen_legacy_get r st\n  | Session => gen_session_get r st\n'
        '  | Cookie => gen_cookie_get r st\n  end.\n')),
    dict(file=None, gen='gen_policy_new', glue=(
        'Definition gen_policy_new (s : storage) (r : request) (st : option text) : text * option text :=\n'
        '  match s with\n  | Legacy => gen_legacy_new r st\n  | Session => gen_session_new r st\n'
        '  | Cookie => gen_cookie_new r st\n  end.\n')),
    # the public module-level API pyramid.csrf.get_csrf_token / new_csrf_token (what a view body calls)
    dict(file='pyramid/csrf.py', qual='get_csrf_token', gen='gen_api_get', ret='text*store', api=True, store='api',
         selfname=_self_of, env={'$store': (K('st'), OPT)}, params=[(K('r'), REQ, None)],
         sig='(s : storage) (r : request) (st : option text) : text * option text'),
    dict(file='pyramid/csrf.py', qual='new_csrf_token', gen='gen_api_new', ret='text*store', api=True, store='api',
         selfname=_self_of, env={'$store': (K('st'), OPT)}, params=[(K('r'), REQ, None)],
         sig='(s : storage) (r : request) (st : option text) : text * option text'),
    dict(file='pyramid/csrf.py', qual='check_csrf_token', gen='gen_check_csrf_token', ret='tverdict',
         params=[(K('r'), REQ, None), (K('token'), OPT, '=token'), (K('header'), OPT, '=header'),
                 (b_atom(K('raises')), BOOL, '=raises')],
         sig='(s : storage) (token header : option text) (raises : bool) (r : request) : tverdict'),
    dict(file='pyramid/csrf.py', qual='check_csrf_origin', gen='gen_check_csrf_origin', ret='overdict',
         params=[(K('r'), REQ, None), (K('caller'), OPTLIST, '=trusted_origins'), (b_atom(K('allow')), BOOL, '=allow_no_origin'),
                 (b_atom(K('raises')), BOOL, '=raises')],
         sig='(settings : list text) (caller : option (list text)) (allow raises : bool) (r : request) : overdict'),
    dict(file='pyramid/viewderivers.py', qual='csrf_view', gen='gen_view_outcome', ret='outcome', wrapper='csrf_view',
         info=_info_of, params=[(K('Ran'), VIEWFN, None), (None, INFO, None)],
         sig='(c : config) (r : request) : outcome'),
]

# every source function whose control flow is regenerated on every run (tools/coverage_map.py reads this)
TRANSLATED = ['pyramid/util.py:is_same_domain', 'pyramid/util.py:strings_differ',
              'pyramid/session.py:BaseCookieSessionFactory.CookieSession.new_csrf_token',
              'pyramid/session.py:BaseCookieSessionFactory.CookieSession.get_csrf_token'] + [
    'pyramid/csrf.py:%s.%s' % (c, m)
    for c in ('LegacySessionCSRFStoragePolicy', 'SessionCSRFStoragePolicy', 'CookieCSRFStoragePolicy')
    for m in ('new_csrf_token', 'get_csrf_token', 'check_csrf_token')] + [
    'pyramid/csrf.py:CookieCSRFStoragePolicy.new_csrf_token.set_cookie',    # body checked to be exactly the cookie delivery, then erased
    'pyramid/csrf.py:get_csrf_token', 'pyramid/csrf.py:new_csrf_token',
    'pyramid/csrf.py:check_csrf_token', 'pyramid/csrf.py:check_csrf_origin', 'pyramid/csrf.py:check_csrf_origin._fail',
    'pyramid/viewderivers.py:csrf_view', 'pyramid/viewderivers.py:csrf_view.csrf_view']

# the configuration side (harness/c12/translate_cfg.py: data flow of the directive into the options object)
TRANSLATED += ['pyramid/config/security.py:SecurityConfiguratorMixin.set_default_csrf_options',
               'pyramid/config/security.py:SecurityConfiguratorMixin.set_default_csrf_options.register',
               'pyramid/config/security.py:DefaultCSRFOptions.__init__']

WANT_BINDINGS = {
    'pyramid/csrf.py': {
        'urlparse': 'from urllib.parse import urlparse', 'aslist': 'from pyramid.settings import aslist',
        'BadCSRFOrigin': 'from pyramid.exceptions import BadCSRFOrigin', 'BadCSRFToken': 'from pyramid.exceptions import BadCSRFToken',
        'ICSRFStoragePolicy': 'from pyramid.interfaces import ICSRFStoragePolicy',
        'bytes_': 'from pyramid.util import bytes_', 'is_same_domain': 'from pyramid.util import is_same_domain',
        'strings_differ': 'from pyramid.util import strings_differ', 'text_': 'from pyramid.util import text_'},
    'pyramid/viewderivers.py': {
        'check_csrf_origin': 'from pyramid.csrf import check_csrf_origin', 'check_csrf_token': 'from pyramid.csrf import check_csrf_token',
        'IDefaultCSRFOptions': 'from pyramid.interfaces import IDefaultCSRFOptions'},
    'pyramid/util.py': {'compare_digest': 'from hmac import compare_digest'},
    'pyramid/session.py': {'text_': 'from pyramid.util import text_', 'binascii': 'import', 'os': 'import'},
}
BUILTINS = ('any', 'list', 'frozenset', 'ValueError', 'len')


def module_bindings(tree):
    binds = {}
    for st in ast.walk(tree):
        if st is tree:
            continue
    for st in tree.body:
        if isinstance(st, (ast.FunctionDef, ast.AsyncFunctionDef, ast.ClassDef)):
            binds.setdefault(st.name, []).append('def')
        elif isinstance(st, ast.ImportFrom):
            for al in st.names:
                binds.setdefault(al.asname or al.name, []).append('from %s import %s' % (st.module, al.name))
        elif isinstance(st, ast.Import):
            for al in st.names:
                binds.setdefault((al.asname or al.name).split('.')[0], []).append('import')
        elif isinstance(st, (ast.Assign, ast.AnnAssign, ast.AugAssign)):
            tgs = st.targets if isinstance(st, ast.Assign) else [st.target]
            for tg in tgs:
                for nn in ast.walk(tg):
                    if isinstance(nn, ast.Name):
                        binds.setdefault(nn.id, []).append('assign')
        elif isinstance(st, (ast.If, ast.Try, ast.For, ast.While, ast.With)):
            for nn in ast.walk(st):
                if isinstance(nn, ast.Name) and isinstance(nn.ctx, ast.Store):
                    binds.setdefault(nn.id, []).append('assign (nested)')
                if isinstance(nn, (ast.FunctionDef, ast.ClassDef)):
                    binds.setdefault(nn.name, []).append('def (nested)')
                if isinstance(nn, (ast.Import, ast.ImportFrom)):
                    for al in nn.names:
                        binds.setdefault((al.asname or al.name).split('.')[0], []).append('import (nested)')
    return binds


def find_qual(tree, qual):
    node = tree
    for part in qual.split('.'):
        nxt = [c for c in node.body if isinstance(c, (ast.FunctionDef, ast.ClassDef)) and c.name == part]
        if len(nxt) != 1:
            return None
        node = nxt[0]
    return node


def check_policy_class(tree, cls, problems):
    """the policy classes may only contain the three translated methods, __init__, a docstring and _token_factory"""
    c = [x for x in tree.body if isinstance(x, ast.ClassDef) and x.name == cls]
    if len(c) != 1:
        problems.append('translator: class %s not found exactly once' % cls)
        return
    c = c[0]
    if c.bases or c.keywords:
        problems.append('translator: class %s has base classes' % cls)
    allowed = {'new_csrf_token', 'get_csrf_token', 'check_csrf_token', '__init__'}
    for st in c.body:
        if isinstance(st, ast.Expr) and isinstance(st.value, ast.Constant):
            continue
        if isinstance(st, ast.FunctionDef) and st.name in allowed and not st.decorator_list:
            continue
        if isinstance(st, ast.Assign) and len(st.targets) == 1 and isinstance(st.targets[0], ast.Name) \
                and st.targets[0].id == '_token_factory':
            continue
        problems.append('translator: unexpected member of class %s: %s' % (cls, u(st).split('\n')[0][:60]))


def load_fallback():
    try:
        with open(FALLBACK) as f:
            return json.load(f)
    except (OSError, ValueError):
        return {}


def translate_tree(src_root, write_fallback=False):
    """-> (coq text, problems, summary)"""
    problems, out, summary = [], [], {}
    fb = load_fallback()
    trees, used_by_file = {}, {}
    for rel in WANT_BINDINGS:
        try:
            with open(os.path.join(src_root, rel)) as f:
                trees[rel] = ast.parse(f.read())
        except (OSError, SyntaxError) as e:
            problems.append('translator: cannot read/parse %s: %s' % (rel, e))
    if 'pyramid/csrf.py' in trees:
        for cls in ('LegacySessionCSRFStoragePolicy', 'SessionCSRFStoragePolicy', 'CookieCSRFStoragePolicy'):
            check_policy_class(trees['pyramid/csrf.py'], cls, problems)
    newfb = {}
    for spec in FUNCS:
        gen = spec['gen']
        if spec.get('glue'):
            out.append(spec['glue'])
            continue
        body = None
        tree = trees.get(spec['file'])
        if tree is not None:
            fn = find_qual(tree, spec['qual'])
            if fn is None:
                problems.append('translator: %s not found (exactly once) in %s' % (spec['qual'], spec['file']))
            else:
                tr = Tr(fn, spec)
                try:
                    term = tr.translate()
                    body = render(term, 2)
                    used_by_file.setdefault(spec['file'], set()).update(tr.used)
                except Problem as e:
                    problems.append('translator: %s: %s' % (spec['qual'], e))
                except RecursionError:
                    problems.append('translator: %s: nesting too deep' % spec['qual'])
        if body is None:
            summary[gen] = 'FALLBACK (stored translation of the reference text)'
            body = fb.get(gen)
            if body is None:
                problems.append('translator: no stored fallback for %s' % gen)
                body = {'bool': 'false', 'tverdict': 'TFail', 'overdict': 'OFail RMissing', 'outcome': 'BadToken',
                        'text*store': '(r_fresh r, st)', 'tverdict*store': '(TFail, st)'}[spec['ret']]
        else:
            summary[gen] = 'translated from source (%d lines of Gallina)' % (body.count('\n') + 1)
            newfb[gen] = body
        out.append('Definition %s %s :=\n  %s.\n' % (gen, spec['sig'], body))
    for rel, tree in trees.items():
        binds = module_bindings(tree)
        for nm in sorted(used_by_file.get(rel, ())):
            want = WANT_BINDINGS[rel].get(nm)
            if want is not None and binds.get(nm) != [want]:
                problems.append('translator: module-level binding of %s in %s is %s, expected %s'
                                % (nm, rel, binds.get(nm) or 'missing', want))
        for nm in BUILTINS:
            if nm in binds:
                problems.append('translator: builtin %s is rebound at module level in %s' % (nm, rel))
    if write_fallback and not problems:
        with open(FALLBACK, 'w') as f:
            json.dump(newfb, f, indent=1, sort_keys=True)
    return '\n'.join(out), problems, summary


HEADER = '''(* GENERATED on every run by harness/c12/translate.py from src/pyramid/{util,csrf,viewderivers}.py -- do not edit.
   Control flow translated mechanically, leaves through the primitive table of the translator. *)
From Coq Require Import List NArith ZArith Bool.
Import ListNotations.
Require Import Verif.Lib.Wire Verif.Lib.Text Verif.Lib.Utf8 Verif.Gen.Facts_C12 Verif.Model.C12.
Open Scope N_scope.

'''

if __name__ == '__main__':
    import sys
    root = sys.argv[1] if len(sys.argv) > 1 and not sys.argv[1].startswith('--') else '/repo/src'
    coq, problems, summary = translate_tree(root, write_fallback='--write-fallback' in sys.argv)
    print(coq)
    for p in problems:
        print('PROBLEM:', p)
    print(summary)
