"""C12 -- CSRF-protected views run only with the stored token and a trusted origin."""
import base64
import json
import os

from harness.common import facts as F
from . import factsx
from .gen import (gen_case, targeted_cases, ascii_lower, ascii_upper, COOKIE_SAFE, NONBOOL, EXPLICIT_OTHER, CALLBACKS,
                  SAFE_KINDS, pyval)
from . import extra

ID = 'C12'
HERE = os.path.dirname(os.path.abspath(__file__))
CASES = {'quick': 6000, 'thorough': 200000}
PARALLEL = True
RULE = ('option combinations (require_csrf True/False/None or a non-bool 0/1/\'\'/str; set_default_csrf_options absent or with '
        'any subset of its arguments incl. token/header None or empty, custom safe methods given as tuple/list/set/frozenset/'
        'generator/iterator, check_origin / allow_no_origin / require_csrf as bool or truthy/falsy non-bool, callbacks returning '
        'True/False/None/0/1/str/[]; the directive\'s leading options passed positionally; the view a function or a class whose '
        '__view_defaults__ (decorator / attribute / inherited) carry their own require_csrf next to the call-level one (absent, '
        'explicit None, True, False, other), registered by add_view, add_exception_view, add_notfound_view (requests to a missing '
        'path), add_forbidden_view (a view raising HTTPForbidden) or @view_config + scan; storage '
        'policies constructed with their own cookie name / session key; pyramid.csrf_trusted_origins given to the Configurator, '
        'added by add_settings after the views were committed, or changed in registry.settings between the requests of a '
        'sequence (origins revoked / added); exception views; 0-3 other views with their own require_csrf in the same application; '
        'session, legacy-session and cookie storage (cookie value plain or quoted); trusted origins from settings or a caller '
        'list/tuple; the two functions called through pyramid.csrf or the deprecated pyramid.session aliases) x sequences of 1-4 requests sharing one trusted-origins list (method, scheme, Host/port or '
        'SERVER_NAME, Origin/Referer variants incl. null, lists, upper case, default ports, userinfo, brackets; token in '
        'header/body/query; equal, prefix, case-changed, empty, non-ASCII tokens); non-trivial = in at least one request of '
        'the sequence the wrapper reached the origin/token checks (checking in force, unsafe method, callback true); '
        'plus two further case kinds: url (urlparse_m vs urllib.parse.urlparse; non-trivial = ValueError or non-empty netloc; '
        'thorough: every string of length <= 4 over a 12-character alphabet, exhaustive) and seq (2-8 requests by 1-3 clients '
        'through the router, each client carrying the session / csrf cookies it was handed, the view body optionally calling '
        'pyramid.csrf.get_csrf_token / new_csrf_token (show / rotate the token); non-trivial = a check was reached); '
        'distinct by full case')
ASSUMPTIONS = [
    'header names and trusted-origin patterns contain only characters whose str.upper()/lower() is the ASCII mapping',
    'Origin/Referer/header values are WSGI native strings (code points < 256); then urllib._checknetloc never raises '
    '(checked for every code point < 256 at harness start-up)',
    'urllib._check_bracketed_host (ipaddress) is an oracle: the harness asks urlsplit about "//[<content>]" for each '
    'bracketed content of the claimed origin and ships the answers; theorems hold for every oracle',
    'request.POST / request.GET / request.cookies are WebOb\'s parse of the request (shipped to the model as parsed items)',
    'the token a storage policy generates when none is held is an input (fixed through _token_factory; unguessable for the '
    'legacy session policy)',
    'tokens are sequences of Unicode scalar values (premise wf_tokens of the gate/400 theorems)',
    'status mapping: a normal view turns BadCSRFToken/BadCSRFOrigin into a 400 response through the default exception '
    'response view; inside an exception view the same exception propagates out of the router',
]
TRUSTED = ['translator harness/c12/translate.py: its PRIMITIVE TABLE (which Python leaf expression / idiom / result constructor '
           'means which primitive of coq/Model/C12.v; ~60 entries, listed in its docstring) and its mechanical statement-to-term '
           'rules; the control flow of is_same_domain, strings_differ, the three storage policies, the session object\'s '
           'get/new_csrf_token, the module-level get/new_csrf_token, check_csrf_token, check_csrf_origin (with _fail) and '
           'csrf_view (with its wrapper), and the data flow set_default_csrf_options -> DefaultCSRFOptions (translate_cfg.py) is '
           'NOT trusted: it is regenerated into coq/Gen/Facts_C12_prog.v every run and proved equal to the reference model',
           'hand-written reference model coq/Model/C12.v (the theorems are about it and, through gen_*_is_model, about the '
           'regenerated program); shape pins remain for the untranslated leaves util.bytes_/text_, '
           'settings.aslist(_cronly), the session plumbing (manage_accessed/changed, CookieSession.__init__/changed/_set_cookie) '
           'and the route of the require_csrf view option outside the anchor files (config.views.viewdefaults(+wrapper), '
           '_derive_view, pyramid.view.view_defaults, view_config.__init__/__call__/callback; fact: add_view is '
           '@viewdefaults @action_method and hands require_csrf unchanged to _derive_view)',
           'WebOb 1.8 fragments modelled by hand: headers._trans_name, Request.host/domain/host_port, MultiDict last-value '
           'lookup (validated by correspondence only)',
           'urllib.parse.urlsplit fragment modelled by hand (characterised by the C12_urlparse_* theorems, exhaustive '
           'small-scope sweep in the thorough tier), constants regenerated from the running interpreter; ipaddress validity as '
           'an oracle',
           'hmac.compare_digest modelled as byte equality; CPython UTF-8/latin-1 encoders modelled by Lib/Utf8.encode']
TECHNIQUE = ('Coq proof about a Gallina program whose control flow is translated from the Python source on every run '
             '(harness/c12/translate.py -> coq/Gen/Facts_C12_prog.v) and proved equal to a hand-written reference model that is '
             'parametric in the three repairs (regenerated facts); the configuration directive\'s data flow into the options '
             'object is regenerated too (harness/c12/translate_cfg.py); + extracted-model differential correspondence through a real '
             'non-autocommit Configurator/router (random statement order and include nesting), per-client request sequences '
             'incl. view bodies that show / rotate the token through the public API '
             'and an exhaustive small-scope sweep of the urlsplit fragment')
LEVEL_TEXT = ('Machine-checked theorems for all configurations, requests and histories, stated about the program regenerated '
              'from src/pyramid/{util,csrf,viewderivers,session,config/security}.py on this run (gen_view_outcome, '
              'gen_check_csrf_origin, gen_check_csrf_token, gen_<policy>_get/new/check, gen_sess_get/new, gen_api_get/new, '
              'gen_is_same_domain, gen_strings_differ, gen_directive_options = the reference model): the protected body '
              'runs iff the declarative token and origin conditions hold (csrf_gate), rejections are '
              'BadCSRFToken/BadCSRFOrigin (rejection_is_400), the body never runs on a failed check for any value of the repair '
              'parameters, is_same_domain has the exact documented characterisation, the query string, the statement order of '
              'the configuration and earlier requests (shared trusted-origins list; interleaved clients with minting storage) '
              'do not influence the verdict, a token is minted exactly when none is held and an empty token is rejected when '
              'none is stored, every argument of set_default_csrf_options reaches the option of the same name (omitted = documented '
              'default), a view body calling get_csrf_token / new_csrf_token never changes the verdict of its own request, '
              'new_csrf_token installs the fresh token and a token handed out before the rotation is refused afterwards, '
              'the require_csrf view option follows the documented two-level precedence (whatever the add_view / view_config call '
              'passes, an explicit None included, replaces the class-level __view_defaults__ value; then the configured default '
              'decides), the trusted-origins setting is the one in force when the request is checked (every verdict of a sequence is the '
              'single-check verdict for that request and the settings of that moment; a revoked origin is refused from the next '
              'request on; end to end: in any interleaving of clients with token-showing / rotating view bodies and a setting that '
              'changes from step to step, each client observes exactly the declarative gate on (its request with the token it '
              'then holds, the setting of that moment) -- C12_e2e_gate), the aslist model yields non-empty whitespace-free patterns '
              'that are exactly the non-whitespace characters of the setting in order and are the maximal whitespace-free runs (a string '
              'laid out as ws t0 ws+ t1 ws+ ... ws splits into exactly [t0; t1; ...]), views registered through add_exception_view / add_notfound_view / add_forbidden_view are never '
              'checked and an exception view is checked only when its own registration says require_csrf=True, '
              'the documented positional order of set_default_csrf_options is the signature order (fact), '
              'the urlsplit fragment extracts scheme/authority of scheme://authority[/...] and raises exactly on '
              'bad brackets; refutations for the unrepaired parameter values.')
LEVEL_NOTE = ('Trusted: Coq kernel; the translator\'s primitive table and statement rules (fail-closed: anything outside '
              'subset/table is a broken tie, never a guess); the leaf primitives of Model/C12.v incl. the WebOb/urllib fragments '
              'and the ipaddress oracle; Python harness. ASCII-case assumption on header names and trusted patterns.')
ALLOWED_AXIOMS = ()


# ------------------------------------------------------------ facts
def facts(src):
    v, summary, problems = factsx.extract(src)
    # the control flow of the core functions, regenerated from the source (harness/c12/translate.py) into a second
    # generated file: the program uses the primitives of Model/C12.v, which imports the constants of Facts_C12.v
    from . import translate
    from harness.common import build
    try:
        gen, tproblems, tsummary = translate.translate_tree(src)
    except Exception as e:                                   # fail closed: stored fallback + broken tie
        fb = translate.load_fallback()
        gen = '\n'.join((sp['glue'] if sp.get('glue') else 'Definition %s %s :=\n  %s.\n' % (sp['gen'], sp['sig'], fb.get(sp['gen'], 'TRANSLATOR_FAILED')))
                        for sp in translate.FUNCS)
        tproblems, tsummary = ['translator crashed: %r' % (e,)], {}
    # the configuration side: data flow set_default_csrf_options -> DefaultCSRFOptions -> the registered options object
    from . import translate_cfg
    try:
        cgen, cproblems, csummary = translate_cfg.translate_tree(src)
    except Exception as e:
        cgen = 'Definition %s %s :=\n  %s.\n' % (translate_cfg.GEN, translate_cfg.SIG, translate_cfg.FALLBACK_BODY)
        cproblems, csummary = ['translator(cfg) crashed: %r' % (e,)], {}
    gen = gen + '\n' + cgen
    tproblems = tproblems + cproblems
    tsummary = dict(tsummary, **csummary)
    build.write_if_changed(os.path.join(build.COQ, 'Gen', 'Facts_C12_prog.v'), translate.HEADER + gen)
    problems += tproblems
    summary.update({'translated:' + k: x for k, x in tsummary.items()})
    summary.update({k: (x if not isinstance(x, list) or len(x) < 12 else 'list of %d' % len(x)) for k, x in v.items()})
    return {'coq': factsx.emit(v), 'summary': summary, 'problems': problems}


# ------------------------------------------------------------ generation
def generate(rng, tier, n):
    for _ in range(n):
        yield gen_case(rng)
    for c in extra.extra_cases(rng, tier, n):
        yield c


def targeted(broken, disagreements, rng):
    return targeted_cases(rng)


def _is_str_list(l):
    return isinstance(l, list) and all(isinstance(s, str) for s in l)


def _ascii_case_ok(s):
    return s.lower() == ascii_lower(s) and s.upper() == ascii_upper(s)


def _scalars_or_surrogates(s):
    return isinstance(s, str)


def _valid_req(cfg, r, seq=False):
    return valid({'config': cfg, 'caller': None, 'raises': False,
                  'reqs': [dict(r, headers=[[k, v.replace(extra.PLACEHOLDER, 'p')] for k, v in r['headers']])]})


def valid(case):
    try:
        if case.get('kind') == 'url':
            return isinstance(case['u'], str) and all(ord(c) < 256 for c in case['u'])
        if case.get('kind') == 'seq':
            if not case['steps'] or not case['clients']:
                return False
            for st in case['clients']:
                if not (st is None or isinstance(st, str) and st.isascii()):
                    return False
                if st and case['config']['storage'] == 'cookie' and any(c not in COOKIE_SAFE for c in st):
                    return False
            for s_ in case['steps']:
                if not (isinstance(s_['client'], int) and 0 <= s_['client'] < len(case['clients'])):
                    return False
                if s_.get('action') not in (None, 'get', 'new'):
                    return False
                if s_['req']['stored'] is not None or not _valid_req(case['config'], s_['req']):
                    return False
                for k, v in s_['req']['headers'] + s_['req']['body']:
                    if not all(ord(c) < 128 or c == extra.PLACEHOLDER for c in v):
                        return False
            return True
        cfg = case['config']
        ex_ = cfg['explicit']
        if not (ex_ is None or isinstance(ex_, bool) or (isinstance(ex_, str) and ex_ in EXPLICIT_OTHER)):
            return False
        vc = cfg.get('view_class')
        if vc is not None:
            if set(vc) - {'how', 'require_csrf'} or vc.get('how') not in ('decorator', 'attr', 'inherited'):
                return False
            cv = vc.get('require_csrf')
            if not (cv is None or isinstance(cv, bool) or (isinstance(cv, str) and cv in NONBOOL)):
                return False
        if cfg.get('explicit_none_passed') not in (None, True, False) or (cfg.get('explicit_none_passed') and ex_ is not None):
            return False
        if cfg.get('exc_api') and not (cfg['exception_only'] and ex_ is False and vc is None):
            return False
        if cfg.get('special') not in (None, 'notfound', 'forbidden'):
            return False
        if cfg.get('special') and not (cfg['exception_only'] and ex_ is False and vc is None and not cfg.get('exc_api')
                                       and not cfg.get('route') and not cfg.get('explicit_none_passed')):
            return False
        pa_ = cfg.get('policy_args')
        if pa_ is not None and not (cfg['storage'] in ('cookie', 'session') and set(pa_) <= {'name', 'positional'}
                                    and isinstance(pa_.get('name'), str) and pa_['name'] and pa_['name'] != 'session'
                                    and all(c in COOKIE_SAFE for c in pa_['name'])):
            return False
        if cfg.get('route') not in (None, 'scan') or (cfg.get('route') and cfg.get('exc_api')):
            return False
        for dv in cfg.get('decoys', []):
            if not (dv['explicit'] is None or isinstance(dv['explicit'], bool)) or dv['pos'] not in ('before', 'after'):
                return False
        if len(cfg.get('decoys', [])) > 3:
            return False
        if cfg['storage'] not in ('legacy', 'session', 'cookie') or not isinstance(cfg['exception_only'], bool):
            return False
        d = cfg['defaults']
        if d is not None:
            if set(d) - {'require_csrf', 'token', 'header', 'safe_methods', 'check_origin', 'allow_no_origin', 'callback',
                          'safe_kind', 'positional'}:
                return False
            if 'positional' in d and not (isinstance(d['positional'], int) and not isinstance(d['positional'], bool)
                                           and 0 <= d['positional'] <= 7):
                return False
            if ('safe_kind' in d) and ('safe_methods' not in d or d['safe_kind'] not in SAFE_KINDS):
                return False
            for k in ('token', 'header'):
                if k in d and d[k] is not None and not (isinstance(d[k], str) and d[k].isascii()
                                                         and all(32 < ord(c) < 127 and c not in ':_' for c in d[k])):
                    return False
            if 'safe_methods' in d and not _is_str_list(d['safe_methods']):
                return False
            for k in ('require_csrf', 'check_origin', 'allow_no_origin'):
                if k in d and not (isinstance(d[k], bool) or (isinstance(d[k], str) and d[k] in NONBOOL)):
                    return False
            if d.get('callback') is not None and d.get('callback') not in CALLBACKS:
                return False
        s = cfg['settings']
        if not (s is None or isinstance(s, str) or _is_str_list(s)):
            return False
        prog = cfg.get('program')
        if prog is not None:
            if sorted(prog['order']) != ['defaults', 'policy', 'session', 'view']:
                return False
            if any(k not in prog['order'] or not isinstance(v, int) or isinstance(v, bool) or not 0 <= v <= 3
                   for k, v in prog.get('depth', {}).items()):
                return False
        pats = ([s] if isinstance(s, str) else (s or [])) + (case['caller'] or [])
        for r_ in case['reqs']:
            sn = r_.get('settings_now')
            if sn is not None:
                if set(sn) != {'v'} or not (sn['v'] is None or isinstance(sn['v'], str) or _is_str_list(sn['v'])):
                    return False
                pats = pats + ([sn['v']] if isinstance(sn['v'], str) else (sn['v'] or []))
        if cfg.get('settings_late') not in (None, True, False):
            return False
        if case['caller'] is not None and not _is_str_list(case['caller']):
            return False
        if not all(_ascii_case_ok(p) for p in pats):
            return False
        if not isinstance(case['raises'], bool) or not case['reqs'] or len(case['reqs']) > 6:
            return False
        if case.get('caller_kind', 'list') not in ('list', 'tuple') or case.get('via', 'csrf') not in ('csrf', 'session'):
            return False
        if case.get('caller_kind') == 'tuple' and case['caller'] is None:
            return False
        for r in case['reqs']:
            if not (isinstance(r['method'], str) and r['method'] and r['method'].isascii()):
                return False
            if r['scheme'] not in ('http', 'https'):
                return False
            if not (r['host'] is None or isinstance(r['host'], str)):
                return False
            if not (isinstance(r['server_name'], str) and isinstance(r['server_port'], str)):
                return False
            seen = set()
            for k, val in r['headers']:
                if not (isinstance(k, str) and k and k.isascii() and isinstance(val, str)):
                    return False
                if any(not (32 < ord(c) < 127) or c in ':_' for c in k):
                    return False
                if ascii_upper(k) in seen or ascii_upper(k) in ('HOST', 'COOKIE', 'CONTENT-TYPE', 'CONTENT-LENGTH'):
                    return False
                seen.add(ascii_upper(k))
                if any(ord(c) > 255 for c in val):
                    return False
            for fld in ('body', 'query'):
                for kv in r[fld]:
                    if not (isinstance(kv, list) and len(kv) == 2 and all(isinstance(x, str) for x in kv)):
                        return False
                    if any(0xD800 <= ord(c) <= 0xDFFF for x in kv for c in x):
                        return False
            if not isinstance(r['content_type'], str) or not r['content_type'].isascii():
                return False
            st = r['stored']
            if not (st is None or isinstance(st, str)):
                return False
            if st is not None and cfg['storage'] == 'cookie' and any(c not in COOKIE_SAFE for c in st):
                return False
        return True
    except Exception:
        return False


# ------------------------------------------------------------ implementation side
_impl = {}
FRESH = 'f7e5h0000token00000000000000fresh'
UNGUESSABLE = '\U0010fffd<unguessable>'
_apps = {}
_cur = {'fresh': FRESH}


class _Ser:
    def dumps(self, v):
        return base64.urlsafe_b64encode(json.dumps(v).encode('ascii'))

    def loads(self, b):
        try:
            return json.loads(base64.urlsafe_b64decode(b).decode('ascii'))
        except Exception:
            raise ValueError('bad cookie')


class Boom(Exception):
    pass


def setup(tier):
    if _impl:
        return
    import unicodedata
    import urllib.parse
    from pyramid.config import Configurator
    from pyramid.request import Request
    from pyramid.response import Response
    from pyramid import csrf as csrfmod
    from pyramid.session import BaseCookieSessionFactory
    from pyramid.exceptions import BadCSRFOrigin, BadCSRFToken
    import warnings
    with warnings.catch_warnings():
        warnings.simplefilter('ignore')
        import pyramid.session as session_mod
    _impl['session_mod'] = session_mod
    # assumption check: no code point < 256 decomposes (NFKC) into something containing / ? # @ :
    for c in range(128, 256):
        if any(x in unicodedata.normalize('NFKC', chr(c)) for x in '/?#@:'):
            raise RuntimeError('assumption broken: NFKC(%r) contains a URL delimiter' % chr(c))
    _impl.update(Configurator=Configurator, Request=Request, Response=Response, csrf=csrfmod,
                 SessionFactory=BaseCookieSessionFactory, BadCSRFOrigin=BadCSRFOrigin, BadCSRFToken=BadCSRFToken,
                 urlsplit=urllib.parse.urlsplit, urlparse=urllib.parse.urlparse)
    extra.register_evidence_patch(ID)


# documented signature of Configurator.set_default_csrf_options (narr/api docs): order and defaults
DOC_ORDER = ['require_csrf', 'token', 'header', 'safe_methods', 'check_origin', 'allow_no_origin', 'callback']
DOC_DEFAULTS = {'require_csrf': True, 'token': 'csrf_token', 'header': 'X-CSRF-Token',
                'safe_methods': ('GET', 'HEAD', 'OPTIONS', 'TRACE'), 'check_origin': True, 'allow_no_origin': False,
                'callback': None}
CB_RET = {'ret-none': None, 'ret-0': 0, 'ret-1': 1, 'ret-str': 'no', 'ret-list': []}


def _callback(kind, calls):
    if kind is None:
        return None

    def cb(request):
        calls.append(1)
        if kind == 'true':
            return True
        if kind == 'false':
            return False
        if kind in CB_RET:
            return CB_RET[kind]                      # truthy / falsy values that are not bool
        return 'Authorization' not in request.headers
    return cb


def _cb_value(kind, req):
    if kind in (None, 'true'):
        return True
    if kind == 'false':
        return False
    if kind in CB_RET:
        return bool(CB_RET[kind])
    return not any(ascii_upper(k) == 'AUTHORIZATION' for k, _ in req['headers'])


def _wrapped_factory(policy):
    """the policy's own factory still runs; a token of the documented form (32 hex digits, fresh each call) is replaced by
    the case's deterministic stand-in, anything else (empty, constant, short) is passed through so that the defect shows"""
    real = type(policy)._token_factory
    seen = []

    def factory():
        t = real()
        ok = isinstance(t, str) and len(t) == 32 and all(c in '0123456789abcdef' for c in t) and t not in seen
        seen.append(t)
        del seen[:-4]
        return _cur['fresh'] if ok else t
    return factory


_SCAN_FN = ("from pyramid.view import view_config\n"
            "@view_config(**KW)\n"
            "def scanned(context, request):\n"
            "    return VIEW(context, request)\n")
_SCAN_CLS = ("from pyramid.view import view_config\n"
             "class Base:\n"
             "    def __init__(self, request):\n"
             "        self.request = request\n"
             "Base = PRE(Base)\n"
             "class Scanned(Base):\n"
             "    @view_config(**KW)\n"
             "    def run(self):\n"
             "        return VIEW(None, self.request)\n"
             "Scanned = POST(Scanned)\n"
             "del Base\n")
_scan_count = [0]


def _scan_module(kw, view, vc, settings):
    """a throw-away module whose single view is declared with @view_config(**kw) -- on a function, or on a method of a class
    that gets its __view_defaults__ by decorator / plain attribute / inheritance -- to be registered by config.scan(module)"""
    import linecache
    import sys
    import types
    from pyramid.view import view_defaults
    _scan_count[0] += 1
    name = 'c12_scanned_%d' % _scan_count[0]
    mod = types.ModuleType(name)
    mod.KW, mod.VIEW = dict(kw), view
    ident = lambda cls: cls
    mod.PRE = mod.POST = ident
    if vc is not None:
        if vc['how'] == 'inherited':
            mod.PRE = view_defaults(**settings)
        elif vc['how'] == 'decorator':
            mod.POST = view_defaults(**settings)
        else:
            def set_attr(cls):
                cls.__view_defaults__ = dict(settings)
                return cls
            mod.POST = set_attr
    src = _SCAN_FN if vc is None else _SCAN_CLS
    linecache.cache[name] = (len(src), None, src.splitlines(True), name)     # view_config reads its source line
    sys.modules[name] = mod
    exec(compile(src, name, 'exec'), mod.__dict__)
    return mod


SETTINGS_KEY = 'pyramid.csrf_trusted_origins'


def _set_settings(registry, value):
    """registry.settings of the (cached, shared) application: the value in force for the next request"""
    if value is None:
        registry.settings.pop(SETTINGS_KEY, None)
    else:
        registry.settings[SETTINGS_KEY] = list(value) if isinstance(value, list) else value


def _settings_for(cfg, r):
    sn = r.get('settings_now')
    return sn['v'] if sn is not None else cfg['settings']


def _settings_wire(v):
    return [] if v is None else [v] if isinstance(v, str) else list(v)


def _store_name(cfg):
    """the cookie name / session key under which the configured policy keeps the token"""
    pa = cfg.get('policy_args')
    if pa and cfg['storage'] in ('cookie', 'session'):
        return pa['name']
    return 'csrf_token' if cfg['storage'] == 'cookie' else '_csrft_'


def _app(cfg):
    key = json.dumps(cfg, sort_keys=True)
    hit = _apps.get(key)
    if hit is not None:
        return hit
    I = _impl
    settings = {}
    if cfg['settings'] is not None and not cfg.get('settings_late'):
        settings['pyramid.csrf_trusted_origins'] = cfg['settings']
    # a real non-autocommit Configurator; the statements are made in the order (and include nesting) the case
    # prescribes and committed once by make_wsgi_app()
    config = I['Configurator'](settings=settings, autocommit=False)
    if cfg['storage'] == 'legacy':
        policy = I['csrf'].LegacySessionCSRFStoragePolicy()
    elif cfg['storage'] == 'session':
        pa = cfg.get('policy_args')
        policy = (I['csrf'].SessionCSRFStoragePolicy() if not pa else
                  I['csrf'].SessionCSRFStoragePolicy(pa['name']) if pa.get('positional') else
                  I['csrf'].SessionCSRFStoragePolicy(key=pa['name']))
        policy._token_factory = _wrapped_factory(policy)
    else:
        pa = cfg.get('policy_args')
        policy = (I['csrf'].CookieCSRFStoragePolicy() if not pa else
                  I['csrf'].CookieCSRFStoragePolicy(pa['name']) if pa.get('positional') else
                  I['csrf'].CookieCSRFStoragePolicy(cookie_name=pa['name']))
        policy._token_factory = _wrapped_factory(policy)
    log = {'ran': 0, 'cb': []}
    d = cfg['defaults']

    def view(context, request):
        log['ran'] += 1
        # the view body may use the public token API (seq cases): show the token / rotate it
        if log.get('action') == 'get':
            log['api'] = I['csrf'].get_csrf_token(request)
        elif log.get('action') == 'new':
            log['api'] = I['csrf'].new_csrf_token(request)
        return I['Response']('ok')

    def st_session(c):
        c.set_session_factory(I['SessionFactory'](_Ser(), cookie_name='session', timeout=None, reissue_time=None))

    def st_policy(c):
        c.set_csrf_storage_policy(policy)

    def st_defaults(c):
        if d is not None:
            kw = {k: pyval(v) for k, v in d.items() if k not in ('callback', 'safe_kind')}
            if 'safe_methods' in kw:
                sm = list(kw['safe_methods'])
                kind = d.get('safe_kind', 'tuple')
                kw['safe_methods'] = {'tuple': tuple, 'list': list, 'set': set, 'frozenset': frozenset, 'iter': iter,
                                      'gen': lambda l: (x for x in l)}[kind](sm)
            kw.pop('positional', None)
            if d.get('callback') is not None:
                kw['callback'] = _callback(d['callback'], log['cb'])
            # the first k options POSITIONALLY, in the documented order (an option the case omits: its documented default)
            args = [kw.pop(nm) if nm in kw else DOC_DEFAULTS[nm] for nm in DOC_ORDER[:d.get('positional', 0)]]
            c.set_default_csrf_options(*args, **kw)

    def st_view(c):
        vkw = {}
        if cfg['explicit'] is not None:
            vkw['require_csrf'] = 'yes' if cfg['explicit'] == 'other' else pyval(cfg['explicit'])
        elif cfg.get('explicit_none_passed'):
            vkw['require_csrf'] = None
        target = view
        vc = cfg.get('view_class')
        if vc is not None:
            from pyramid.view import view_defaults

            class Base:
                def __init__(self, request):
                    self.request = request

                def run(self):
                    return view(None, self.request)
            settings = {'require_csrf': pyval(vc['require_csrf'])} if 'require_csrf' in vc else {}
            if vc['how'] == 'attr':
                Base.__view_defaults__ = dict(settings)
                target = Base
            elif vc['how'] == 'decorator':
                target = view_defaults(**settings)(Base)
            else:
                Parent = view_defaults(**settings)(Base)

                class Child(Parent):
                    pass
                target = Child
            vkw['attr'] = 'run'
        decoys = cfg.get('decoys', [])
        if cfg.get('route') == 'scan':
            vkw.pop('attr', None)                # inferred by view_config from the class scope
            if cfg['exception_only']:
                vkw.update(context=Boom, exception_only=True)
            settings_ = ({'require_csrf': pyval(vc['require_csrf'])} if vc and 'require_csrf' in vc else {})
            scan_target = _scan_module(vkw, view, vc, settings_)

        def add_decoys(pos):
            for i, dv in enumerate(decoys):
                if dv['pos'] != pos:
                    continue

                def decoy(context, request):
                    log['decoy'] = log.get('decoy', 0) + 1
                    return I['Response']('decoy')
                dkw = {} if dv['explicit'] is None else {'require_csrf': dv['explicit']}
                c.add_view(decoy, name='decoy%d' % i, **dkw)
        add_decoys('before')
        if cfg.get('special') == 'notfound':
            # no view is registered for /missing (where these cases send their requests): the Not Found view answers
            c.add_view(lambda context, request: I['Response']('home'), require_csrf=False)
            c.add_notfound_view(target)
        elif cfg.get('special') == 'forbidden':
            from pyramid.httpexceptions import HTTPForbidden

            def refuser(context, request):
                raise HTTPForbidden()
            c.add_view(refuser, require_csrf=False)
            c.add_forbidden_view(target)
        elif cfg['exception_only']:
            def raiser(context, request):
                raise Boom()
            c.add_view(raiser, require_csrf=False)
            if cfg.get('route') == 'scan':
                c.scan(scan_target)
            elif cfg.get('exc_api'):
                c.add_exception_view(target, context=Boom)
            else:
                c.add_view(target, context=Boom, exception_only=True, **vkw)
        elif cfg.get('route') == 'scan':
            c.scan(scan_target)
        else:
            c.add_view(target, **vkw)
        add_decoys('after')

    stmts = {'session': st_session, 'policy': st_policy, 'defaults': st_defaults, 'view': st_view}
    prog = cfg.get('program') or {'order': ['session', 'policy', 'defaults', 'view'], 'depth': {}}

    counter = [0]

    def nested(fn, depth):
        if depth <= 0:
            return fn
        inner = nested(fn, depth - 1)

        def includeme(c):
            inner(c)
        # config.include() skips a callable whose module:name it has already processed
        counter[0] += 1
        includeme.__name__ = 'includeme_%d' % counter[0]
        return lambda c: c.include(includeme)

    for name in prog['order']:
        if name == 'policy' and prog.get('default_policy') and cfg['storage'] == 'legacy':
            continue            # no set_csrf_storage_policy: Configurator.add_default_security installs the legacy policy
        nested(stmts[name], prog.get('depth', {}).get(name, 0))(config)

    config.add_tween('harness.c12.prop.capture_tween_factory')
    if cfg.get('settings_late'):
        # everything stated so far is committed (the views are derived); only then does the setting arrive
        config.commit()
        if cfg['settings'] is not None:
            config.add_settings({SETTINGS_KEY: cfg['settings']})
    app = config.make_wsgi_app()
    hit = (app, config.registry, log, policy)
    _apps[key] = hit
    return hit


def capture_tween_factory(handler, registry):
    """public seam: a tween above the exception-view tween records which exception was rendered"""
    def tween(request):
        try:
            return handler(request)
        finally:
            request.environ['harness.exception'] = getattr(request, 'exception', None)
    return tween


def _environ(cfg, r):
    import io
    import urllib.parse as up
    env = {
        'REQUEST_METHOD': r['method'], 'SCRIPT_NAME': '',
        'PATH_INFO': '/missing' if cfg.get('special') == 'notfound' else '/', 'SERVER_PROTOCOL': 'HTTP/1.1',
        'SERVER_NAME': r['server_name'], 'SERVER_PORT': r['server_port'], 'wsgi.url_scheme': r['scheme'],
        'wsgi.version': (1, 0), 'wsgi.multithread': False, 'wsgi.multiprocess': False, 'wsgi.run_once': False,
        'QUERY_STRING': up.urlencode([tuple(kv) for kv in r['query']]),
    }
    if r['host'] is not None:
        env['HTTP_HOST'] = r['host']
    for k, v in r['headers']:
        env['HTTP_' + ascii_upper(k).replace('-', '_')] = v
    cookies = []
    if cfg['storage'] in ('legacy', 'session'):
        state = {} if r['stored'] is None else {_store_name(cfg): r['stored']}
        cookies.append('session=' + _Ser().dumps([1.0, 1.0, state]).decode('ascii'))
    elif r['stored'] is not None:
        cookies.append(('%s="%s"' if r.get('cookie_quoted') else '%s=%s') % (_store_name(cfg), r['stored']))
    if cookies:
        env['HTTP_COOKIE'] = '; '.join(cookies)
    body = up.urlencode([tuple(kv) for kv in r['body']]).encode('ascii')
    env['CONTENT_TYPE'] = r['content_type']
    env['CONTENT_LENGTH'] = str(len(body))
    return env, body


def _mk_request(cfg, r, registry=None):
    import io
    env, body = _environ(cfg, r)
    env['wsgi.input'] = io.BytesIO(body)
    env['wsgi.errors'] = io.StringIO()
    req = _impl['Request'](env)
    if registry is not None:
        req.registry = registry
    return req


def _reason(msg):
    pre = 'Origin checking failed - '
    if not msg.startswith(pre):
        return ['msg', msg[:60]]
    m = msg[len(pre):]
    if m == 'missing Origin or Referer.':
        return 0
    if m == 'null does not match any trusted origins.':
        return 1
    if m == 'Origin could not be parsed.':
        return 2
    if m == 'Origin is insecure while host is secure.':
        return 3
    if m.endswith(' does not match any trusted origins.'):
        return 4
    return ['msg', m[:60]]


def _exc_obs(e):
    I = _impl
    if isinstance(e, I['BadCSRFOrigin']):
        return [1, _reason(str(e.detail if getattr(e, 'detail', None) else e))]
    if isinstance(e, I['BadCSRFToken']):
        return [2]
    if isinstance(e, UnicodeEncodeError):
        return [3, 0]
    if isinstance(e, ValueError):
        return [3, 1]
    return ['exc', type(e).__name__]


def _effective(cfg):
    """token/header/allow_no_origin in force (harness-side copy used only to call the two functions directly)."""
    d = cfg['defaults']
    if d is None:
        return 'csrf_token', 'X-CSRF-Token', False
    return d.get('token', 'csrf_token'), d.get('header', 'X-CSRF-Token'), pyval(d.get('allow_no_origin', False))


def _held(cfg, jar):
    """the token the client's cookies hold (None = none)"""
    if cfg['storage'] == 'cookie':
        return jar.get(_store_name(cfg))
    if 'session' not in jar:
        return None
    try:
        return _Ser().loads(jar['session'].encode('ascii'))[2].get(_store_name(cfg))
    except Exception:
        return None


def _canon_held(cfg, tok, known):
    if tok is None:
        return []
    if tok.startswith('\U0010fffd') or (cfg['storage'] == 'legacy' and tok not in known):
        return ['MINTED']
    return [tok]


def _run_seq(case):
    import io
    I = _impl
    cfg = case['config']
    app, registry, log, policy = _app(cfg)
    _set_settings(registry, cfg['settings'])
    jars = []
    for st in case['clients']:
        jar = {}
        if st is not None:
            if cfg['storage'] == 'cookie':
                jar[_store_name(cfg)] = st
            else:
                jar['session'] = _Ser().dumps([1.0, 1.0, {_store_name(cfg): st}]).decode('ascii')
        jars.append(jar)
    known = set(s for s in case['clients'] if s is not None)
    out = []
    for i, step in enumerate(case['steps']):
        jar = jars[step['client']]
        held = _held(cfg, jar)
        r = dict(step['req'])
        res = (lambda v: v.replace(extra.PLACEHOLDER, held or '') if v == extra.PLACEHOLDER else v)
        r['headers'] = [[k, res(v)] for k, v in r['headers']]
        r['body'] = [[k, res(v)] for k, v in r['body']]
        env, body = _environ(cfg, r)
        env.pop('HTTP_COOKIE', None)
        if jar:
            env['HTTP_COOKIE'] = '; '.join('%s=%s' % kv for kv in sorted(jar.items()))
        env['wsgi.input'] = io.BytesIO(body)
        env['wsgi.errors'] = io.StringIO()
        status = [-1]
        setc = []

        def start_response(st, headers, exc_info=None):
            status[0] = int(st.split(' ', 1)[0])
            setc.extend(v for k, v in headers if k.lower() == 'set-cookie')

        log['ran'] = 0
        log['action'] = step.get('action')
        del log['cb'][:]
        _cur['fresh'] = 'fresh-%d' % i
        try:
            it = app(env, start_response)
            try:
                for _ in it:
                    pass
            finally:
                if hasattr(it, 'close'):
                    it.close()
            if log['ran']:
                view = [0]
            else:
                exc = env.get('harness.exception')
                view = _exc_obs(exc) if exc is not None else ['no-run', status[0]]
            for sc in setc:
                name, _, val = sc.split(';', 1)[0].partition('=')
                jar[name.strip()] = val.strip().strip('"')
        except Exception as e:
            status[0] = -1
            view = _exc_obs(e)
        finally:
            _cur['fresh'] = FRESH
            log['action'] = None
        out.append([view, status[0], _canon_held(cfg, _held(cfg, jar), known)])
    return out


def run_impl(case):
    if not _impl:
        setup('quick')
    I = _impl
    if case.get('kind') == 'url':
        try:
            p = I['urlparse'](case['u'])
            return [0, p.scheme, p.netloc]
        except ValueError:
            return [1]
    if case.get('kind') == 'seq':
        return _run_seq(case)
    cfg = case['config']
    app, registry, log, policy = _app(cfg)
    token, header, allow = _effective(cfg)
    shared = None if case['caller'] is None else (tuple if case.get('caller_kind') == 'tuple' else list)(case['caller'])
    fmod = I['session_mod'] if case.get('via') == 'session' else I['csrf']
    steps = []
    for r in case['reqs']:
        _set_settings(registry, _settings_for(cfg, r))       # the setting in force when this request is checked
        # (a) through the router
        log['ran'] = 0
        del log['cb'][:]
        env, body = _environ(cfg, r)
        import io
        env['wsgi.input'] = io.BytesIO(body)
        env['wsgi.errors'] = io.StringIO()
        status = [-1]

        def start_response(st, headers, exc_info=None):
            status[0] = int(st.split(' ', 1)[0])

        try:
            it = app(env, start_response)
            try:
                for _ in it:
                    pass
            finally:
                if hasattr(it, 'close'):
                    it.close()
            if log['ran']:
                view = [0]
            else:
                # a response produced without the body running: which exception was rendered
                exc = env.get('harness.exception')
                view = _exc_obs(exc) if exc is not None else ['no-run', status[0]]
        except Exception as e:
            status[0] = -1
            view = _exc_obs(e)
            if log['ran']:
                view = ['ran-and-raised'] + view
        if log['ran'] > 1:
            view = ['ran-twice']
        # (b) check_csrf_token directly
        try:
            req = _mk_request(cfg, r, registry)
            res = fmod.check_csrf_token(req, token, header, raises=case['raises'])
            tv = [1] if res is True else [0] if res is False else ['ret', repr(res)]
        except I['BadCSRFToken']:
            tv = [0] if case['raises'] else ['raised-despite-raises-false']
        except Exception as e:
            tv = _exc_obs(e)
        # (c) check_csrf_origin directly, sharing one list object over the sequence
        try:
            req = _mk_request(cfg, r, registry)
            res = fmod.check_csrf_origin(req, trusted_origins=shared, allow_no_origin=allow, raises=case['raises'])
            ov = [1] if res is True else [0] if res is False else ['ret', repr(res)]
        except I['BadCSRFOrigin'] as e:
            ov = [0, _reason(str(e.detail))] if case['raises'] else ['raised-despite-raises-false']
        except Exception as e:
            ov = _exc_obs(e)
        steps.append([view, status[0], len(log['cb']), tv, ov])
    _set_settings(registry, cfg['settings'])
    if log.get('decoy'):
        steps.append(['decoy-view-ran', log.pop('decoy')])
    return [steps, list(shared) if shared is not None else []]


# ------------------------------------------------------------ wire
def _v6_table(origins):
    tab = {}
    for o in origins:
        u = ''.join(c for c in o if c not in '\t\r\n')
        for i, ch in enumerate(u):
            if ch != '[':
                continue
            j = i + 1
            while j < len(u) and u[j] not in '/?#]':
                j += 1
            content = u[i + 1:j]
            if content in tab:
                continue
            try:
                _impl['urlsplit']('//[' + content + ']')
                tab[content] = 1
            except ValueError:
                tab[content] = 0
    return [[k, v] for k, v in sorted(tab.items())]


def _opt(x):
    return [] if x is None else [x]


def _req_wire(cfg, r):
    env, body = _environ(cfg, r)
    clone = _mk_request(cfg, r)
    post = [[k, v] for k, v in clone.POST.items() if isinstance(v, str)]
    query = [[k, v] for k, v in clone.GET.items()]
    if cfg['storage'] == 'cookie':
        stored = clone.cookies.get(_store_name(cfg))
    else:
        stored = r['stored']
    fresh = UNGUESSABLE if cfg['storage'] == 'legacy' else FRESH
    d = cfg['defaults'] or {}
    cbv = _cb_value(d.get('callback'), r)
    envs = sorted([k, v] for k, v in env.items() if isinstance(v, str))
    origins = []
    if 'HTTP_ORIGIN' in env:
        origins += env['HTTP_ORIGIN'].split(' ')
    if 'HTTP_REFERER' in env:
        origins.append(env['HTTP_REFERER'])
    return [envs, post, query, _opt(stored), fresh, cbv, _v6_table(origins)]


def _defaults_first(cfg):
    prog = cfg.get('program')
    if not prog:
        return True
    return prog['order'].index('defaults') < prog['order'].index('view')


def _cfg_wire(cfg):
    return to_wire({'config': cfg, 'caller': None, 'reqs': []})[0]


def to_wire(case):
    if not _impl:
        setup('quick')
    if case.get('kind') == 'url':
        return [1, case['u'], _v6_table([case['u']])]
    if case.get('kind') == 'seq':
        cfg = case['config']
        steps = []
        for i, st in enumerate(case['steps']):
            w = _req_wire(cfg, st['req'])
            w[3] = []
            w[4] = (UNGUESSABLE + str(i)) if cfg['storage'] == 'legacy' else 'fresh-%d' % i
            steps.append([st['client'], w, {None: 0, 'get': 1, 'new': 2}[st.get('action')]])
        return [2, _cfg_wire(cfg), [[k, _opt(s)] for k, s in enumerate(case['clients'])], steps]
    cfg = case['config']
    d = cfg['defaults']
    if d is None:
        dw = []
    else:
        def arg(k, f=lambda x: x):
            return [f(d[k])] if k in d else []
        def truth(x):
            return bool(pyval(x))
        dw = [[arg('require_csrf', truth), arg('token', _opt), arg('header', _opt), arg('safe_methods', list),
               arg('check_origin', truth), arg('allow_no_origin', truth), d.get('callback') is not None]]
    ex = cfg['explicit']
    s = cfg['settings']
    def level(given, val):
        return [] if not given else [[val]] if isinstance(val, bool) else [[]]
    vc = cfg.get('view_class')
    cls_level = level(vc is not None and 'require_csrf' in vc, vc.get('require_csrf') if vc else None)
    call_level = level(ex is not None or bool(cfg.get('explicit_none_passed')), ex)
    exw = [7] if (cfg.get('special') or cfg.get('exc_api')) else [cls_level, call_level]
    cw = [exw, dw, cfg['exception_only'],
          {'legacy': 0, 'session': 1, 'cookie': 2}[cfg['storage']],
          [] if s is None else [s] if isinstance(s, str) else list(s),
          _defaults_first(cfg)]
    caller = [] if case['caller'] is None else [list(case['caller'])]
    return [cw, caller, [_req_wire(cfg, r) + [[] if r.get('settings_now') is None else [_settings_wire(r['settings_now']['v'])]]
                         for r in case['reqs']]]


def from_wire(case, raw):
    if case.get('kind') == 'url':
        if raw == [['bad']] or not raw or raw[0] not in (0, 1):
            return {'model': ['MODEL-BAD', raw], 'spec': None}
        return {'model': raw, 'spec': None}
    if case.get('kind') == 'seq':
        if raw == [['bad']] or not isinstance(raw, list) or len(raw) != 2:
            return {'model': ['MODEL-BAD', raw], 'spec': None}
        eo = case['config']['exception_only']
        known = set(s for s in case['clients'] if s is not None)
        out = []
        for view, held in raw[0]:
            status = 200 if view == [0] else (400 if view[0] in (1, 2) and not eo else -1)
            out.append([view, status, _canon_held(case['config'], held[0] if held else None, known)])
        return {'model': out, 'spec': raw[1]}
    if raw == [['bad']] or not isinstance(raw, list) or len(raw) != 3:
        return {'model': ['MODEL-BAD', raw], 'spec': None}
    steps, caller_after, specs = raw
    eo = case['config']['exception_only']
    out = []
    for view, cbc, tv, ov in steps:
        status = 200 if view == [0] else (400 if view[0] in (1, 2) and not eo else -1)
        ncb = cbc   # the callback is called exactly once when reached
        if not case['raises'] and ov and ov[0] == 0:
            ov = [0]
        out.append([view, status, ncb, tv, ov])
    after = caller_after[0] if caller_after else []
    return {'model': [out, after], 'spec': specs}


# ------------------------------------------------------------ judging
def _step_verdict(case, step, sp):
    """True / False / None for one request of the sequence (sp from the extracted spec)."""
    runs, tok_ok, org_ok, wf, pdef = sp
    view, status, ncb, tv, ov = step
    eo = case['config']['exception_only']
    if not wf:
        return None
    # body runs exactly when the spec says so
    ran = (view == [0])
    if ran != bool(runs):
        return False
    if not ran:
        # rejected as a bad request (when urllib answered for the origin)
        if pdef and not (isinstance(view, list) and view and view[0] in (1, 2)):
            return False
        if view and view[0] in (1, 2) and not eo and status != 400:
            return False
    elif status != 200:
        return False
    # the two functions: verdict = declarative condition, never an exception
    if tv not in ([0], [1]) or (tv == [1]) != bool(tok_ok):
        return False
    if pdef:
        if not ov or ov[0] not in (0, 1) or (ov[0] == 1) != bool(org_ok):
            return False
    return True


def _seq_holds(case, obs, spec):
    res = []
    eo = case['config']['exception_only']
    for st, sp in zip(obs, spec):
        runs, wf, pdef = sp
        view, status, held = st
        if not wf:
            res.append(None)
            continue
        ran = (view == [0])
        if ran != bool(runs):
            return False
        if not ran and pdef and not (isinstance(view, list) and view and view[0] in (1, 2)):
            return False
        if not ran and view and view[0] in (1, 2) and not eo and status != 400:
            return False
        res.append(True)
    return None if all(r is None for r in res) else True


def spec_holds(case, obs, spec):
    if spec is None:
        return None
    if case.get('kind') == 'seq':
        try:
            if len(obs) != len(spec):
                return False
            return _seq_holds(case, obs, spec)
        except Exception:
            return False
    try:
        steps = obs[0]
        if len(steps) != len(spec):
            return False
        res = [_step_verdict(case, st, sp) for st, sp in zip(steps, spec)]
    except Exception:
        return False
    if any(r is False for r in res):
        return False
    if all(r is None for r in res):
        return None
    return True


FINDINGS = {
    'C12-trusted-origins-list-mutated': 'shared list',
    'C12-nonlatin1-token-500': 'unicode',
    'C12-unparsable-origin-500': 'valueerror',
}


def classify(case, obs, spec):
    """Which listed finding exactly explains the failure (all three are fixed-pending, none is open)."""
    if case.get('kind') in ('url', 'seq'):
        return None
    try:
        steps = obs[0]
        kinds_ = set()
        for st, sp in zip(steps, spec):
            if _step_verdict(case, st, sp) is not False:
                continue
            view, status, ncb, tv, ov = st
            runs, tok_ok, org_ok, wf, pdef = sp
            if view == [3, 0] or tv == [3, 0]:
                kinds_.add('C12-nonlatin1-token-500')
            elif view == [3, 1] or ov == [3, 1]:
                kinds_.add('C12-unparsable-origin-500')
            elif case['caller'] is not None and ov and ov[0] == 1 and not org_ok and (view == [0]) == bool(runs) \
                    and tv in ([0], [1]) and (tv == [1]) == bool(tok_ok):
                kinds_.add('C12-trusted-origins-list-mutated')
            else:
                return None
        return sorted(kinds_)[0] if len(kinds_) == 1 else None
    except Exception:
        return None


def explain(item):
    if item['case'].get('kind') in ('url', 'seq'):
        return {'kind': item['case'].get('kind')}
    try:
        return {'finding': classify(item['case'], item['impl'], item['spec']),
                'per_request': [{'observed': st, 'spec[runs,token_ok,origin_ok,wf,parse_defined]': sp}
                                for st, sp in zip(item['impl'][0], item['spec'])]}
    except Exception:
        return None


def nontrivial(case, obs):
    if case.get('kind') == 'url':
        return obs == [1] or (len(obs) == 3 and obs[2] != '')
    if case.get('kind') == 'seq':
        return any(_reached(case, st['req']) for st in case['steps'])
    try:
        return any(_reached(case, r) for r in case['reqs'])
    except Exception:
        return False


def _reached(case, r):
    """harness-side estimate (for statistics only): checking in force, unsafe method, callback true."""
    cfg = case['config']
    d = cfg['defaults']
    ex = cfg['explicit']
    vc_ = cfg.get('view_class')
    if ex is None and not cfg.get('explicit_none_passed') and vc_ and isinstance(vc_.get('require_csrf'), bool):
        ex = vc_['require_csrf']
    if d is None:
        req, tok, hdr, safe, cb = False, 'csrf_token', 'X-CSRF-Token', ['GET', 'HEAD', 'OPTIONS', 'TRACE'], None
    else:
        req, tok, hdr = pyval(d.get('require_csrf', True)), d.get('token', 'csrf_token'), d.get('header', 'X-CSRF-Token')
        safe, cb = d.get('safe_methods', ['GET', 'HEAD', 'OPTIONS', 'TRACE']), d.get('callback')
    enabled = (ex is True or (ex is not False and req and not cfg['exception_only'])) and bool(tok or hdr)
    return bool(enabled and r['method'] not in safe and _cb_value(cb, r))


def kinds(case, obs):
    if case.get('kind') == 'url':
        ks = ['urlparse-sweep' if case.get('sweep') else 'urlparse-random']
        ks.append('url-valueerror' if obs == [1] else 'url-netloc' if len(obs) == 3 and obs[2] else 'url-no-netloc')
        return ks
    if case.get('kind') == 'seq':
        ks = ['seq', 'seq-storage-' + case['config']['storage'], 'seq-clients-%d' % len(case['clients'])]
        try:
            prev = {}
            for st, o in zip(case['steps'], obs):
                if st.get('action') and o[0] == [0]:
                    ks.append('seq-body-' + st['action'])
                ks.append('seq-ran' if o[0] == [0] and _reached(case, st['req']) else 'seq-ran-unchecked' if o[0] == [0]
                          else 'seq-bad-token' if o[0][0] == 2 else 'seq-bad-origin' if o[0][0] == 1 else 'seq-raised')
                before = prev.get(st['client'], 'init')
                if before != 'init' and before != o[2]:
                    ks.append('seq-state-changed')
                elif before == 'init' and o[2] and o[2] != ([case['clients'][st['client']]] if case['clients'][st['client']] is not None else []):
                    ks.append('seq-minted')
                prev[st['client']] = o[2]
        except Exception:
            ks.append('unreadable-observation')
        return ks
    ks = ['storage-' + case['config']['storage'], 'history-%d' % len(case['reqs']),
          'stmt-defaults-%s' % ('absent' if case['config']['defaults'] is None else
                                'before-view' if _defaults_first(case['config']) else 'after-view'),
          'stmt-nesting-%d' % max([0] + list((case['config'].get('program') or {}).get('depth', {}).values())),
          'stmt-policy-%s' % ('default' if (case['config'].get('program') or {}).get('default_policy')
                               and case['config']['storage'] == 'legacy' else 'explicit'),
          'caller-%s' % case.get('caller_kind', 'list') if case['caller'] is not None else 'settings-list',
          'via-%s-module' % case.get('via', 'csrf'), 'decoy-views-%d' % len(case['config'].get('decoys', []))]
    d_ = case['config']['defaults'] or {}
    if isinstance(case['config']['explicit'], str):
        ks.append('explicit-nonbool-' + case['config']['explicit'])
    for k_ in ('require_csrf', 'check_origin', 'allow_no_origin'):
        if isinstance(d_.get(k_), str):
            ks.append('default-nonbool-flag')
    if d_.get('callback') in CB_RET:
        ks.append('callback-nonbool-return')
    if 'safe_kind' in d_:
        ks.append('safe-methods-as-' + d_['safe_kind'])
    vc_ = case['config'].get('view_class')
    if vc_ is not None:
        ks.append('view-class-%s-%s' % (vc_['how'], 'with-default' if 'require_csrf' in vc_ else 'plain'))
        if 'require_csrf' in vc_ and (case['config']['explicit'] is not None or case['config'].get('explicit_none_passed')):
            ks.append('view-option-both-levels' + ('-call-none' if case['config']['explicit'] is None else ''))
    if case['config'].get('explicit_none_passed'):
        ks.append('explicit-none-passed')
    if any(r_.get('settings_now') is not None for r_ in case['reqs']):
        ks.append('settings-changed-at-run-time')
    if case['config'].get('settings_late'):
        ks.append('settings-added-after-commit')
    if case['config'].get('policy_args'):
        ks.append('policy-custom-name-' + ('positional' if case['config']['policy_args'].get('positional') else 'keyword'))
    if case['config'].get('exc_api'):
        ks.append('add-exception-view')
    if case['config'].get('special'):
        ks.append('add-%s-view' % case['config']['special'])
    if case['config'].get('route'):
        ks.append('route-%s-%s' % (case['config']['route'], 'method' if vc_ else 'function'))
    if 'positional' in d_:
        ks.append('directive-positional-%d' % d_['positional'])
    if any(r_.get('cookie_quoted') for r_ in case['reqs']):
        ks.append('cookie-quoted')
    try:
        for r, st in zip(case['reqs'], obs[0]):
            view = st[0]
            reached = _reached(case, r)
            if view == [0]:
                ks.append('ran-checked' if reached else 'ran-unchecked')
            elif view[0] == 1:
                ks.append('bad-origin-%s' % (view[1],))
            elif view[0] == 2:
                ks.append('bad-token')
            else:
                ks.append('raised-%s' % (view[1:],))
            ks.append('fn-token-%s' % (st[3][0],))
            ks.append('fn-origin-%s' % ('-'.join(str(x) for x in st[4]),))
            ks.append('scheme-' + r['scheme'])
    except Exception:
        ks.append('unreadable-observation')
    return ks


def describe(case):
    return case
