"""C12 case generator: configurations x request sequences sharing one trusted-origins list."""
import string

COOKIE_SAFE = set(string.ascii_letters + string.digits + "!#$%&'*+-.^_`|~")

HOSTS = ['example.com', 'a.example.com', 'evil.com', 'evilexample.com', 'localhost', 'EXAMPLE.com',
         '127.0.0.1', '[::1]', 'b.a.example.com']
PORTS = [None, None, None, '80', '443', '8080', '6543']
METHODS = ['POST'] * 8 + ['PUT', 'DELETE', 'PATCH', 'GET', 'GET', 'HEAD', 'OPTIONS', 'TRACE', 'post', 'PURGE']
STORED = ['a1b2c3d4', '0123456789abcdef0123456789abcdef', 'Tok-En', 'x']
TOKEN_NAMES = ['csrf_token', 'tok', None, '']
HEADER_NAMES = ['X-CSRF-Token', 'X-Tok', None, '', 'x-csrf-token', 'Referer']
SAFE_SETS = [['GET', 'HEAD', 'OPTIONS', 'TRACE'], ['GET'], [], ['GET', 'POST'], ['get', 'HEAD']]
# values that are not bool where the code tests truth / identity: label -> Python value (harness/c12/prop.py:pyval)
NONBOOL = {'int0': 0, 'int1': 1, 'none': None, 'str': 'yes', 'empty': ''}
EXPLICIT_OTHER = ['other', 'int0', 'int1', 'empty']          # require_csrf= view option that is neither True nor False
CALLBACKS = ['true', 'false', 'auth', 'auth', 'ret-none', 'ret-0', 'ret-1', 'ret-str', 'ret-list']
SAFE_KINDS = ['tuple', 'tuple', 'list', 'set', 'frozenset', 'gen', 'iter']


def pyval(x):
    return NONBOOL[x] if isinstance(x, str) and x in NONBOOL else x


def gen_flag(rng, p_true):
    if rng.random() < 0.12:
        return rng.choice(sorted(NONBOOL))
    return rng.random() < p_true


def ascii_lower(s):
    return ''.join(chr(ord(c) + 32) if 'A' <= c <= 'Z' else c for c in s)


def ascii_upper(s):
    return ''.join(chr(ord(c) - 32) if 'a' <= c <= 'z' else c for c in s)


def gen_config(rng, hostpool):
    r = rng.random()
    explicit = True if r < 0.45 else None if r < 0.8 else False if r < 0.9 else rng.choice(EXPLICIT_OTHER)
    defaults = None
    if rng.random() < 0.65:
        defaults = {}
        if rng.random() < 0.6:
            defaults['require_csrf'] = gen_flag(rng, 0.8)
        if rng.random() < 0.3:
            defaults['token'] = rng.choice(TOKEN_NAMES)
        if rng.random() < 0.3:
            defaults['header'] = rng.choice(HEADER_NAMES)
        if rng.random() < 0.3:
            defaults['safe_methods'] = list(rng.choice(SAFE_SETS))
            defaults['safe_kind'] = rng.choice(SAFE_KINDS)
        if rng.random() < 0.35:
            defaults['check_origin'] = gen_flag(rng, 0.6)
        if rng.random() < 0.4:
            defaults['allow_no_origin'] = gen_flag(rng, 0.6)
        if rng.random() < 0.3:
            defaults['callback'] = rng.choice(CALLBACKS)
    settings = None
    r = rng.random()
    if r < 0.45:
        pats = gen_patterns(rng, hostpool)
        if rng.random() < 0.5:
            settings = rng.choice([' ', '\n', '\n  ', '\t']).join(pats)
        else:
            settings = pats
    cfg = {'explicit': explicit, 'defaults': defaults, 'exception_only': rng.random() < 0.1,
           'storage': rng.choice(['session', 'session', 'cookie', 'cookie', 'legacy']), 'settings': settings}
    if rng.random() < 0.85:
        # the configuration program: statement order and include nesting (committed once)
        order = ['session', 'policy', 'defaults', 'view']
        rng.shuffle(order)
        depth = {k: rng.choice([0, 0, 1, 1, 2, 3]) for k in order if rng.random() < 0.5}
        cfg['program'] = {'order': order, 'depth': depth}
        if cfg['storage'] == 'legacy' and rng.random() < 0.5:
            cfg['program']['default_policy'] = True
    if rng.random() < 0.3:
        # the view is a CLASS, possibly with @view_defaults / __view_defaults__ carrying require_csrf (directly or inherited)
        cls = {'how': rng.choice(['decorator', 'attr', 'inherited'])}
        if rng.random() < 0.75:
            cls['require_csrf'] = rng.choice([True, False, False, False, None, 'int0'])
        cfg['view_class'] = cls
    if cfg['storage'] in ('cookie', 'session') and rng.random() < 0.25:
        # the policy constructed with its own cookie name / session key (first constructor argument, positional or keyword)
        cfg['policy_args'] = {'name': rng.choice(['alt_tok', 'X-T', '_csrf2_']), 'positional': rng.random() < 0.5}
    if rng.random() < 0.15:
        cfg['settings_late'] = True              # the setting is added (add_settings) after the views were committed
    if rng.random() < 0.2:
        cfg['route'] = 'scan'                    # registered by @view_config(..) + config.scan(module), not by add_view
    if explicit is None and rng.random() < 0.4:
        cfg['explicit_none_passed'] = True       # add_view(.., require_csrf=None) spelled out
    if cfg['exception_only'] and explicit is False and 'view_class' not in cfg and 'route' not in cfg and rng.random() < 0.5:
        cfg['exc_api'] = True                    # registered through add_exception_view (which opts out itself)
    if 'view_class' not in cfg and 'route' not in cfg and not cfg.get('exc_api') and rng.random() < 0.06:
        # the view under test is the application's Not Found / Forbidden view (add_notfound_view / add_forbidden_view)
        cfg.update(exception_only=True, explicit=False, special=rng.choice(['notfound', 'forbidden']))
        cfg.pop('explicit_none_passed', None)
        explicit = False
    d_ = cfg['defaults']
    if d_ is not None and rng.random() < 0.35:
        d_['positional'] = rng.choice([1, 2, 3, 4, 5, 6, 6, 6, 7])   # that many leading options passed POSITIONALLY
    if rng.random() < 0.3:
        # other views of the same application, derived with their own require_csrf (before / after the one under test)
        cfg['decoys'] = [{'explicit': rng.choice([True, False, None, True, False]), 'pos': rng.choice(['before', 'after'])}
                         for _ in range(rng.choice([1, 2, 3]))]
    return cfg


def gen_patterns(rng, hostpool):
    n = rng.choice([0, 1, 1, 2, 3])
    out = []
    for _ in range(n):
        h = rng.choice(hostpool + HOSTS)
        r = rng.random()
        if r < 0.3:
            out.append(h)
        elif r < 0.55:
            out.append('.' + h.split('.', 1)[-1] if '.' in h else '.' + h)
        elif r < 0.65:
            out.append('.' + h)
        elif r < 0.75:
            out.append(h + ':' + rng.choice(['8080', '443', '6543']))
        elif r < 0.82:
            out.append(h.upper())
        elif r < 0.88:
            out.append('null')
        elif r < 0.92:
            out.append('.')
        elif r < 0.95:
            out.append('*.' + h)
        else:
            out.append('.Example.COM')
    return out


def host_of(r):
    """host[:port] as a browser would write the origin of this request"""
    if r['host'] is not None:
        return r['host']
    if r['server_port'] in ('80', '443'):
        return r['server_name']
    return r['server_name'] + ':' + r['server_port']


def gen_origin(rng, r, others, trusted):
    """an Origin/Referer value relative to request r; `others` = hosts of other requests of the sequence"""
    own = host_of(r)
    dom = own.rsplit(':', 1)[0] if ':' in own and not own.endswith(']') else own
    k = rng.random()
    if rng.random() < 0.18:
        k = 0.0
    if k < 0.30:
        o = 'https://' + own
    elif k < 0.36:
        o = 'https://' + dom + ':443'
    elif k < 0.40:
        o = 'https://' + dom
    elif k < 0.45:
        o = 'http://' + own
    elif k < 0.55 and others:
        o = 'https://' + rng.choice(others)
    elif k < 0.65 and trusted:
        t = rng.choice(trusted)
        o = 'https://' + (rng.choice(['', 'www', 'x.y']) + t if t.startswith('.') else t)
        if rng.random() < 0.3:
            o = 'https://' + t.lstrip('.')
    elif k < 0.70:
        o = 'https://evil.com'
    elif k < 0.74:
        o = 'https://evil' + dom
    elif k < 0.78:
        o = 'https://sub.' + dom
    elif k < 0.81:
        o = 'null'
    elif k < 0.84:
        o = 'https://user:pw@' + own
    elif k < 0.87:
        o = 'https://' + own.upper()
    elif k < 0.89:
        o = 'HTTPS://' + own
    elif k < 0.93:
        o = rng.choice(['https://[', 'https://]', 'https://[::1]', 'https://[zz]', 'https://[1.2.3.4]', 'https://[v1.x]',
                        'https://a]b[c', 'https://[::1]:8080', 'https://x[', '//[', 'https://[::1', 'https://[:\t:1]'])
    elif k < 0.96:
        o = rng.choice(['//' + own, own, 'https:/' + own, 'https:' + own, ' https://' + own, 'ht\ttps://' + own,
                        'https://' + own + '\n', '\x00https://' + own, 'https://' + own + '#f', 'https://' + own + '?q',
                        '1https://' + own, 'a+b-c.d://' + own, 'https://\xe9' + own, ':', 'https://'])
    else:
        o = ''
    return o


def gen_request(rng, cfg, hostpool, prev):
    method = rng.choice(METHODS)
    scheme = 'https' if rng.random() < 0.75 else 'http'
    hname = rng.choice(hostpool) if rng.random() < 0.85 else rng.choice(HOSTS)
    port = rng.choice(PORTS)
    r = {'method': method, 'scheme': scheme, 'server_name': hname, 'server_port': port or ('443' if scheme == 'https' else '80')}
    k = rng.random()
    if k < 0.8:
        r['host'] = hname + (':' + port if port else '')
    elif k < 0.9:
        r['host'] = None
    else:
        r['host'] = rng.choice([hname + ':', ':' + (port or '80'), '', hname + ':' + (port or '1') + ':2', hname.upper()])
    d = cfg['defaults'] or {}
    trusted = []
    s = cfg['settings']
    if isinstance(s, str):
        trusted = s.split()
    elif s:
        trusted = [x for p in s for x in p.split()]
    trusted = [t for t in trusted if t and t != 'null']
    others = [host_of(p) for p in prev]
    headers = []
    k = rng.random()
    if k < 0.55:
        o = gen_origin(rng, r, others, trusted)
        if rng.random() < 0.12:
            o = rng.choice(['https://evil.com ', 'https://evil.com ', 'null ', ' ']) .strip(' ') + ' ' + o \
                if rng.random() < 0.7 else o + ' '
        headers.append(['Origin', o])
        if rng.random() < 0.2:
            headers.append(['Referer', gen_origin(rng, r, others, trusted) + '/page'])
    elif k < 0.85:
        o = gen_origin(rng, r, others, trusted)
        headers.append(['Referer', o + rng.choice(['', '/', '/page?x=1', '/a b']) if o not in ('', 'null') else o])
    # token placement
    storage = cfg['storage']
    k = rng.random()
    if k < 0.75:
        stored = rng.choice(STORED)
    elif k < 0.85:
        stored = None
    elif k < 0.9:
        stored = ''
    else:
        stored = rng.choice(['t\xf6ken', '\u20acuro', 'snow\u2603', '\U0001f600']) if storage != 'cookie' else 'q~!z'
    if storage != 'cookie' and rng.random() < 0.01:
        stored = rng.choice(['\ud800', 'a\udfffb'])      # not encodable: outside the property (wf_tokens), model still checked
    if storage == 'cookie' and stored is not None:
        stored = ''.join(c for c in stored if c in COOKIE_SAFE)
        if rng.random() < 0.15:
            r['cookie_quoted'] = True            # Cookie: csrf_token="<value>"  (incl. the empty quoted value)
    r['stored'] = stored
    base = stored if stored and not any(0xD800 <= ord(c) <= 0xDFFF for c in stored) else rng.choice(STORED)
    k = rng.random()
    if k < 0.5:
        sup = base
    elif k < 0.57:
        sup = base[:-1]
    elif k < 0.62:
        sup = base + '0'
    elif k < 0.68:
        sup = base.swapcase()
    elif k < 0.74:
        sup = ''
    elif k < 0.8:
        sup = 'f7e5h0000token00000000000000fresh'
    elif k < 0.9:
        sup = rng.choice(['\u20ac', 't\xf6k\u20acn', '\xe9', base + '\u0100', '\u20acuro', 'snow\u2603', 't\xf6ken'])
    else:
        sup = rng.choice(STORED)
    tname = d.get('token', 'csrf_token')
    hname_ = d.get('header', 'X-CSRF-Token')
    body, query = [], []
    place = rng.choice(['header', 'header', 'body', 'body', 'body', 'both', 'query', 'empty-header+body', 'none',
                        'header+wrong-body', 'wrong-header+body', 'dup-body'])
    latin = all(ord(c) < 256 for c in sup)
    hn = hname_ if hname_ else 'X-CSRF-Token'
    tn = tname if tname else 'csrf_token'
    other = rng.choice(STORED) + 'zz'
    if place in ('header', 'both', 'header+wrong-body') and latin:
        headers.append([hn, sup])
    if place in ('body', 'both', 'empty-header+body', 'wrong-header+body') or (place == 'header' and not latin):
        body.append([tn, sup])
    if place == 'header+wrong-body':
        body.append([tn, other])
    if place == 'wrong-header+body':
        headers.append([hn, other])
    if place == 'empty-header+body':
        headers.append([hn, ''])
    if place == 'query':
        query.append([tn, sup])
    if place == 'dup-body':
        body += [[tn, other], [tn, sup]] if rng.random() < 0.5 else [[tn, sup], [tn, other]]
    if rng.random() < 0.15:
        query.append([tn, base])
    if rng.random() < 0.15:
        body.append([rng.choice(['x', 'csrf_token', 'tok']), rng.choice(['1', base])])
    if (d.get('callback') == 'auth' and rng.random() < 0.5) or rng.random() < 0.03:
        headers.append(['Authorization', 'Bearer x'])
    # unique header names
    seen, hs = set(), []
    for k_, v_ in headers:
        if ascii_upper(k_) in seen:
            continue
        seen.add(ascii_upper(k_))
        hs.append([k_, v_])
    r['headers'] = hs
    r['body'], r['query'] = body, query
    k = rng.random()
    r['content_type'] = ('application/x-www-form-urlencoded' if k < 0.85 else
                         rng.choice(['', 'application/json', 'text/plain',
                                     'application/x-www-form-urlencoded; charset=utf-8']))
    return r


def gen_case(rng):
    hostpool = rng.sample(HOSTS, rng.choice([1, 2, 2, 3]))
    cfg = gen_config(rng, hostpool)
    caller = None
    if rng.random() < 0.5:
        caller = gen_patterns(rng, hostpool)
    n = rng.choice([1, 2, 2, 3, 3, 4])
    reqs = []
    for _ in range(n):
        reqs.append(gen_request(rng, cfg, hostpool, reqs))
    if rng.random() < 0.25:
        # registry.settings of the running application changes between requests: origins revoked / added / re-spelled
        for r in reqs[rng.randrange(len(reqs)):]:
            k = rng.random()
            if k < 0.35:
                v = None if rng.random() < 0.5 else []
            elif k < 0.8:
                v = gen_patterns(rng, hostpool) + ([host_of(r)] if rng.random() < 0.3 else [])
                if rng.random() < 0.4:
                    v = ' '.join(v)
            else:
                continue
            r['settings_now'] = {'v': v}
    case = {'config': cfg, 'caller': caller, 'raises': rng.random() < 0.5, 'reqs': reqs}
    if caller is not None and rng.random() < 0.3:
        case['caller_kind'] = 'tuple'
    if rng.random() < 0.3:
        case['via'] = 'session'                  # the deprecated aliases pyramid.session.check_csrf_token / _origin
    return case


# ------------------------------------------------------------ targeted search (broken tie, nothing failed yet)
def _req(host, origin=None, referer=None, scheme='https', method='POST', header_tok=None, body_tok=None,
         stored='a1b2c3d4', query_tok=None):
    hs = []
    if origin is not None:
        hs.append(['Origin', origin])
    if referer is not None:
        hs.append(['Referer', referer])
    if header_tok is not None:
        hs.append(['X-CSRF-Token', header_tok])
    return {'method': method, 'scheme': scheme, 'server_name': host.split(':')[0], 'server_port': '443', 'host': host,
            'headers': hs, 'body': [] if body_tok is None else [['csrf_token', body_tok]],
            'query': [] if query_tok is None else [['csrf_token', query_tok]],
            'content_type': 'application/x-www-form-urlencoded', 'stored': stored}


def canonical_cases():
    out = []
    base_cfg = {'explicit': True, 'defaults': None, 'exception_only': False, 'storage': 'session', 'settings': None}
    for storage in ('session', 'cookie', 'legacy'):
        cfg = dict(base_cfg, storage=storage)
        tok = 'a1b2c3d4'
        # shared list across two hosts
        for caller in ([], ['other.example']):
            out.append({'config': cfg, 'caller': caller, 'raises': False, 'reqs': [
                _req('a.example.com', origin='https://a.example.com', header_tok=tok),
                _req('b.example.org', origin='https://a.example.com', header_tok=tok)]})
        # non latin-1 body token / stored token
        for sup in ('\u20ac', tok + '\u0100'):
            out.append({'config': cfg, 'caller': None, 'raises': True, 'reqs': [
                _req('a.example.com', origin='https://a.example.com', body_tok=sup)]})
        if storage != 'cookie':
            out.append({'config': cfg, 'caller': None, 'raises': True, 'reqs': [
                _req('a.example.com', origin='https://a.example.com', body_tok='\u20acuro', stored='\u20acuro')]})
        # unparsable origins
        for o in ('https://[', 'https://]', 'https://[zz]', 'https://[1.2.3.4]'):
            out.append({'config': cfg, 'caller': None, 'raises': True, 'reqs': [
                _req('a.example.com', origin=o, header_tok=tok)]})
            out.append({'config': cfg, 'caller': None, 'raises': False, 'reqs': [
                _req('a.example.com', referer=o + '/x', header_tok=tok)]})
        # the 4.21 mutations: query token, header/body precedence, suffix matching, scheme
        out.append({'config': cfg, 'caller': None, 'raises': False, 'reqs': [
            _req('a.example.com', origin='https://a.example.com', query_tok=tok)]})
        out.append({'config': cfg, 'caller': None, 'raises': False, 'reqs': [
            _req('a.example.com', origin='https://a.example.com', header_tok=tok, body_tok='wrong')]})
        out.append({'config': cfg, 'caller': None, 'raises': False, 'reqs': [
            _req('a.example.com', origin='https://a.example.com', header_tok='wrong', body_tok=tok)]})
        out.append({'config': dict(cfg, settings='.example.com'), 'caller': None, 'raises': False, 'reqs': [
            _req('svc.internal', origin='https://evilexample.com', header_tok=tok)]})
        out.append({'config': cfg, 'caller': None, 'raises': False, 'reqs': [
            _req('a.example.com', origin='http://a.example.com', header_tok=tok)]})
        # view stated (directly / inside includes) before set_default_csrf_options(require_csrf=True): still protected
        for depth in ({}, {'view': 2}, {'defaults': 1, 'view': 1}):
            out.append({'config': dict(cfg, explicit=None, defaults={'require_csrf': True},
                                       program={'order': ['view', 'session', 'defaults', 'policy'], 'depth': depth}),
                        'caller': None, 'raises': False,
                        'reqs': [_req('a.example.com', origin='https://a.example.com'),
                                 _req('a.example.com', origin='https://a.example.com', header_tok=tok)]})
    # round 6: class-level opt-out + call-level explicit None under a requiring default; directive options given positionally
    cfg = dict(base_cfg, explicit=None, explicit_none_passed=True, defaults={'require_csrf': True})
    for how in ('decorator', 'attr', 'inherited'):
        for cv in (False, True):
            out.append({'config': dict(cfg, view_class={'how': how, 'require_csrf': cv}), 'caller': None, 'raises': False,
                        'reqs': [_req('a.example.com', origin='https://a.example.com'),
                                 _req('a.example.com', origin='https://evil.com', header_tok='a1b2c3d4')]})
    # last round: Not Found / Forbidden / exception views registered through their own directives are never checked
    for sp in ({'special': 'notfound'}, {'special': 'forbidden'}, {'exc_api': True}):
        for d in (None, {'require_csrf': True}, {'require_csrf': True, 'check_origin': True, 'safe_methods': []}):
            out.append({'config': dict(base_cfg, explicit=False, exception_only=True, defaults=d, **sp), 'caller': None,
                        'raises': False,
                        'reqs': [_req('a.example.com', origin='https://evil.com'),
                                 _req('a.example.com', origin='https://a.example.com', header_tok='a1b2c3d4'),
                                 _req('a.example.com', method='GET')]})
    # round 7: a trusted origin revoked / added in the running application; the setting added after the views were committed
    part = _req('a.example.com', origin='https://partner.example', header_tok='a1b2c3d4')
    for storage in ('session', 'cookie'):
        c7 = dict(base_cfg, storage=storage, settings='partner.example')
        out.append({'config': c7, 'caller': None, 'raises': False,
                    'reqs': [part, dict(part, settings_now={'v': None}), dict(part, settings_now={'v': ['other.example']}),
                             dict(part, settings_now={'v': 'other.example partner.example'}), part]})
        out.append({'config': dict(base_cfg, storage=storage, settings=None), 'caller': None, 'raises': False,
                    'reqs': [part, dict(part, settings_now={'v': '.example'}), part]})
        out.append({'config': dict(c7, settings_late=True), 'caller': None, 'raises': False, 'reqs': [part]})
        out.append({'config': dict(c7, settings_late=True, explicit=None, defaults={'require_csrf': True}),
                    'caller': None, 'raises': True, 'reqs': [part, dict(part, settings_now={'v': None})]})
    for vc in (None, {'how': 'decorator', 'require_csrf': False}):
        for ex in (True, False, None):
            c2 = dict(base_cfg, explicit=ex, route='scan', defaults={'require_csrf': True})
            if vc:
                c2['view_class'] = vc
            out.append({'config': c2, 'caller': None, 'raises': False,
                        'reqs': [_req('a.example.com', origin='https://a.example.com'),
                                 _req('a.example.com', origin='https://a.example.com', header_tok='a1b2c3d4')]})
    for co, an in ((True, False), (False, True)):
        out.append({'config': dict(base_cfg, defaults={'require_csrf': True, 'check_origin': co, 'allow_no_origin': an,
                                                       'positional': 6}),
                    'caller': None, 'raises': False,
                    'reqs': [_req('a.example.com', origin='https://evil.com', header_tok='a1b2c3d4'),
                             _req('a.example.com', header_tok='a1b2c3d4'),
                             _req('a.example.com', origin='http://a.example.com', header_tok='a1b2c3d4')]})
    return out


def targeted_cases(rng):
    return canonical_cases() + [gen_case(rng) for _ in range(400)]
