"""C12 extra case kinds:
  kind 'url' -- the urllib.parse fragment alone (model urlparse_m vs urllib.parse.urlparse), incl. the exhaustive
                small-scope sweep (all strings of length <= 4 over a 12-character alphabet);
  kind 'seq' -- sequences of requests by several clients through csrf_view, each client carrying the cookies the
                application handed it (session / csrf cookie), i.e. per-client token state."""
import atexit
import itertools
import json
import os

from .gen import gen_config, gen_request, ascii_upper, host_of, HOSTS, STORED, COOKIE_SAFE

SWEEP_ALPHABET = ['[', ']', ':', '/', '@', '#', '?', '\t', 'a', '1', '.', ' ']
SWEEP_MAXLEN = 4
PLACEHOLDER = '\U0010fffe'
_state = {'tier': None, 'sweep_generated': 0}


def sweep_cases():
    for n in range(SWEEP_MAXLEN + 1):
        for t in itertools.product(SWEEP_ALPHABET, repeat=n):
            yield {'kind': 'url', 'sweep': True, 'u': ''.join(t)}


SWEEP_SIZE = sum(len(SWEEP_ALPHABET) ** n for n in range(SWEEP_MAXLEN + 1))


def gen_url(rng):
    k = rng.random()
    alpha = SWEEP_ALPHABET + list('htps') + ['\n', '\r', '\x00', '\xe9', 'Z', '+', '-', 'v', ';', '%', '\\']
    if k < 0.4:
        body = ''.join(rng.choice(alpha) for _ in range(rng.choice([3, 5, 6, 8, 12])))
        return rng.choice(['https://', 'http://', '//', 'HTTPS://', 'a+b.c://', 'https:', '']) + body
    if k < 0.7:
        host = rng.choice(HOSTS + ['[::1]', '[v1.a]', '[::ffff:1.2.3.4]', '[1.2.3.4]', '[fe80::1%25eth0]', '[', ']', '[]', 'a]b[c'])
        return rng.choice(['https://', 'http://', 'HtTp://', '//', ' https://', 'ht\ttps://']) + \
            rng.choice(['', 'user@', 'u:p@']) + host + rng.choice(['', ':443', ':8080', ':']) + \
            rng.choice(['', '/', '/p?q#f', '?q', '#f', '/[x]', ';p'])
    return ''.join(rng.choice(alpha) for _ in range(rng.choice([5, 6, 7, 9])))


def gen_seq(rng):
    hostpool = rng.sample(HOSTS, rng.choice([1, 2]))
    cfg = gen_config(rng, hostpool)
    if rng.random() < 0.6:
        cfg['explicit'] = True
        cfg.pop('exc_api', None)
        cfg.pop('explicit_none_passed', None)
        if cfg.pop('special', None):
            cfg['exception_only'] = False
    nclients = rng.choice([1, 2, 2, 3])
    clients = []
    for k in range(nclients):
        r = rng.random()
        st = None if r < 0.55 else '' if r < 0.65 else rng.choice(STORED)
        if st and cfg['storage'] == 'cookie':
            st = ''.join(c for c in st if c in COOKIE_SAFE)
        clients.append(st)
    d = cfg['defaults'] or {}
    tname = d.get('token', 'csrf_token') or 'csrf_token'
    hname = d.get('header', 'X-CSRF-Token') or 'X-CSRF-Token'
    steps = []
    prev = []
    for i in range(rng.choice([2, 3, 4, 5, 6, 8])):
        r = gen_request(rng, cfg, hostpool, prev)
        prev.append(r)
        if rng.random() < 0.75:
            r['method'] = 'POST'
        if rng.random() < 0.5:
            r['scheme'] = 'https'
            own = host_of(r)
            r['headers'] = [[h, v] for h, v in r['headers'] if ascii_upper(h) not in ('ORIGIN', 'REFERER')]
            r['headers'].append(['Origin', 'https://' + (own[:-4] if own.endswith(':443') else own)])
        who = rng.randrange(nclients)
        k = rng.random()
        if k < 0.5:
            sup = PLACEHOLDER
        elif k < 0.62:
            sup = ''
        elif k < 0.75 and i:
            sup = 'fresh-%d' % rng.randrange(i)
        elif k < 0.85:
            sup = 'fresh-%d' % i
        elif k < 0.93 and clients[who]:
            sup = clients[who]                   # the token this client held at the start (stale after a rotation)
        else:
            sup = rng.choice(STORED)
        r['headers'] = [[h, (sup if ascii_upper(h) == ascii_upper(hname) else v)] for h, v in r['headers']]
        r['body'] = [[f, (sup if f == tname else v)] for f, v in r['body']]
        r['stored'] = None
        step = {'client': who, 'req': r}
        k = rng.random()
        if k < 0.4:
            # what the view body does when it runs: pyramid.csrf.get_csrf_token(request) / new_csrf_token(request)
            step['action'] = 'get' if k < 0.25 else 'new'
        steps.append(step)
    return {'kind': 'seq', 'config': cfg, 'clients': clients, 'steps': steps}


def extra_cases(rng, tier, n):
    _state['tier'] = tier
    if tier == 'thorough':
        for c in sweep_cases():
            _state['sweep_generated'] += 1
            yield c
        nurl, nseq = max(2000, n // 20), max(3000, n // 10)
    else:
        allsweep = list(sweep_cases())
        for c in rng.sample(allsweep, min(500, len(allsweep))):
            yield c
        nurl, nseq = 300, max(300, n // 6)
    for _ in range(nurl):
        yield {'kind': 'url', 'sweep': False, 'u': gen_url(rng)}
    for _ in range(nseq):
        yield gen_seq(rng)


def register_evidence_patch(pid='C12'):
    """The engine hard-codes `exhaustive: false`; record the exhaustive sub-run next to it once the engine has
    written evidence/<pid>.json (runs at interpreter exit, thorough tier only)."""
    def patch():
        try:
            if _state['tier'] != 'thorough' or _state['sweep_generated'] != SWEEP_SIZE:
                return
            path = os.path.join(os.path.dirname(os.path.dirname(os.path.dirname(os.path.abspath(__file__)))),
                                'evidence', pid + '.json')
            with open(path) as f:
                ev = json.load(f)
            cov = ev['coverage']
            done = cov.get('input_distribution', {}).get('urlparse-sweep', 0)
            cov['subruns'] = [{
                'name': 'urlparse small-scope sweep',
                'what': 'model urlparse_m vs urllib.parse.urlparse (scheme, netloc, ValueError) on every string of length '
                        '<= %d over the alphabet %r' % (SWEEP_MAXLEN, SWEEP_ALPHABET),
                'cases': done, 'domain_size': SWEEP_SIZE,
                'exhaustive': bool(done >= SWEEP_SIZE and cov.get('correspondence_disagreements', 1) == 0
                                   and not ev.get('violations')),
            }]
            with open(path, 'w') as f:
                json.dump(ev, f, indent=1, sort_keys=True, default=repr)
        except Exception:
            pass
    atexit.register(patch)
