"""C12 translator, configuration side: the DATA FLOW of the directive

    SecurityConfiguratorMixin.set_default_csrf_options(self, require_csrf=.., token=.., ...)   (config/security.py)
      -> options = DefaultCSRFOptions(..)  -> DefaultCSRFOptions.__init__: self.<attr> = ..
      -> register(): self.registry.registerUtility(options, IDefaultCSRFOptions) ; self.action(IDefaultCSRFOptions, register, ..)

is regenerated on every run into

    gen_directive_options (d : defaults) : options

= the object csrf_view finds through queryUtility(IDefaultCSRFOptions), as a function of the arguments the caller passed
(`d_<arg> d = None` means "omitted": the signature default applies).  Proofs/C12_gen.v proves it equal to the reference
model's [options_of_defaults].

Fail-closed SUBSET / TABLE (anything else -> Problem: broken tie + stored fallback):
  directive parameters   exactly the seven documented keywords (callers pass them by name), each with a literal default:
                         require_csrf / check_origin / allow_no_origin : bool ; token / header : str or None ;
                         safe_methods : tuple/list of str ; callback : None
                         passed value of parameter p = d_<p> d ; omitted = the default literal   (dflt (d_<p> d) <literal>)
  directive body         docstring ; `<name> = DefaultCSRFOptions(<args>)` once ; `def register(): self.registry.registerUtility(<name>,
                         IDefaultCSRFOptions)` ; the introspectable bookkeeping `intr = self.introspectable(..)`, `intr[..] = ..` (C20's
                         subject: skipped, it may read but never rebind a tracked name) ; one `self.action(IDefaultCSRFOptions, register, ..)`
                         (its order= is the fact sdc_order) ; no parameter is reassigned
  DefaultCSRFOptions(..) positional and keyword arguments bound to the parameters of __init__ (no *args/**kwargs), each argument a bare
                         parameter name of the directive
  __init__ body          `self.<attr> = <param>` or `self.<attr> = frozenset(<param>)` (membership is all csrf_view uses), each of the
                         seven attributes csrf_view reads assigned exactly once, nothing else
  attribute -> field     require_csrf o_require | token o_token | header o_header | safe_methods o_safe | check_origin o_check_origin |
                         allow_no_origin o_allow_no_origin | callback o_callback        (the table of translate.py's csrf_view)
  typing                 a bool parameter may only reach a bool field, a name (option text) a name field, the method list the list
                         field, the callback the callback field -- a cross-type wiring is a Problem, a same-type swap
                         (token <-> header, check_origin <-> allow_no_origin) translates and breaks the gen = model theorem
"""
import ast
import os

from .translate import Problem, u, lit

PARAMS = {  # directive keyword -> (field of the Coq record `defaults`, type)
    'require_csrf': ('d_require', 'bool'), 'token': ('d_token', 'name'), 'header': ('d_header', 'name'),
    'safe_methods': ('d_safe', 'list'), 'check_origin': ('d_check_origin', 'bool'),
    'allow_no_origin': ('d_allow_no_origin', 'bool'), 'callback': ('d_callback', 'callback'),
}
ATTRS = [  # attribute csrf_view reads -> type of the field of `options` (in mkOptions order)
    ('require_csrf', 'bool'), ('token', 'name'), ('header', 'name'), ('safe_methods', 'list'), ('check_origin', 'bool'),
    ('allow_no_origin', 'bool'), ('callback', 'callback'),
]
FALLBACK_BODY = ('mkOptions (dflt (d_require d) true) (dflt (d_token d) (Some [99; 115; 114; 102; 95; 116; 111; 107; 101; 110])) '
                 '(dflt (d_header d) (Some [88; 45; 67; 83; 82; 70; 45; 84; 111; 107; 101; 110])) '
                 '(dflt (d_safe d) [[71; 69; 84]; [72; 69; 65; 68]; [79; 80; 84; 73; 79; 78; 83]; [84; 82; 65; 67; 69]]) '
                 '(dflt (d_check_origin d) true) (dflt (d_allow_no_origin d) false) (d_callback d)')
SIG = '(d : defaults) : options'
GEN = 'gen_directive_options'
TRANSLATED = ['pyramid/config/security.py:SecurityConfiguratorMixin.set_default_csrf_options',
              'pyramid/config/security.py:SecurityConfiguratorMixin.set_default_csrf_options.register',
              'pyramid/config/security.py:DefaultCSRFOptions.__init__']


def _find(tree, qual):
    node = tree
    for part in qual.split('.'):
        nxt = [c for c in node.body if isinstance(c, (ast.FunctionDef, ast.ClassDef)) and c.name == part]
        if len(nxt) != 1:
            raise Problem('%s not found exactly once' % qual)
        node = nxt[0]
    return node


def _default_term(name, node):
    field, ty = PARAMS[name]
    try:
        val = ast.literal_eval(node)
    except Exception:
        raise Problem('default of %s is not a literal: %s' % (name, u(node)))
    if ty == 'bool':
        if not isinstance(val, bool):
            raise Problem('default of %s is not a bool: %r' % (name, val))
        return 'dflt (%s d) %s' % (field, 'true' if val else 'false')
    if ty == 'name':
        if val is None:
            return 'dflt (%s d) None' % field
        if not isinstance(val, str):
            raise Problem('default of %s is neither a str nor None: %r' % (name, val))
        return 'dflt (%s d) (Some %s)' % (field, lit(val).text)
    if ty == 'list':
        if not isinstance(val, (tuple, list, set, frozenset)) or not all(isinstance(x, str) for x in val):
            raise Problem('default of %s is not a collection of str: %r' % (name, val))
        return 'dflt (%s d) [%s]' % (field, '; '.join(lit(x).text for x in sorted(val)))
    if ty == 'callback':
        if val is not None:
            raise Problem('default of callback is not None')
        return '%s d' % field
    raise Problem('internal: type %s' % ty)


def _is_intr_stmt(st):
    if isinstance(st, ast.Assign) and len(st.targets) == 1:
        tg = st.targets[0]
        if isinstance(tg, ast.Name) and tg.id == 'intr':
            return True
        if isinstance(tg, ast.Subscript) and isinstance(tg.value, ast.Name) and tg.value.id == 'intr':
            return True
    return False


def translate_directive(tree):
    fn = _find(tree, 'SecurityConfiguratorMixin.set_default_csrf_options')
    if [u(d) for d in fn.decorator_list] != ['action_method']:
        raise Problem('set_default_csrf_options: decorators are not exactly @action_method')
    a = fn.args
    if a.vararg or a.kwarg or a.kwonlyargs or getattr(a, 'posonlyargs', []):
        raise Problem('set_default_csrf_options: parameter list outside the subset')
    names = [x.arg for x in a.args]
    if not names or sorted(names[1:]) != sorted(PARAMS) or len(a.defaults) != len(names) - 1:
        raise Problem('set_default_csrf_options: parameters are %r (the seven documented keywords, all with defaults, expected)' % names)
    selfname = names[0]
    env = {}   # local name -> (term, type)
    for nm, dnode in zip(names[1:], a.defaults):
        env[nm] = (_default_term(nm, dnode), PARAMS[nm][1])
    options_name, options_call, registered, actions = None, None, [], []
    body = list(fn.body)
    if body and isinstance(body[0], ast.Expr) and isinstance(body[0].value, ast.Constant) and isinstance(body[0].value.value, str):
        body = body[1:]
    for st in body:
        if _is_intr_stmt(st):
            continue
        if isinstance(st, ast.Assign) and len(st.targets) == 1 and isinstance(st.targets[0], ast.Name) \
                and isinstance(st.value, ast.Call) and isinstance(st.value.func, ast.Name) \
                and st.value.func.id == 'DefaultCSRFOptions':
            if options_name is not None or st.targets[0].id in env or st.targets[0].id == 'intr':
                raise Problem('set_default_csrf_options: second DefaultCSRFOptions(..) / rebinding: %s' % u(st).split('\n')[0])
            options_name, options_call = st.targets[0].id, st.value
            continue
        if isinstance(st, ast.FunctionDef) and not st.decorator_list and not st.args.args and not st.args.kwonlyargs \
                and not st.args.vararg and not st.args.kwarg and len(st.body) == 1 and isinstance(st.body[0], ast.Expr):
            c = st.body[0].value
            if options_name is not None and isinstance(c, ast.Call) \
                    and u(c) == '%s.registry.registerUtility(%s, IDefaultCSRFOptions)' % (selfname, options_name):
                registered.append(st.name)
                continue
            raise Problem('set_default_csrf_options: closure %s is not `%s.registry.registerUtility(<options>, IDefaultCSRFOptions)`'
                          % (st.name, selfname))
        if isinstance(st, ast.Expr) and isinstance(st.value, ast.Call) and u(st.value.func) == '%s.action' % selfname:
            actions.append(st.value)
            continue
        raise Problem('set_default_csrf_options: statement outside the subset: %s' % u(st).split('\n')[0][:70])
    # no tracked name is rebound anywhere (also not inside the bookkeeping statements)
    for n in ast.walk(fn):
        if isinstance(n, ast.Name) and isinstance(n.ctx, (ast.Store, ast.Del)) and (n.id in env or n.id == selfname):
            raise Problem('set_default_csrf_options: parameter %s is rebound' % n.id)
        if isinstance(n, (ast.AugAssign, ast.NamedExpr, ast.Global, ast.Nonlocal, ast.Lambda, ast.For, ast.While, ast.With,
                          ast.Try, ast.If)):
            raise Problem('set_default_csrf_options: construct outside the subset: %s' % type(n).__name__)
    if options_call is None:
        raise Problem('set_default_csrf_options: no `options = DefaultCSRFOptions(..)`')
    if len(registered) != 1 or len(actions) != 1:
        raise Problem('set_default_csrf_options: expected one register closure and one self.action call')
    act = actions[0]
    if len(act.args) != 2 or u(act.args[0]) != 'IDefaultCSRFOptions' or u(act.args[1]) != registered[0] \
            or any(k.arg not in ('order', 'introspectables') for k in act.keywords):
        raise Problem('set_default_csrf_options: self.action(..) is not (IDefaultCSRFOptions, %s, order=.., introspectables=..)'
                      % registered[0])
    # ---- DefaultCSRFOptions(...) -> parameters of __init__
    init = _find(tree, 'DefaultCSRFOptions.__init__')
    cls = _find(tree, 'DefaultCSRFOptions')
    for st in cls.body:
        if st is init or (isinstance(st, ast.Expr) and isinstance(st.value, ast.Constant)):
            continue
        raise Problem('DefaultCSRFOptions: unexpected class member: %s' % u(st).split('\n')[0][:60])
    if cls.bases or cls.keywords or [u(d) for d in cls.decorator_list] != ['implementer(IDefaultCSRFOptions)']:
        raise Problem('DefaultCSRFOptions: bases / decorators changed')
    ia = init.args
    if init.decorator_list or ia.vararg or ia.kwarg or ia.kwonlyargs or getattr(ia, 'posonlyargs', []) or ia.defaults:
        raise Problem('DefaultCSRFOptions.__init__: parameter list outside the subset')
    iparams = [x.arg for x in ia.args]
    iself, iparams = iparams[0], iparams[1:]
    bound = {}
    if len(options_call.args) > len(iparams):
        raise Problem('DefaultCSRFOptions(..): too many positional arguments')

    def arg_value(node):
        if isinstance(node, ast.Name) and node.id in env:
            return env[node.id]
        raise Problem('DefaultCSRFOptions(..): argument %s is not a bare parameter of the directive' % u(node))
    for p, node in zip(iparams, options_call.args):
        if isinstance(node, ast.Starred):
            raise Problem('DefaultCSRFOptions(..): starred argument')
        bound[p] = arg_value(node)
    for kw in options_call.keywords:
        if kw.arg is None or kw.arg not in iparams or kw.arg in bound:
            raise Problem('DefaultCSRFOptions(..): keyword %s outside the signature / given twice' % kw.arg)
        bound[kw.arg] = arg_value(kw.value)
    if set(bound) != set(iparams):
        raise Problem('DefaultCSRFOptions(..): parameters without an argument: %s' % sorted(set(iparams) - set(bound)))
    # ---- __init__ body
    attrs = {}
    ibody = list(init.body)
    if ibody and isinstance(ibody[0], ast.Expr) and isinstance(ibody[0].value, ast.Constant):
        ibody = ibody[1:]
    for st in ibody:
        ok = (isinstance(st, ast.Assign) and len(st.targets) == 1 and isinstance(st.targets[0], ast.Attribute)
              and isinstance(st.targets[0].value, ast.Name) and st.targets[0].value.id == iself)
        if not ok:
            raise Problem('DefaultCSRFOptions.__init__: statement outside the subset: %s' % u(st).split('\n')[0][:60])
        attr, v = st.targets[0].attr, st.value
        if attr in attrs:
            raise Problem('DefaultCSRFOptions.__init__: %s assigned twice' % attr)
        if isinstance(v, ast.Name) and v.id in bound:
            term, ty = bound[v.id]
        elif isinstance(v, ast.Call) and isinstance(v.func, ast.Name) and v.func.id in ('frozenset', 'tuple', 'list', 'set') \
                and len(v.args) == 1 and not v.keywords and isinstance(v.args[0], ast.Name) and v.args[0].id in bound \
                and bound[v.args[0].id][1] == 'list':
            term, ty = bound[v.args[0].id]
        else:
            raise Problem('DefaultCSRFOptions.__init__: value outside the table: %s' % u(st))
        attrs[attr] = (term, ty)
    for n in ast.walk(init):
        if isinstance(n, ast.Name) and isinstance(n.ctx, ast.Store):
            raise Problem('DefaultCSRFOptions.__init__: a local is bound: %s' % n.id)
    out = []
    for attr, ty in ATTRS:
        if attr not in attrs:
            raise Problem('DefaultCSRFOptions.__init__: attribute %s (read by csrf_view) is not assigned' % attr)
        term, got = attrs[attr]
        if got != ty:
            raise Problem('DefaultCSRFOptions: a %s value reaches the %s attribute %s' % (got, ty, attr))
        out.append('(%s)' % term)
    extra = sorted(set(attrs) - {a for a, _ in ATTRS})
    if extra:
        raise Problem('DefaultCSRFOptions.__init__: unexpected attributes %s' % extra)
    return 'mkOptions ' + ' '.join(out)


def translate_tree(src_root):
    """-> (coq text of the definition, problems, summary)"""
    problems, summary = [], {}
    body = None
    try:
        with open(os.path.join(src_root, 'pyramid/config/security.py')) as f:
            tree = ast.parse(f.read())
        binds = {}
        for st in tree.body:
            if isinstance(st, (ast.FunctionDef, ast.ClassDef)):
                binds.setdefault(st.name, []).append('def')
            elif isinstance(st, ast.ImportFrom):
                for al in st.names:
                    binds.setdefault(al.asname or al.name, []).append('from %s import %s' % (st.module, al.name))
            elif isinstance(st, (ast.Assign, ast.AnnAssign, ast.AugAssign)):
                for nn in ast.walk(st):
                    if isinstance(nn, ast.Name) and isinstance(nn.ctx, ast.Store):
                        binds.setdefault(nn.id, []).append('assign')
        for nm, want in (('DefaultCSRFOptions', ['def']), ('IDefaultCSRFOptions', ['from pyramid.interfaces import IDefaultCSRFOptions']),
                         ('action_method', ['from pyramid.config.actions import action_method'])):
            if binds.get(nm) != want:
                problems.append('translator(cfg): module-level binding of %s in config/security.py is %s' % (nm, binds.get(nm)))
        for nm in ('frozenset', 'tuple', 'list', 'set'):
            if nm in binds:
                problems.append('translator(cfg): builtin %s is rebound in config/security.py' % nm)
        body = translate_directive(tree)
        summary[GEN] = 'translated from source'
    except Problem as e:
        problems.append('translator(cfg): %s' % e)
    except (OSError, SyntaxError) as e:
        problems.append('translator(cfg): cannot read/parse config/security.py: %s' % e)
    if body is None:
        summary[GEN] = 'FALLBACK (stored translation of the reference text)'
        body = FALLBACK_BODY
    return 'Definition %s %s :=\n  %s.\n' % (GEN, SIG, body), problems, summary


if __name__ == '__main__':
    import sys
    coq, problems, summary = translate_tree(sys.argv[1] if len(sys.argv) > 1 else '/repo/src')
    print(coq)
    for p in problems:
        print('PROBLEM:', p)
    print(summary)
