"""Facts extractor for C17: safe sets at every quoting call site, separators,
port tables, which script name the *_path helpers use, how _join_elements is
cached.  Fail-closed: an unrecognised shape is appended to `problems` and a
default is emitted so that the Coq file still type-checks."""
import ast
import os
from harness.common import facts as F

HERE = os.path.dirname(os.path.abspath(__file__))

DEFAULTS = {
    'query_safe': "/?:@!$&'()*+,;=", 'anchor_safe': "/?:@!$&'()*+,;=",
    'path_segment_safe': "~!$&'()*+,;=:@", 'path_safe': "~!$&'()*+,;=:@/",
    'query_str_safe': "/?:@!$&'()*+,;=", 'anchor_quote_safe': "/?:@!$&'()*+,;=",
    'script_name_safe': "~!$&'()*+,;=:@/", 'join_elements_safe': "~!$&'()*+,;=:@",
    'path_tuple_safe': "~!$&'()*+,;=:@", 'compile_prefix_safe': '/', 'compile_literal_safe': '/',
    'compile_value_safe': "~!$&'()*+,;=:@/", 'quote_plus_default_safe': '', 'url_quote_default_safe': '',
    'elements_sep': '/', 'path_tuple_sep': '/', 'star_sep': '/', 'port_sep': ':', 'scheme_sep': '://',
    'kv_sep': '=', 'pair_sep': '&', 'qs_prefix': '?', 'frag_prefix': '#', 'static_subpath_key': 'subpath',
    'static_external_safe': '/',
}
BOOLS = {
    'urlencode_quote_via_is_quote_plus': True, 'route_path_script_quoted': True,
    'resource_path_script_quoted': True, 'static_path_script_quoted': True,
    'current_route_path_script_quoted': True, 'join_elements_key_stringified': False,
    'static_external_uses_urljoin': False, 'url_helpers_keep_no_request_state': True,
}
TABLES = {'implied_ports': [('https', '443'), ('http', '80')], 'elided_ports': [('https', '443'), ('http', '80')]}


class Bad(Exception):
    pass


def _resolve(expr, env):
    if isinstance(expr, ast.Constant) and isinstance(expr.value, str):
        return expr.value
    if isinstance(expr, ast.Name) and expr.id in env:
        return env[expr.id]
    if isinstance(expr, ast.BinOp) and isinstance(expr.op, ast.Add):
        return _resolve(expr.left, env) + _resolve(expr.right, env)
    raise Bad('cannot evaluate %s' % ast.dump(expr))


def _module_strs(mod, names, env=None):
    env = dict(env or {})
    for st in mod.tree.body:
        if isinstance(st, ast.Assign) and len(st.targets) == 1 and isinstance(st.targets[0], ast.Name) \
                and st.targets[0].id in names:
            env[st.targets[0].id] = _resolve(st.value, env)
    for n in names:
        if n not in env:
            raise Bad('%s: no module constant %s' % (mod.rel, n))
    return env


def _calls(node, fname):
    out = []
    for n in ast.walk(node):
        if isinstance(n, ast.Call) and ((isinstance(n.func, ast.Name) and n.func.id == fname) or
                                        (isinstance(n.func, ast.Attribute) and n.func.attr == fname)):
            out.append(n)
    return out


def _kwarg(call, name, pos=None):
    for k in call.keywords:
        if k.arg == name:
            return k.value
    if pos is not None and len(call.args) > pos:
        return call.args[pos]
    return None


def _imports(mod, module, names):
    got = set()
    for st in mod.tree.body:
        if isinstance(st, ast.ImportFrom) and st.module == module:
            got |= {a.name for a in st.names if a.asname is None}
    missing = [n for n in names if n not in got]
    if missing:
        raise Bad('%s does not import %s from %s' % (mod.rel, missing, module))


def _need(node, what):
    if node is None:
        raise Bad('missing: ' + what)
    return node


def _is_name(n, s):
    return isinstance(n, ast.Name) and n.id == s


def _cmp(test, left, op, const=True):
    """`left OP <const>` -> the constant's value"""
    if isinstance(test, ast.Compare) and _is_name(test.left, left) and len(test.ops) == 1 \
            and isinstance(test.ops[0], op) and isinstance(test.comparators[0], ast.Constant):
        return test.comparators[0].value
    raise Bad('unexpected test %s' % ast.dump(test))


def _port_tables(fn):
    implied, elided = None, None
    for st in fn.body:
        if isinstance(st, ast.If) and isinstance(st.test, ast.Compare) and _is_name(st.test.left, 'scheme'):
            if isinstance(st.test.ops[0], ast.Is):
                # if scheme is None: ... else: if scheme == S: if port is None: port = P ...
                tbl = []
                for sub in st.orelse:
                    if not isinstance(sub, ast.If) or sub.orelse or len(sub.body) != 1:
                        raise Bad('implied-port block')
                    s = _cmp(sub.test, 'scheme', ast.Eq)
                    inner = sub.body[0]
                    if not (isinstance(inner, ast.If) and not inner.orelse and len(inner.body) == 1
                            and _cmp(inner.test, 'port', ast.Is) is None):
                        raise Bad('implied-port inner block')
                    a = inner.body[0]
                    if not (isinstance(a, ast.Assign) and _is_name(a.targets[0], 'port')
                            and isinstance(a.value, ast.Constant) and isinstance(a.value.value, str)):
                        raise Bad('implied-port assignment')
                    tbl.append((s, a.value.value))
                implied = tbl
            elif isinstance(st.test.ops[0], ast.Eq):
                tbl = []
                cur = st
                while True:
                    s = _cmp(cur.test, 'scheme', ast.Eq)
                    if len(cur.body) != 1:
                        raise Bad('elision block')
                    inner = cur.body[0]
                    if not (isinstance(inner, ast.If) and not inner.orelse and len(inner.body) == 1):
                        raise Bad('elision inner block')
                    p = _cmp(inner.test, 'port', ast.Eq)
                    a = inner.body[0]
                    if not (isinstance(a, ast.Assign) and _is_name(a.targets[0], 'port')
                            and isinstance(a.value, ast.Constant) and a.value.value is None):
                        raise Bad('elision assignment')
                    tbl.append((s, p))
                    if not cur.orelse:
                        break
                    if len(cur.orelse) != 1 or not isinstance(cur.orelse[0], ast.If):
                        raise Bad('elision chain')
                    cur = cur.orelse[0]
                elided = tbl
    if implied is None or elided is None:
        raise Bad('_partial_application_url: port tables not found')
    if len({s for s, _ in implied}) != len(implied) or len({s for s, _ in elided}) != len(elided):
        raise Bad('duplicate scheme in a port table')
    return implied, elided


def _script_flag(fn, key):
    """kw[key] = self.script_name  /  self._quoted_script_name()"""
    for st in fn.body:
        if isinstance(st, ast.Assign) and len(st.targets) == 1 and isinstance(st.targets[0], ast.Subscript) \
                and _is_name(st.targets[0].value, 'kw') and isinstance(st.targets[0].slice, ast.Constant) \
                and st.targets[0].slice.value == key:
            v = st.value
            if isinstance(v, ast.Attribute) and _is_name(v.value, 'self') and v.attr == 'script_name':
                return False
            if isinstance(v, ast.Call) and isinstance(v.func, ast.Attribute) and _is_name(v.func.value, 'self') \
                    and v.func.attr == '_quoted_script_name' and not v.args and not v.keywords:
                return True
            raise Bad('%s: unexpected %s value %s' % (fn.name, key, ast.dump(v)))
    raise Bad('%s: no kw[%r] assignment' % (fn.name, key))


def extract(src, problems, soft=()):
    """soft: labels whose functions the translator regenerated on this run -- there the generated code is the tie
    (gen_f = model_f is proved against it), so an unrecognised shape only means `keep the reference constants`"""
    vals, bools, tables = dict(DEFAULTS), dict(BOOLS), dict(TABLES)

    def attempt(label, f):
        try:
            f()
        except Bad as e:
            if label not in soft:
                problems.append('%s: %s' % (label, e))
        except Exception as e:   # parse errors etc.
            problems.append('%s: extractor error %r' % (label, e))

    trav = F.Module(src, 'pyramid/traversal.py')
    url = F.Module(src, 'pyramid/url.py')
    enc = F.Module(src, 'pyramid/encode.py')
    disp = F.Module(src, 'pyramid/urldispatch.py')
    views = F.Module(src, 'pyramid/config/views.py')
    tenv, uenv = {}, {}

    def consts():
        tenv.update(_module_strs(trav, ['PATH_SEGMENT_SAFE', 'PATH_SAFE']))
        _imports(url, 'pyramid.traversal', ['PATH_SAFE', 'PATH_SEGMENT_SAFE', 'quote_path_segment'])
        _imports(url, 'pyramid.encode', ['url_quote', 'urlencode'])
        uenv.update(_module_strs(url, ['QUERY_SAFE', 'ANCHOR_SAFE'], tenv))
        vals.update(query_safe=uenv['QUERY_SAFE'], anchor_safe=uenv['ANCHOR_SAFE'],
                    path_segment_safe=tenv['PATH_SEGMENT_SAFE'], path_safe=tenv['PATH_SAFE'])
    attempt('safe sets', consts)

    def overrides():
        if 'parse_url_overrides' in soft:
            # regenerated by the translator: the model keeps the reference shape ('?' / '#', the module constants)
            vals['query_str_safe'], vals['anchor_quote_safe'] = vals['query_safe'], vals['anchor_safe']
            return
        fn = _need(url.find('parse_url_overrides'), 'parse_url_overrides')
        seen = {}
        for st in ast.walk(fn):
            if isinstance(st, ast.Assign) and isinstance(st.targets[0], ast.Name) and st.targets[0].id in ('qs', 'frag') \
                    and isinstance(st.value, ast.BinOp):
                pre = _resolve(st.value.left, {})
                call = st.value.right
                if not isinstance(call, ast.Call) or not isinstance(call.func, ast.Name):
                    raise Bad('unexpected right operand')
                seen.setdefault(st.targets[0].id, []).append((pre, call))
        q = seen.get('qs', [])
        if len(q) != 2 or [c.func.id for _, c in q] != ['url_quote', 'urlencode'] or q[0][0] != q[1][0]:
            raise Bad('qs assignments')
        vals['qs_prefix'] = q[0][0]
        vals['query_str_safe'] = _resolve(_need(_kwarg(q[0][1], 'safe', 1), 'safe of url_quote(query)'), uenv)
        if len(q[1][1].args) != 1 or [(k.arg, getattr(k.value, 'value', 0)) for k in q[1][1].keywords] != [('doseq', True)]:
            raise Bad('urlencode call arguments')
        f = seen.get('frag', [])
        if len(f) != 1 or f[0][1].func.id != 'url_quote':
            raise Bad('frag assignment')
        vals['frag_prefix'] = f[0][0]
        vals['anchor_quote_safe'] = _resolve(_need(_kwarg(f[0][1], 'safe', 1), 'safe of url_quote(anchor)'), uenv)
    attempt('parse_url_overrides', overrides)

    def joins():
        fn = _need(url.find('_join_elements'), '_join_elements')
        decos = [ast.unparse(d) for d in fn.decorator_list]
        target = fn
        if decos == ['lru_cache(1000)']:
            bools['join_elements_key_stringified'] = False
        elif not decos:
            # repaired shape: return _join_quoted_elements(tuple([s if s.__class__ in (str, bytes) else str(s) for s in elements]))
            want = ('return _join_quoted_elements(tuple([s if s.__class__ in (str, bytes) else str(s) '
                    'for s in elements]))')
            if len(fn.body) != 1 or ast.unparse(fn.body[0]) != want:
                raise Bad('_join_elements body unrecognised')
            target = _need(url.find('_join_quoted_elements'), '_join_quoted_elements')
            bools['join_elements_key_stringified'] = True
        else:
            raise Bad('_join_elements decorators %r' % decos)
        ret = target.body[-1]
        call = ret.value
        if not (isinstance(ret, ast.Return) and isinstance(call, ast.Call) and isinstance(call.func, ast.Attribute)
                and call.func.attr == 'join'):
            raise Bad('_join_elements return')
        vals['elements_sep'] = _resolve(call.func.value, {})
        qc = _calls(call, 'quote_path_segment')
        if len(qc) != 1:
            raise Bad('quote_path_segment call in _join_elements')
        vals['join_elements_safe'] = _resolve(_need(_kwarg(qc[0], 'safe', 1), 'safe'), dict(tenv, **uenv))
        # traversal
        qps = _need(trav.find('quote_path_segment'), 'quote_path_segment')
        if [a.arg for a in qps.args.args] != ['segment', 'safe'] or len(qps.args.defaults) != 1:
            raise Bad('quote_path_segment signature')
        dflt = _resolve(qps.args.defaults[0], tenv)
        jpt = _need(trav.find('_join_path_tuple'), '_join_path_tuple')
        qc = _calls(jpt, 'quote_path_segment')
        jn = _calls(jpt, 'join')
        if len(qc) != 1 or len(qc[0].args) != 1 or qc[0].keywords or len(jn) != 1:
            raise Bad('_join_path_tuple body')
        vals['path_tuple_safe'] = dflt
        vals['path_tuple_sep'] = _resolve(jn[0].func.value, {})
        uq = _calls(qps, 'url_quote')
        if len(uq) != 1 or ast.unparse(uq[0]) != "url_quote(text_(segment, 'utf-8'), safe)":
            raise Bad('quote_path_segment url_quote call')
    attempt('join functions', joins)

    def script():
        cls = _need(url.find('URLMethodsMixin'), 'URLMethodsMixin')
        q = url.find('URLMethodsMixin._quoted_script_name')
        host = q if q is not None else _need(url.find('URLMethodsMixin._partial_application_url'), '_partial_application_url')
        uq = _calls(host, 'url_quote')
        if len(uq) != 1 or not _is_name(uq[0].args[0], 'bscript_name'):
            raise Bad('url_quote(bscript_name, ...) not found')
        vals['script_name_safe'] = _resolve(_need(_kwarg(uq[0], 'safe', 1), 'safe'), dict(tenv, **uenv))
        if 'script name / ports' in soft:
            return      # _partial_application_url and the *_path glue are regenerated by the translator
        for meth, key, flag in (('route_path', '_app_url', 'route_path_script_quoted'),
                                ('resource_path', 'app_url', 'resource_path_script_quoted'),
                                ('static_path', '_app_url', 'static_path_script_quoted'),
                                ('current_route_path', '_app_url', 'current_route_path_script_quoted')):
            fn = _need(url.find('URLMethodsMixin.' + meth), meth)
            bools[flag] = _script_flag(fn, key)
        pa = _need(url.find('URLMethodsMixin._partial_application_url'), '_partial_application_url')
        tables['implied_ports'], tables['elided_ports'] = _port_tables(pa)
        seps = [n for n in ast.walk(pa) if isinstance(n, ast.Assign) and _is_name(n.targets[0], 'url')]
        if len(seps) != 1 or ast.unparse(seps[0].value).replace('"', "'") != "scheme + '://' + host":
            # take the literal in the middle whatever it is
            v = seps[0].value if seps else None
            if not (v is not None and isinstance(v, ast.BinOp) and isinstance(v.left, ast.BinOp)
                    and _is_name(v.left.left, 'scheme') and _is_name(v.right, 'host')):
                raise Bad('url = scheme + SEP + host')
            vals['scheme_sep'] = _resolve(v.left.right, {})
        else:
            vals['scheme_sep'] = '://'
        aug = [n for n in ast.walk(pa) if isinstance(n, ast.AugAssign) and _is_name(n.target, 'url')]
        if len(aug) != 1 or not (isinstance(aug[0].value, ast.BinOp) and isinstance(aug[0].value.op, ast.Mod)
                                 and isinstance(aug[0].value.left, ast.Constant)
                                 and str(aug[0].value.left.value).endswith('%s') and _is_name(aug[0].value.right, 'port')):
            raise Bad("url += ':%s' % port")
        vals['port_sep'] = aug[0].value.left.value[:-2]
    attempt('script name / ports', script)

    def encode():
        if 'encode.py' in soft:
            return      # url_quote / quote_plus / urlencode are regenerated by the translator
        ue = _need(enc.find('urlencode'), 'urlencode')
        names = [a.arg for a in ue.args.args]
        if names != ['query', 'doseq', 'quote_via'] or len(ue.args.defaults) != 2:
            raise Bad('urlencode signature')
        bools['urlencode_quote_via_is_quote_plus'] = _is_name(ue.args.defaults[1], 'quote_plus')
        if not bools['urlencode_quote_via_is_quote_plus']:
            raise Bad('urlencode default quote_via is %s' % ast.unparse(ue.args.defaults[1]))
        for fname, key in (('quote_plus', 'quote_plus_default_safe'), ('url_quote', 'url_quote_default_safe')):
            fn = _need(enc.find(fname), fname)
            if [a.arg for a in fn.args.args] != ['val', 'safe'] or len(fn.args.defaults) != 1:
                raise Bad(fname + ' signature')
            vals[key] = _resolve(fn.args.defaults[0], {})
        _imports_alias = {}
        for st in enc.tree.body:
            if isinstance(st, ast.ImportFrom) and st.module == 'urllib.parse':
                for a in st.names:
                    _imports_alias[a.asname or a.name] = a.name
        if _imports_alias.get('_url_quote') != 'quote' or _imports_alias.get('_quote_plus') != 'quote_plus':
            raise Bad('encode.py imports of urllib.parse')
        fstr = [n for n in ast.walk(ue) if isinstance(n, ast.JoinedStr)]
        seps = set()
        for j in fstr:
            parts = j.values
            if not (len(parts) in (3, 4) and isinstance(parts[0], ast.FormattedValue) and _is_name(parts[0].value, 'prefix')
                    and isinstance(parts[1], ast.FormattedValue) and _is_name(parts[1].value, 'k')
                    and isinstance(parts[2], ast.Constant)):
                raise Bad('f-string shape in urlencode')
            seps.add(parts[2].value)
        if len(fstr) != 3 or len(seps) != 1:
            raise Bad('f-strings in urlencode')
        vals['kv_sep'] = seps.pop()
        pre = [n.value.value for n in ast.walk(ue) if isinstance(n, ast.Assign) and _is_name(n.targets[0], 'prefix')
               and isinstance(n.value, ast.Constant)]
        if sorted(set(pre)) != sorted({'', pre[-1]}) or len(pre) != 3 or pre[0] != '':
            raise Bad('prefix assignments in urlencode')
        vals['pair_sep'] = pre[-1]
    def encode_bindings():
        for fname in ('url_quote', 'quote_plus', 'urlencode'):
            fn = _need(enc.find(fname), fname)
            if fn.decorator_list:
                raise Bad('%s is decorated (%s): the model has no cache or wrapper there'
                          % (fname, ', '.join(ast.unparse(d) for d in fn.decorator_list)))
            if len([st for st in enc.tree.body if isinstance(st, (ast.FunctionDef, ast.ClassDef)) and st.name == fname]) != 1:
                raise Bad('%s defined more than once' % fname)
        rebound = [t.id for st in ast.walk(enc.tree) if isinstance(st, (ast.Assign, ast.AugAssign, ast.AnnAssign))
                   for t in (st.targets if isinstance(st, ast.Assign) else [st.target])
                   if isinstance(t, ast.Name) and t.id in ('url_quote', 'quote_plus', 'urlencode', '_url_quote', '_quote_plus')]
        if rebound:
            raise Bad('%s rebound' % rebound)
        alias = {}
        for st in enc.tree.body:
            if isinstance(st, ast.ImportFrom) and st.module == 'urllib.parse':
                for al in st.names:
                    alias[al.asname or al.name] = al.name
        if alias.get('_url_quote') != 'quote' or alias.get('_quote_plus') != 'quote_plus':
            raise Bad('encode.py imports of urllib.parse')
    attempt('encode.py bindings', encode_bindings)
    attempt('encode.py', encode)

    def compile_route():
        _imports(disp, 'pyramid.traversal', ['PATH_SAFE', 'quote_path_segment'])
        fn = _need(disp.find('_compile_route'), '_compile_route')
        got = {}
        for c in _calls(fn, 'quote_path_segment'):
            a0 = c.args[0].id if c.args and isinstance(c.args[0], ast.Name) else None
            got.setdefault(a0, []).append(_resolve(_need(_kwarg(c, 'safe', 1), 'safe'), tenv))
        if sorted(got) != ['prefix', 's', 'v'] or any(len(v) != 1 for v in got.values()):
            raise Bad('quote_path_segment call sites %r' % got)
        vals['compile_prefix_safe'], vals['compile_literal_safe'], vals['compile_value_safe'] = \
            got['prefix'][0], got['s'][0], got['v'][0]
        reps = [ast.unparse(c) for c in _calls(fn, 'replace')]
        if len(reps) != 2 or not all(r.endswith(".replace('%', '%%')") for r in reps):
            raise Bad("'.replace('%', '%%')' call sites")
        gen = _need(disp.find('_compile_route.generator'), 'generator')
        jn = _calls(gen, 'join')
        if len(jn) != 1:
            raise Bad('join in generator')
        vals['star_sep'] = _resolve(jn[0].func.value, {})
    attempt('_compile_route', compile_route)

    def stateless():
        """URL generation reads the request (environ, script_name, registry, matchdict ..) and never writes it: no
        memoising decorator on a method of URLMethodsMixin, no attribute / item store on self, request or their environ"""
        bools['url_helpers_keep_no_request_state'] = False
        cls = _need(url.find('URLMethodsMixin'), 'URLMethodsMixin')
        for st in cls.body:
            if isinstance(st, ast.FunctionDef):
                if st.decorator_list:
                    raise Bad('URLMethodsMixin.%s is decorated (%s)' % (st.name, ', '.join(ast.unparse(d) for d in st.decorator_list)))
            elif isinstance(st, ast.Assign):
                if not (len(st.targets) == 1 and isinstance(st.targets[0], ast.Name) and isinstance(st.value, ast.Name)
                        and isinstance(cls.body[[b for b in cls.body].index(st) - 1], ast.FunctionDef)
                        and st.value.id in [b.name for b in cls.body if isinstance(b, ast.FunctionDef)]):
                    raise Bad('class-level statement %s' % ast.unparse(st))
            elif not (isinstance(st, ast.Expr) and isinstance(st.value, ast.Constant)):
                raise Bad('class-level statement %s' % ast.unparse(st).split('\n')[0])
        # per function: the dictionaries it may write are its own **keywords and the locals it creates with `{}`
        # (each bound exactly once: never an alias of matchdict, GET, route_kw ..); the names themselves are free
        scopes = [n for n in cls.body if isinstance(n, ast.FunctionDef)] + \
            [n for n in url.tree.body if isinstance(n, ast.FunctionDef)]
        for scope in scopes:
            own = set()
            if scope.args.kwarg is not None:
                own.add(scope.args.kwarg.arg)
            if scope.name == 'parse_url_overrides' and len(scope.args.args) == 2:
                own.add(scope.args.args[1].arg)          # parse_url_overrides(request, kw) pops from the caller's dictionary
            fresh = set()
            for n in ast.walk(scope):
                if isinstance(n, ast.Assign) and isinstance(n.value, ast.Dict) and not n.value.keys:
                    for t in n.targets:
                        if isinstance(t, ast.Name):
                            fresh.add(t.id)
            for nm in fresh:
                binds = [n for n in ast.walk(scope) if isinstance(n, ast.Name) and isinstance(n.ctx, ast.Store) and n.id == nm]
                if len(binds) != 1 or nm in own or nm in [a.arg for a in scope.args.args]:
                    raise Bad('%s.%s: the fresh dictionary %s is bound more than once' % (cls.name, scope.name, nm))
            own |= fresh
            for n in ast.walk(scope):
                tgts = []
                if isinstance(n, ast.Assign):
                    tgts = n.targets
                elif isinstance(n, (ast.AugAssign, ast.AnnAssign)):
                    tgts = [n.target]
                elif isinstance(n, ast.Delete):
                    tgts = n.targets
                for t in tgts:
                    for x in ast.walk(t):
                        if isinstance(x, ast.Attribute) and isinstance(x.ctx, (ast.Store, ast.Del)):
                            raise Bad('attribute store %s' % ast.unparse(n).split('\n')[0])
                        if isinstance(x, ast.Subscript) and isinstance(x.ctx, (ast.Store, ast.Del)) and \
                                not (isinstance(x.value, ast.Name) and x.value.id in own):
                            raise Bad('item store outside the keyword dictionaries: %s' % ast.unparse(n).split('\n')[0])
                if isinstance(n, ast.Call):
                    f = n.func
                    name = f.id if isinstance(f, ast.Name) else f.attr if isinstance(f, ast.Attribute) else ''
                    if name in ('setattr', 'delattr', '__setattr__', 'setdefault') or \
                            (name in ('update', 'pop', 'clear', 'popitem', '__setitem__', '__delitem__') and isinstance(f, ast.Attribute)
                             and not (isinstance(f.value, ast.Name) and f.value.id in own)):
                        raise Bad('state-changing call %s' % ast.unparse(n))
                if isinstance(n, ast.Attribute) and n.attr == '__dict__':
                    raise Bad('__dict__ access')
        for st in url.tree.body:
            if isinstance(st, ast.ImportFrom) and any(a.name in ('reify', 'cached_property', 'cache') for a in st.names):
                raise Bad('url.py imports %s' % [a.name for a in st.names])
        bools['url_helpers_keep_no_request_state'] = True
    attempt('request state', stateless)

    def request_class():
        """pyramid.request.Request mixes URLMethodsMixin in and shadows none of its names; the header the harness
        sets for the virtual root is the one ResourceURL reads"""
        rq = F.Module(src, 'pyramid/request.py')
        cls = _need(rq.find('Request'), 'pyramid.request.Request')
        bases = [ast.unparse(b) for b in cls.bases]
        if 'URLMethodsMixin' not in bases or not bases or bases[0] != 'BaseRequest':
            raise Bad('bases of Request: %s' % bases)
        mix = _need(url.find('URLMethodsMixin'), 'URLMethodsMixin')
        names = {n.name for n in mix.body if isinstance(n, ast.FunctionDef)} | \
            {'script_name', 'environ', 'application_url', 'host_url', 'scheme', 'url_encoding', 'GET', 'matchdict', 'matched_route'}
        for st in cls.body:
            defined = [st.name] if isinstance(st, (ast.FunctionDef, ast.ClassDef)) else \
                [t.id for t in getattr(st, 'targets', []) if isinstance(t, ast.Name)]
            bad = [d for d in defined if d in names and d not in ('matchdict', 'matched_route')]
            if bad:
                raise Bad('Request defines %s itself' % bad)
        _imports(rq, 'pyramid.url', ['URLMethodsMixin'])
        itf = F.Module(src, 'pyramid/interfaces.py')
        if itf.const('VH_ROOT_KEY') != 'HTTP_X_VHM_ROOT':
            raise Bad('VH_ROOT_KEY is %r' % itf.const('VH_ROOT_KEY'))
        _imports(trav, 'pyramid.interfaces', ['VH_ROOT_KEY'])
    attempt('request class', request_class)

    def static():
        fn = _need(views.find('StaticURLInfo.generate'), 'StaticURLInfo.generate')
        keys = [n.targets[0].slice.value for n in ast.walk(fn)
                if isinstance(n, ast.Assign) and isinstance(n.targets[0], ast.Subscript)
                and _is_name(n.targets[0].value, 'kw') and isinstance(n.targets[0].slice, ast.Constant)]
        if len(keys) != 1:
            raise Bad('kw[...] assignment in StaticURLInfo.generate')
        vals['static_subpath_key'] = keys[0]
        # external URL branch: subpath = quote(subpath[, safe=...]); result = urljoin(url, subpath)
        imp = {}
        for st in views.tree.body:
            if isinstance(st, ast.ImportFrom) and st.module == 'urllib.parse':
                for al in st.names:
                    imp[al.asname or al.name] = al.name
        for nm in ('quote', 'urlparse', 'urlunparse'):
            if imp.get(nm) != nm:
                raise Bad('config/views.py no longer imports %s from urllib.parse' % nm)
        qc = [c for c in _calls(fn, 'quote') if isinstance(c.func, ast.Name)]
        if len(qc) != 1 or len(qc[0].args) < 1 or not _is_name(qc[0].args[0], 'subpath'):
            raise Bad('quote(subpath) call in StaticURLInfo.generate')
        sv = _kwarg(qc[0], 'safe', 1)
        extra = [k.arg for k in qc[0].keywords if k.arg != 'safe']
        if extra or len(qc[0].args) > 2:
            raise Bad('unexpected arguments of quote(subpath)')
        vals['static_external_safe'] = '/' if sv is None else _resolve(sv, dict(tenv, **uenv))   # '/' is urllib's default
        res = [n.value for n in ast.walk(fn) if isinstance(n, ast.Assign) and _is_name(n.targets[0], 'result')]
        if len(res) != 1:
            raise Bad('result = ... in StaticURLInfo.generate')
        how = ast.unparse(res[0])
        if how == 'urljoin(url, subpath)':
            if imp.get('urljoin') != 'urljoin':
                raise Bad('config/views.py no longer imports urljoin from urllib.parse')
            bools['static_external_uses_urljoin'] = True
        elif how == 'url + subpath':
            bools['static_external_uses_urljoin'] = False
        else:
            raise Bad('result = %s' % how)
        add = _need(views.find('StaticURLInfo.add'), 'StaticURLInfo.add')
        pats = [n.value for n in ast.walk(add) if isinstance(n, ast.Assign) and _is_name(n.targets[0], 'pattern')]
        if len(pats) != 1 or ast.unparse(pats[0]) != "'%%s*%s' %% name" % keys[0]:
            raise Bad('static route pattern')
    attempt('StaticURLInfo', static)

    for k, v in vals.items():
        if not isinstance(v, str) or any(ord(c) > 127 for c in v):
            problems.append('fact %s is not an ASCII string: %r' % (k, v))
            vals[k] = DEFAULTS[k]
    if vals['star_sep'] != '/' or vals['path_tuple_sep'] != '/':
        problems.append('join separators of the star value / path tuple are no longer "/" (the model has them fixed)')
    return vals, bools, tables


def coq(vals, bools, tables):
    out = [F.HEADER]
    for k in sorted(vals):
        out.append('Definition %s : text := %s.\n' % (k, F.coq_text(vals[k])))
    for k in sorted(bools):
        out.append('Definition %s : bool := %s.\n' % (k, F.coq_bool(bools[k])))
    for k in sorted(tables):
        out.append('Definition %s : list (text * text) := [%s].\n' % (
            k, '; '.join('(%s, %s)' % (F.coq_text(a), F.coq_text(b)) for a, b in tables[k])))
    import urllib.parse as UP
    for k in ('uses_relative', 'uses_netloc', 'uses_params'):
        out.append('Definition %s : list text := %s.\n' % (k, F.coq_texts(list(getattr(UP, k)))))
    return ''.join(out)
